"""C12 - each partition is assigned to exactly one consumer of a group.

spec/GroupOps.tla + Groups.tla (+ MC_Groups, Trace_Groups);
harness/server/c12 (directly constructed consumerGroup values) and harness/server/c06
(the same histories through Server.apply, whose DELETE_STREAM announces the deletion to the groups before it returns).
"""
import os
import random

from vf import core, graph

META = {
    'property_id': 'C12',
    'confirm_by_replay': True,   # bin/check re-executes the stimulus of every violation before it is reported
    'level': 'model_checking',
    'technique': 'TLA+ spec of the assignment algorithm (GroupOps.tla/Groups.tla, transcribed from groups.go incl. the '
                 'shared per-consumer counter and StreamDeleted as part of the DELETE_STREAM apply) checked exhaustively by TLC; '
                 'every transition of a small instance plus simulated deeper behaviours replayed on real consumerGroup '
                 'values and through Server.apply; every recorded step judged by TLC (trace validation)',
    'level_text': 'TLC enumerates every order of create/delete stream, create group, join, leave, expire, coordinator '
                  'change and restore within small '
                  'bounds and proves exactly-one / no-foreign / assigned-partitions-exist / +-1 balance / '
                  'same-epoch-same-assignment / convergence on the specification; all transitions of a smaller instance '
                  'and seeded simulations are executed on two real consumer groups (and on two real Servers through '
                  'Server.apply; an announcement of a deleted stream that does not come from the applying goroutine is '
                  'held at a gate, so that the recorded state shows what later operations would meet) and '
                  'TLC re-evaluates the same predicates on every recorded state.',
    'level_note': 'One group id; two servers. Quick: exhaustive design check <= 5 operations over 3 consumers x 2 streams '
                  'x <= 2 partitions, all transitions of the <= 3 operation instance replayed. Member expiry is played '
                  'by invoking the liveness-timer callback (timers themselves are set to one hour).',
    'design_ref': 'DESIGN.md section 6/C12',
}

SERVERS = ['A', 'B']


def shaped(names, shape):
    """the stream list of a request as MC_Groups.tla ListOf builds it: every name once (sorted); 'dup': the first name
    repeated at the end; 'empty': an empty stream name appended"""
    q = sorted(names)
    return q + [q[0]] if shape == 'dup' else q + [''] if shape == 'empty' else q

# Stream-name alphabets: the specification orders the streams sa < sb < sc (GroupOps.tla StreamOrder = the byte order of
# sort.Strings, which is what makes every server rebalance a member's streams in the same order).  The real names a
# behaviour uses keep that byte order, but compare differently - or as EQUAL - under other collations: pairs that differ
# only in case, a name that is a prefix of the next, shorter-sorts-later, digits (natural order), upper before lower.
# The drivers send the real names and rename the recorded state back (harness/server/fsm_common_verif_test.go v12Names).
ALPHABETS = [
    ('plain', None),
    ('case12', ['Orders', 'orders', 'payments']),
    ('prefix', ['foo', 'foo-bar', 'foo0']),
    ('case23', ['Audit', 'Orders', 'orders']),
    ('length', ['aa', 'b', 'c0']),
    ('case12b', ['A', 'a', 'b']),
    ('digits', ['s10', 's2', 's9']),
    ('case13', ['Orders', 'audit', 'orders']),
    ('upper', ['Zeta', 'alpha', 'beta']),
]
MODEL_STREAMS = ['sa', 'sb', 'sc']
assert all(a is None or (sorted(a) == a and len(set(a)) == 3) for _, a in ALPHABETS)
REPLAY_REPEATS = 8   # Go's map order differs between instances: a replayed behaviour is executed this many times


def with_names(cfg, k):
    """the k-th alphabet (rotating) for a behaviour's configuration"""
    name, real = ALPHABETS[k % len(ALPHABETS)]
    cfg['alphabet'] = name
    if real:
        cfg['names'] = dict(zip(MODEL_STREAMS, real))
    return cfg


LABELS = {
    'MCPause': lambda a: {'a': 'Pause', 's': a[0], 'p': a[1]},
    'MCResume': lambda a: {'a': 'Resume', 's': a[0], 'p': a[1]},
    'MCCreateStream': lambda a: {'a': 'CreateStream', 's': a[0], 'n': a[1]},
    'MCDeleteStream': lambda a: {'a': 'DeleteStream', 's': a[0]},
    'MCCreateGroup': lambda a: {'a': 'CreateGroup', 'c': a[0], 'streams': shaped(a[1]['__set__'], a[3]), 'coord': a[2]},
    'MCJoin': lambda a: {'a': 'Join', 'c': a[0], 'streams': shaped(a[1]['__set__'], a[2])},
    'MCLeave': lambda a: {'a': 'Leave', 'c': a[0], 'how': a[1]},
    'MCChangeCoordinator': lambda a: {'a': 'ChangeCoordinator', 'coord': a[0]},
    'MCRestore': lambda a: {'a': 'Restore', 'srv': a[0]},
    'MCGetAssignments': lambda a: {'a': 'GetAssignments', 'srv': a[0], 'c': a[1], 'd': a[2]},
}
GROUP_ACTS = {'CreateGroup', 'Join', 'Leave', 'ChangeCoordinator'}


def sweep(consumers, rng):
    """GetAssignments for every server x consumer at the current epoch, and one stale request"""
    return ([{'a': 'GetAssignments', 'srv': v, 'c': c, 'd': 0} for v in SERVERS for c in consumers] +
            [{'a': 'GetAssignments', 'srv': rng.choice(SERVERS), 'c': rng.choice(consumers), 'd': 1}])


def from_graph(g, consumers, first_id, rng, rot=0):
    paths, covered, total = graph.cover(g)
    out = []
    for root, p in paths:
        parts = core.tlaval.state_var(g['nodes'][root], 'parts')
        steps = []
        for i in p:
            name, args = graph.parse_label(g['edges'][i][2])
            steps.append(LABELS[name](args))
        out.append({'id': first_id + len(out),
                    'cfg': with_names({'servers': SERVERS, 'streams': sorted(parts), 'parts': parts}, rot + first_id + len(out)),
                    'steps': steps + sweep(consumers, rng)})
    return out, covered, total


def from_sim(sims, first_id, rng, rot=0):
    out = []
    for beh in sims:
        if len(beh) < 2:
            continue
        parts = core.tlaval.state_var(beh[0]['body'], 'parts')
        steps = []
        for st in beh[1:]:
            a = dict(st['last'])
            a.pop('e', None) if a['a'] == 'GetAssignments' else None
            a.pop('order', None)   # the real order is whatever the Go map delivers; it is recorded
            steps.append(a)
        out.append({'id': first_id + len(out),
                    'cfg': with_names({'servers': SERVERS, 'streams': sorted(parts), 'parts': parts}, rot + first_id + len(out)),
                    'steps': steps + sweep(['c1', 'c2', 'c3', 'c4'], rng)})
    return out


def feats(b):
    """coverage features of a behaviour (qualified action kinds and consecutive pairs of them); stream
    existence is tracked so that joins naming missing streams, re-creation with a different partition count,
    creation of a stream some member already named, restores etc. are told apart"""
    parts = dict(b['cfg']['parts'])
    ever = {s: n for s, n in parts.items() if n}
    named_missing = set()
    group = False
    paused = set()       # (stream, partition) paused at this point
    multi = 0            # admitted subscriptions to more than one stream (their processing order matters)
    alpha = b['cfg'].get('alphabet', 'plain')
    f, prev = set(), None
    for s in b['steps']:
        a = s['a']
        if a == 'GetAssignments':
            continue
        q = a
        if a in ('Join', 'CreateGroup'):
            miss = [x for x in s['streams'] if not parts.get(x)]
            q += ':missing' if miss else (':multi' if len(set(s['streams'])) > 1 else '')
            q += ':dup' if len(set(s['streams'])) < len(s['streams']) else ''
            q += ':emptyname' if '' in s['streams'] else ''
            named_missing.update(miss)
            if not miss and (group or a == 'CreateGroup'):
                multi += len(set(s['streams'])) > 1
                q += ':on-paused' if any(x in s['streams'] for x, _ in paused) else ''
            if a == 'CreateGroup' and not miss:
                group = True
        elif a == 'CreateStream':
            if s['s'] in named_missing:
                q += ':named-by-refused-join'
            elif s['s'] in ever:
                q += ':recreate-same' if ever[s['s']] == s['n'] else ':recreate-diff'
            q += ':group' if group else ''
            parts[s['s']] = ever[s['s']] = s['n']
        elif a == 'DeleteStream':
            parts[s['s']] = 0
            paused = {x for x in paused if x[0] != s['s']}
            q += ':group' if group else ''
            q += ':while-paused' if group and paused else ''
        elif a == 'Leave':
            q += ':' + s.get('how', 'leave')
            q += ':while-paused' if group and paused else ''
        elif a == 'Restore':
            q += ':while-paused' if group and paused else ''
        elif a in ('Pause', 'Resume'):
            (paused.add if a == 'Pause' else paused.discard)((s['s'], s['p']))
            q += ':group' if group else ''
        f.add(q)
        if prev:
            f.add(prev + '>' + q)
        prev = q
    if alpha != 'plain':
        f.add('names:' + alpha)
        if multi >= 2:
            f.add('multi2:' + alpha)
    return f


def quota_cover(pool, n, quota=3, pair_quota=None):
    """one pass: keep a behaviour if it shows a feature seen fewer than `quota` times (consecutive pairs of qualified
    actions: `pair_quota` times, default = quota); fill up to n evenly"""
    pq = quota if pair_quota is None else pair_quota
    seen, keep, rest = {}, [], []
    for i, b in enumerate(pool):
        fs = feats(b)
        if any(seen.get(x, 0) < (pq if '>' in x else quota) for x in fs):
            keep.append(i)
            for x in fs:
                seen[x] = seen.get(x, 0) + 1
        else:
            rest.append(i)
    if len(keep) < n and rest:
        step = max(1, len(rest) // (n - len(keep)))
        keep += rest[::step][:n - len(keep)]
    return [pool[i] for i in sorted(keep)], len(seen)


def nontrivial(b):
    acts = [s['a'] for s in b['steps']]
    return sum(1 for a in acts if a in GROUP_ACTS) >= 2 and ('Leave' in acts or 'DeleteStream' in acts or
                                                            any(len(s.get('streams', [])) > 1 for s in b['steps']))


def key(b):
    return core.sha([b['cfg']['parts'], b['cfg'].get('alphabet'), [s for s in b['steps'] if s['a'] != 'GetAssignments']])


def execute_one(binding, behaviours, d, subs, timeout=1500):
    """one go test process for one binding; returns the trace file.  The real one-node server ('race'): a request the
    FSM cannot apply makes Server.Apply panic in a Raft goroutine and takes the process down - that is recorded as a
    Crash line and judged, not an infrastructure failure"""
    stim = os.path.join(d, 'stim-%s.json' % binding)
    trace = os.path.join(d, 'trace-%s.ndjson' % binding)
    core.write_json(stim, {'behaviours': behaviours})
    if os.environ.get('VERIF_KEEP'):
        core.log('stimuli at', stim)
    env = {'VERIF_STIMULI_' + BINDINGS[binding][1]: stim, 'VERIF_TRACE_OUT_' + BINDINGS[binding][1]: trace}
    if binding != 'race':
        rc, out, wall = core.go_test('server', '^%s$' % BINDINGS[binding][0], env, timeout=timeout, subs=subs)
        core.log('C12 go test %s wall %.1fs: %s' % (binding, wall, out.strip().splitlines()[-1] if out.strip() else ''))
        if rc != 0 or not os.path.exists(trace):
            raise core.Inconclusive('harness failed rc=%s: %s' % (rc, out[-3000:]))
        return trace
    rc, out, wall = core.go_test('server', '^%s$' % BINDINGS['race'][0], env, timeout=600, subs=subs)
    core.log('C12 real-server go test wall %.1fs rc=%s' % (wall, rc))
    if rc != 0:
        import json
        import re
        m = re.search(r'^panic: (.*)$', out, re.M)
        lines = core.read_ndjson(trace) if os.path.exists(trace) else []
        if not m or 'INCONCLUSIVE' in out or not lines:
            raise core.Inconclusive('real-server harness failed rc=%s: %s' % (rc, out[-3000:]))
        last = lines[-1]
        crash = dict(last, a='Crash', args={'panic': m.group(1)[:300]}, obs=dict(last['obs'], a='Crash', err='crash'))
        with open(trace, 'a') as fh:
            fh.write(json.dumps(crash) + '\n')
    return trace


def judge(rep, behaviours, res, binding):
    by_id = {b['id']: b for b in behaviours}
    bad = {}
    for kind, tid, line, action, name, tag in res['fails']:
        if kind == 'I':
            rep.drift({'binding': binding, 'behaviour': tid, 'line': line, 'action': action, 'what': name})
            continue
        bad.setdefault(tid, []).append((line, action, name, kind, tag))
    drifting = [by_id[x['behaviour']] for x in rep.cov['conformance_drift'] if x.get('binding') == binding][:20]
    if drifting:
        core.write_json(os.path.join(core.BUILD, 'drift-C12-%s.json' % binding),
                        {'replay': {'binding': binding, 'behaviours': drifting}})
    for tid, fl in bad.items():
        fl.sort()
        line, action, name, kind, tag = fl[0]
        sig = 'C12|%s|%s|%s' % (name, action, tag if kind == 'K' else '-')
        rep.classify(sig, '%s binding, first failing step: line %d action %s check %s' % (binding, line, action, name),
                     {'binding': binding, 'behaviours': [by_id[tid]]})
    return res


BINDINGS = {
    'direct': ('TestVerifGroupsDirect', 'DIRECT', ['c12']),
    'server': ('TestVerifGroupsFSM', 'FSM', ['c06']),
    'race': ('TestVerifGroupsRealRace', 'RACE', ['c06']),
}


def race_behaviours(rng, n, first_id):
    """behaviours for the real one-node server: requests through the metadata leader API (raftNode.applyOperation:
    mutex, barrier, precondition, propose), with one step in which two requests are fired at the same time"""
    cs = ['c1', 'c2', 'c3', 'c4']
    rng.shuffle(cs)
    a, b, c = cs[:3]
    n1, n2 = rng.choice([3, 4]), rng.choice([2, 3])
    templates = [
        # a retried join / two clients with one consumer id
        [{'a': 'CreateStream', 's': 'sa', 'n': n1}, {'a': 'Join', 'c': a, 'streams': ['sa']},
         {'a': 'Race', 'ops': [{'a': 'Join', 'c': b, 'streams': ['sa']}, {'a': 'Join', 'c': b, 'streams': ['sa']}]},
         {'a': 'Join', 'c': c, 'streams': ['sa']}],
        # a join racing the deletion of one of its streams, which is created again later
        [{'a': 'CreateStream', 's': 'sa', 'n': n1}, {'a': 'CreateStream', 's': 'sb', 'n': n2},
         {'a': 'Join', 'c': a, 'streams': ['sa']},
         {'a': 'Race', 'ops': [{'a': 'Join', 'c': b, 'streams': ['sa', 'sb']}, {'a': 'DeleteStream', 's': 'sb'}]},
         {'a': 'CreateStream', 's': 'sb', 'n': n1}, {'a': 'Join', 'c': c, 'streams': ['sa']}],
        # a retried leave, then two different consumers joining together
        [{'a': 'CreateStream', 's': 'sa', 'n': n1}, {'a': 'Join', 'c': a, 'streams': ['sa']},
         {'a': 'Join', 'c': b, 'streams': ['sa']},
         {'a': 'Race', 'ops': [{'a': 'Leave', 'c': a}, {'a': 'Leave', 'c': a}]},
         {'a': 'Race', 'ops': [{'a': 'Join', 'c': c, 'streams': ['sa']}, {'a': 'Join', 'c': a, 'streams': ['sa']}]}],
        # the creator's join retried (CREATE_CONSUMER_GROUP twice), then a member joining
        [{'a': 'CreateStream', 's': 'sa', 'n': n1},
         {'a': 'Race', 'ops': [{'a': 'Join', 'c': a, 'streams': ['sa']}, {'a': 'Join', 'c': a, 'streams': ['sa']}]},
         {'a': 'Join', 'c': b, 'streams': ['sa']}],
    ]
    return [{'id': first_id + i, 'cfg': {'servers': SERVERS, 'streams': ['sa', 'sb'], 'parts': {'sa': 0, 'sb': 0}},
             'steps': templates[i % len(templates)]} for i in range(n)]


CHUNK_LINES = 200000


def validate_chunked(trace, d, tag):
    """TLC judges a trace in chunks of whole behaviours (TLC's Json module holds a whole file in memory: the thorough
    tier's direct trace has millions of lines and was not readable in one piece after the round-5 extension).  Every
    behaviour starts with an Open line, which resets the trace specification, so a cut in front of an Open line changes
    nothing.  Line numbers of the failures are those of the whole trace."""
    chunks, cur, n, start = [], [], 0, 1
    with open(trace) as fh:
        for line in fh:
            if len(cur) >= CHUNK_LINES and '"a":"Open"' in line[:80].replace(' ', ''):
                chunks.append((start, cur))
                start, cur = n + 1, []
            cur.append(line)
            n += 1
    if cur:
        chunks.append((start, cur))
    if len(chunks) <= 1:
        return core.tlc_trace('Trace_Groups.tla', 'Trace_Groups.cfg', trace, 1500)
    total = {'fails': [], 'lines': 0, 'validated': 0, 'wall': 0.0, 'out': '', 'rc': 0}
    for i, (off, lines) in enumerate(chunks):
        p = os.path.join(d, 'chunk-%s-%d.ndjson' % (tag, i))
        with open(p, 'w') as fh:
            fh.writelines(lines)
        res = core.tlc_trace('Trace_Groups.tla', 'Trace_Groups.cfg', p, 1500)
        os.remove(p)
        total['fails'] += [(k, t, ln + off - 1, a, nm, tg) for k, t, ln, a, nm, tg in res['fails']]
        total['lines'] += res['lines'] or 0
        total['validated'] += res['validated'] or 0
        total['wall'] += res['wall']
        total['out'] = res['out']
    return total


def run_bindings(rep, sets, d):
    """two pipelines side by side: direct binding (go test, then TLC) | Server.apply binding, then the real one-node
    server (go test each, then TLC each); one single-worker TLC per trace"""
    from concurrent.futures import ThreadPoolExecutor
    subs = sorted({s for b in sets for s in BINDINGS[b][2]})

    def pipeline(bs):
        out = {}
        traces = {b: execute_one(b, sets[b], d, subs) for b in bs}
        for b in bs:
            out[b] = validate_chunked(traces[b], d, b)
        return out
    lanes = [[b for b in sets if b == 'direct'], [b for b in sets if b != 'direct']]
    results = {}
    with ThreadPoolExecutor(max_workers=2) as ex:
        for f in [ex.submit(pipeline, bs) for bs in lanes if bs]:
            results.update(f.result())
    for b, r in results.items():
        core.log('C12 trace validation %s: %d lines in %.1fs' % (b, r['lines'], r['wall']))
    return {b: judge(rep, sets[b], results[b], b) for b in sets}


def run(rep, tier, seed, replay):
    import time
    t0 = time.time()

    def lap(what):
        core.log('C12 %-28s %6.1fs' % (what, time.time() - t0))
    rng = random.Random(seed)
    if replay:
        r = replay['replay']
        # two servers that applied the same operations are compared on independently built states; what depends on
        # Go's map iteration order differs from one execution to the next: the behaviour is executed several times
        rb = [dict(b, id=b['id'] * 100 + k) for b in r['behaviours'] for k in range(REPLAY_REPEATS)]
        with core.scratch('c12') as d:
            run_bindings(rep, {r.get('binding', 'direct'): rb}, d)
        rep.cov['rule'] = 'replay of a saved stimulus'
        rep.cov['samples'] = r['behaviours'][:1]
        return
    quick = tier == 'quick'
    # 1. design check
    res = core.tlc_check('MC_Groups.tla', 'MC_Groups.cfg' if quick else 'MC_Groups_thorough.cfg',
                         timeout=3000, coverage=not quick)
    rep.add_design('MC_Groups' if quick else 'MC_Groups_thorough', res)
    lap('design check')
    if res['violated']:
        raise core.Inconclusive('design check reports %s (specification and property disagree on the model): %s'
                                % (res['violated'], res['out'][-1500:]))
    # the open finding (assignments after a restore that is not history-neutral) must be reachable in the model
    # (ghost taint), otherwise the model lost it
    fres = core.tlc_check('MC_Groups.tla', 'MC_Groups_finding.cfg', timeout=600, workers=4)
    rep.cov['design_checks'].append({'config': 'MC_Groups_finding', 'violated': fres['violated'],
                                     'note': 'expected: Raw_Converged violated (group rebuilt by a restore differs from the live one)'})
    if 'Raw_Converged' not in fres['violated']:
        raise core.Inconclusive('model no longer reproduces the open finding: %s' % fres['out'][-1000:])
    # 2. behaviours: every transition of the small instance + simulation
    # MC_Groups_replay_recreate: directed family (one stream deleted, created again with any partition
    # count, then group operations; 6 steps) - both tiers
    behaviours, covered, total = [], 0, 0
    for cfg, consumers in (('MC_Groups_replay.cfg' if quick else 'MC_Groups_replay_thorough.cfg', ['c1', 'c2', 'c3']),
                           ('MC_Groups_replay_recreate.cfg', ['c1', 'c2']),
                           # directed family: pause / resume of partitions between the group operations (2 streams,
                           # <= 2 partitions, 2 consumers, 3 steps incl. restore and stream deletion) - both tiers
                           ('MC_Groups_replay_pause.cfg', ['c1', 'c2'])):
        g = graph.tlc_dump('MC_Groups.tla', cfg, workers=min(core.NCPU, 8), timeout=1500)
        gb, cv, tt = from_graph(g, consumers, len(behaviours) + 1, rng, seed)
        behaviours += gb
        covered, total = covered + cv, total + tt
    lap('dot dump')
    n_graph = len(behaviours)
    # a pool four times as large is simulated; the behaviours to execute are chosen by feature coverage
    nsim = 600 if quick else 6000
    sims = core.tlc_simulate('MC_Groups.tla', 'Sim_Groups.cfg', 4 * nsim, 14, seed, timeout=1200)
    chosen, nfeat = quota_cover(from_sim(sims, 0, rng, seed), nsim)
    rep.cov['simulation_features_covered'] = nfeat
    for b in chosen:
        b['id'] = len(behaviours) + 1
        behaviours.append(b)
    lap('simulation')
    # 3./4. execute on the real code, TLC judges
    sets = {'direct': behaviours}
    if os.path.isdir(os.path.join(core.HARNESS, 'server', 'c06')) and not os.environ.get('VERIF_C12_NOSERVER'):
        # real Servers cost ~50-100 ms per behaviour: a feature-covering sample of everything
        sets['server'], nf = quota_cover(behaviours, 450 if quick else 5000, pair_quota=1 if quick else None)
        rep.cov['server_binding_features_covered'] = nf
        rep.cov['server_binding_behaviours'] = len(sets['server'])
    if 'server' in sets:
        sets['race'] = race_behaviours(rng, 3 if quick else 12, len(behaviours) + 100000)
        rep.cov['real_server_race_behaviours'] = len(sets['race'])
    with core.scratch('c12') as d:
        trs = run_bindings(rep, sets, d)
    lines = sum(tr['validated'] for tr in trs.values())
    lap('execution + trace validation')
    rep.cov['transitions_of_replay_model'] = total
    rep.cov['transitions_replayed'] = covered
    rep.cov['exhaustive'] = covered == total
    rep.cov['traces_validated_against_impl'] = len(behaviours)
    rep.cov['trace_lines_validated'] = lines
    rep.cov['evaluations'] = len(behaviours)
    rep.cov['distinct_nontrivial'] = len({key(b) for b in behaviours if nontrivial(b)})
    rep.cov['rule'] = ('behaviours = transition cover of the state graph of MC_Groups_replay (every edge at least once) + '
                       'seeded TLC simulation of Sim_Groups (4 consumers, 3 streams, <= 3 partitions, depth 14), each '
                       'followed by a GetAssignments sweep; non-trivial = at least two group operations and a leave, a '
                       'stream deletion or a multi-stream subscription; distinct by hash of initial partitions + steps')
    rep.cov['samples'] = [behaviours[0], behaviours[-1]]
    rep.assumptions += ['operations are applied by both servers in the same order (Raft)',
                        'TLC 1.8.0 evaluates the TLA+ predicates correctly']
