"""X04 (additional check, not a listed property) - a metadata request takes effect at most once, only on
current state, wherever it enters the cluster.

spec/Propagation.tla (+ MC_Propagation, Trace_Propagation); harness/server/x04/x04_verif_test.go
"""
import json
import os
import random
import re
import shutil
import threading

from vf import core

META = {
    'property_id': 'X04',
    'level': 'model_checking',
    'technique': 'TLA+ spec of the metadata request path (controller check, propagation to the subscribed servers, '
                 'applyOperation: node mutex / Raft barrier / precondition check / Raft.Apply / future, FSM apply per '
                 'server, leadership notifications handled by leadershipAcquired / leadershipLost) checked exhaustively '
                 'by TLC; counterexamples of defective model variants, and situation-selected simulated behaviours are '
                 'replayed 1:1 on a real three-server cluster (real Raft, request goroutines held at gates, FSMs held '
                 'per entry, controller changes = real leadership transfers); every recorded step is judged by TLC',
    'level_text': 'TLC enumerates every interleaving of up to 2-3 requests (create / delete stream, expand / shrink ISR '
                  'by the partition leader in its own view, leader election by the controller) entering at any of three '
                  'servers, propagated or not, held between any two critical sections, with lagging FSMs, controller '
                  'changes and unhandled leadership notifications within the bounds, and proves: every committed entry '
                  'finds its precondition true in the state in which it is applied; at most one effective entry per '
                  'request; a positive answer implies a committed (and locally applied) entry; no server dies.  The same '
                  'behaviours run on real servers and TLC re-judges every recorded state, plus: every server holds '
                  'exactly what the applied prefix of the one log produces.',
    'level_note': 'Three voters; a proposal accepted by the Raft leader is committed at once (clean leadership '
                  'transfers, no lost entries); propagated requests one at a time per subscriber; consumer-group '
                  'operations, pause / resume / read-only and Raft-level timeouts are not modelled.',
    'design_ref': 'design_notes/X04.md',
}

SERVERS = ['a', 'b', 'c']


def to_stimulus(steps, slow, bid):
    return {'id': bid, 'cfg': {'slow': sorted(slow)}, 'steps': [dict(s) for s in steps]}


def _set(v):
    return set(v['__set__']) if isinstance(v, dict) and '__set__' in v else set(v or [])


def beh_from_states(states):
    """(steps, slow) of a TLC behaviour (list of dict(label, last, body))"""
    slow = set()
    steps = []
    for st in states:
        if not slow and st.get('body'):
            try:
                slow = _set(core.tlaval.state_var(st['body'], 'slow'))
            except Exception:
                pass
        a = st.get('last')
        if a and a.get('a') != 'Open':
            steps.append(a)
    return steps, slow


def features(states):
    """situation features of a model behaviour: which step meets which situation"""
    feats = set()
    prev = None
    pk = 'Open'
    for st in states:
        body = st['body']
        try:
            cur = {v: core.tlaval.state_var(body, v) for v in ('inst', 'log', 'applied', 'rleader', 'flag', 'sub', 'evq', 'lp',
                                                              'term')}
        except Exception:
            prev = None
            continue
        a = st['last']
        if prev is not None and a and a.get('a') != 'Open':
            k = a['a']
            ld = prev['rleader']
            nlog = len(prev['log'])
            if k in ('Handle', 'Lock', 'Propose', 'Cancel'):
                i = a['i'] - 1
                x, y = prev['inst'][i], cur['inst'][i]
                at = x['at']
                f = (k, x['op'], y['pc'], y['res'], at == ld, prev['flag'][at], prev['applied'][at] < nlog,
                     x['par'] != 0, x.get('term', 0) != prev['term'] if k == 'Propose' else False,
                     len(cur['log']) > nlog)
            elif k == 'Start':
                s = a['s']
                mine = [j for j, y in enumerate(cur['inst']) if y['r'] == a['r']]
                root = cur['inst'][mine[0]]
                f = (k, a['op'], root['pc'], root['res'], len(mine), s == ld, prev['flag'][s], prev['applied'][s] < nlog)
            elif k == 'Apply':
                s = a['s']
                moved = tuple(sorted((x['pc'], y['pc'], y['res']) for x, y in zip(prev['inst'], cur['inst'])
                                     if x['pc'] != y['pc']))
                f = (k, s == ld, moved, prev['lp'][s]['w'], cur['flag'][s] != prev['flag'][s])
            elif k == 'Transfer':
                busy = tuple(sorted((x['pc'], x['at'] == ld) for x in prev['inst'] if x['pc'] not in ('free', 'done')))
                f = (k, busy, len(prev['evq'][ld]), len(prev['evq'][a['t']]))
            else:   # Lost / Acquired
                s = a['s']
                f = (k, s == ld, prev['applied'][s] < nlog, len(prev['evq'][s]), cur['lp'][s]['w'],
                     tuple(sorted(x['pc'] for x in prev['inst'] if x['at'] == s and x['pc'] not in ('free', 'done'))))
            feats.add(f)
            feats.add(('2gram', pk, k))
            pk = k
        prev = cur
    return feats


def select(pool, limit, rng, per_feature=1):
    items = []
    for beh in pool:
        if len(beh) < 3:
            continue
        items.append((beh, features(beh)))
    rng.shuffle(items)
    allf = set()
    for _, fs in items:
        allf |= fs
    count = {}
    chosen = []
    for beh, fs in sorted(items, key=lambda it: -len(it[1])):
        if len(chosen) >= limit:
            break
        if any(count.get(f, 0) < per_feature for f in fs):
            chosen.append(beh)
            for f in fs:
                count[f] = count.get(f, 0) + 1
    covered = sum(1 for f in allf if count.get(f, 0) > 0)
    return chosen, covered, len(allf)


_panic_re = re.compile(r'^(panic: .*|fatal error: .*)$', re.M)


def server_panic(out):
    """the text of a panic raised in the server's own code (not in the harness), or None"""
    m = _panic_re.search(out)
    if not m:
        return None
    tail = out[m.start():]
    frames = re.findall(r'^\s+(\S+\.go):(\d+)', tail, re.M)
    first = next((f for f in frames if '/server/' in f[0] and not f[0].endswith('_test.go') and 'zz_' not in f[0]), None)
    top = re.search(r'^(github\.com/liftbridge-io/liftbridge/server\.\S+)', tail, re.M)
    if not first:
        return None
    if top and ('v4' in top.group(1) or 'TestVerif' in top.group(1)):
        return None
    return '%s at %s:%s' % (m.group(1)[:160], os.path.basename(first[0]), first[1])


def _go_run(behs, d, tag, timeout):
    stim = os.path.join(d, 'stim-%s.json' % tag)
    trace = os.path.join(d, 'trace-%s.ndjson' % tag)
    core.write_json(stim, {'behaviours': behs})
    env = {'VERIF_STIMULI': stim, 'VERIF_TRACE_OUT': trace}
    shm = None
    if os.path.isdir('/dev/shm') and os.access('/dev/shm', os.W_OK) and not os.environ.get('VERIF_X04_DISK'):
        shm = '/dev/shm/verif-x04-%d-%s' % (os.getpid(), tag)
        os.makedirs(shm, exist_ok=True)
        env['TMPDIR'] = shm
    try:
        rc, out, wall = core.go_test('server', '^TestVerifPropagation$', env, timeout=timeout, subs=['x04'],
                                     extra_args=['-v'])
    finally:
        if shm:
            shutil.rmtree(shm, ignore_errors=True)
    lines = []
    if os.path.exists(trace):
        with open(trace) as fh:
            for raw in fh:
                if raw.endswith('\n') and raw.strip():
                    try:
                        lines.append(json.loads(raw))
                    except ValueError:
                        break
    intent = None
    p = trace + '.intent.0'
    if os.path.exists(p):
        try:
            with open(p) as fh:
                intent = json.load(fh)
        except ValueError:
            pass
    return rc, out, wall, lines, intent


def crash_lines(intent, what):
    """the events recorded before the death plus the step in flight with the death as its observation"""
    evs = list(intent.get('events') or [])
    step = dict(intent['step'])
    a = step.pop('a')
    evs.append({'t': intent['t'], 'a': a, 'args': step, 'st': evs[-1]['st'], 'obs': {'crash': what, 'stuck': '', 'queued': False}})
    return evs


def _execute_one(behaviours, d, tag, timeout, res):
    """one sequence of harness processes; a panic in the server's code kills the process: the death is recorded
    as the observation of the step in flight and the remaining behaviours run in a new process"""
    queue = list(behaviours)
    n = 0
    while queue:
        n += 1
        rc, out, wall, lines, intent = _go_run(queue, d, '%s-%d' % (tag, n), timeout)
        res['wall'] += wall
        done = {ln['t'] for ln in lines if ln['a'] == 'Drain'}
        res['lines'] += [ln for ln in lines if ln['t'] in done]
        if rc == 0:
            if not re.search(r'VERIF-X04 behaviours=\d+', out):
                res['error'] = 'harness did not report: %s' % out[-2000:]
            return
        what = server_panic(out)
        if not what or not intent or not intent.get('events') or intent.get('t') in done:
            res['error'] = 'harness failed rc=%s: %s' % (rc, out[-3000:])
            return
        res['crashes'].append({'behaviour': intent['t'], 'step': intent['step'], 'what': what})
        res['lines'] += crash_lines(intent, what)
        if len(res['crashes']) > 12:
            # enough deaths observed: what is recorded is judged, the rest is not executed
            res['not_executed'] = len(queue) - len(done) - 1
            return
        queue = [b for b in queue if b['id'] not in done and b['id'] != intent['t']]


def execute(behaviours, d, procs=2, timeout=900):
    parts = [behaviours[i::procs] for i in range(procs)]
    results = [{'wall': 0, 'lines': [], 'crashes': [], 'error': None} for _ in parts]
    ths = [threading.Thread(target=_execute_one, args=(p, d, 'p%d' % i, timeout, results[i])) for i, p in enumerate(parts) if p]
    for t in ths:
        t.start()
    for t in ths:
        t.join()
    # a harness process that failed for another reason than a server panic: what was recorded before is still
    # judged (a violation found there stands); without a violation the run is inconclusive
    execute.error = next((r['error'] for r in results if r['error']), None)
    execute.wall = max(r['wall'] for r in results)
    execute.crashes = sum((r['crashes'] for r in results), [])
    trace = os.path.join(d, 'trace.ndjson')
    with open(trace, 'w') as fh:
        for r in results:
            for ln in r['lines']:
                fh.write(json.dumps(ln) + '\n')
    return trace


execute.wall = 0
execute.crashes = []
execute.error = None


def beh_class(b):
    """argument class of a behaviour for finding signatures: was some request proposed after a controller
    change that followed its precondition check?"""
    steps = b['steps']
    checked = {}
    for k, s in enumerate(steps):
        if s['a'] == 'Lock':
            checked[s['i']] = k
        if s['a'] == 'Propose' and s['i'] in checked:
            if any(t['a'] == 'Transfer' for t in steps[checked[s['i']]:k]):
                return 'checked-in-earlier-term'
    return '-'


def judge(rep, behaviours, trace):
    try:
        res = core.tlc_trace('Trace_Propagation.tla', 'Trace_Propagation.cfg', trace, timeout=1500)
    except core.Inconclusive:
        shutil.copy(trace, os.path.join(core.BUILD, 'X04-trace-not-validated.ndjson'))
        raise
    by_id = {b['id']: b for b in behaviours}
    lines = {}
    for i, ev in enumerate(core.read_ndjson(trace)):
        lines[i + 1] = ev
    bad = {}
    drifting = []
    for kind, tid, line, action, name in res['fails']:
        if kind == 'I':
            rep.drift({'behaviour': tid, 'line': line, 'action': action, 'what': name,
                       'args': lines.get(line, {}).get('args')})
            if by_id[tid] not in drifting:
                drifting.append(by_id[tid])
            continue
        bad.setdefault(tid, []).append((line, action, name))
    if drifting:
        core.write_json(os.path.join(core.BUILD, 'drift-X04.json'), {'replay': {'behaviours': drifting[:20]}})
    for tid, fl in sorted(bad.items()):
        fl.sort()
        line, action, name = fl[0]
        ev = lines.get(line, {})
        sig = 'X04|%s|%s|%s' % (name, action, beh_class(by_id[tid]))
        rep.classify(sig, 'first failing step: line %d action %s check %s args %s obs %s' % (
            line, action, name, ev.get('args'), ev.get('obs')), {'behaviours': [by_id[tid]]})
    return res


def variant(rep, cfg, what, workers=8):
    names, states = core.tlc_counterexample('MC_Propagation.tla', cfg, workers=workers, timeout=900)
    rep.cov['design_checks'].append({'config': cfg + ' (%s, expected to fail)' % what, 'violated': names})
    if not states:
        raise core.Inconclusive('no counterexample from %s' % cfg)
    return beh_from_states(states)


def families():
    """directed scenario families for the situations a random walk of 16 steps hardly ever reaches: an ISR change
    of the partition leader (the stream's first leader is the least loaded server: a) meets a leader election
    decided by the controller - with the controller's FSM lagging, with the request held before the node mutex,
    with the controller on another server (the request is propagated)"""
    out = []

    def create(slow_a):
        st = [{'a': 'Start', 'r': 1, 's': 'a', 'op': 'create', 'x': '-'}, {'a': 'Lock', 'i': 1},
              {'a': 'Propose', 'i': 1, 'x': 'a'}]
        return st + ([{'a': 'Apply', 's': 'a'}] if slow_a else [])

    for x in ('b', 'c'):
        isr = [{'a': 'Start', 'r': 2, 's': 'a', 'op': 'shrink', 'x': x}]
        # the request waits before the node mutex while the election is decided and applied
        out.append((create(False) + isr + [{'a': 'Start', 'r': 3, 's': 'a', 'op': 'elect', 'x': '-'}, {'a': 'Lock', 'i': 3},
                                           {'a': 'Propose', 'i': 3, 'x': x}, {'a': 'Lock', 'i': 2},
                                           {'a': 'Propose', 'i': 2, 'x': x}], set()))
        # the election is committed but not yet applied by the controller when the request arrives
        out.append((create(True) + [{'a': 'Start', 'r': 2, 's': 'a', 'op': 'elect', 'x': '-'}, {'a': 'Lock', 'i': 2},
                                    {'a': 'Propose', 'i': 2, 'x': x},
                                    {'a': 'Start', 'r': 3, 's': 'a', 'op': 'shrink', 'x': x}, {'a': 'Lock', 'i': 3},
                                    {'a': 'Apply', 's': 'a'}, {'a': 'Propose', 'i': 3, 'x': x}], {'a'}))
        # the controller is b: the partition leader's request is propagated; the election is decided at b
        move = [{'a': 'Transfer', 't': 'b'}, {'a': 'Lost', 's': 'a'}, {'a': 'Acquired', 's': 'b'}]
        out.append((create(False) + move + isr + [{'a': 'Start', 'r': 3, 's': 'b', 'op': 'elect', 'x': '-'}, {'a': 'Lock', 'i': 4},
                                                  {'a': 'Propose', 'i': 4, 'x': x}, {'a': 'Handle', 'i': 3},
                                                  {'a': 'Lock', 'i': 3}, {'a': 'Propose', 'i': 3, 'x': x}], set()))
        out.append((create(False) + move + isr + [{'a': 'Handle', 'i': 3},
                                                  {'a': 'Start', 'r': 3, 's': 'b', 'op': 'elect', 'x': '-'}, {'a': 'Lock', 'i': 4},
                                                  {'a': 'Propose', 'i': 4, 'x': x},
                                                  {'a': 'Lock', 'i': 3}, {'a': 'Propose', 'i': 3, 'x': x}], set()))
        # an expansion after a shrink, meeting the election the same ways
        shr = isr + [{'a': 'Lock', 'i': 2}, {'a': 'Propose', 'i': 2, 'x': x}]
        out.append((create(False) + shr + [{'a': 'Start', 'r': 3, 's': 'a', 'op': 'expand', 'x': x},
                                           {'a': 'Start', 'r': 4, 's': 'a', 'op': 'elect', 'x': '-'}, {'a': 'Lock', 'i': 4},
                                           {'a': 'Propose', 'i': 4, 'x': 'c' if x == 'b' else 'b'}, {'a': 'Lock', 'i': 3},
                                           {'a': 'Propose', 'i': 3, 'x': x}], set()))
        out.append((create(True) + shr + [{'a': 'Apply', 's': 'a'},
                                          {'a': 'Start', 'r': 3, 's': 'a', 'op': 'elect', 'x': '-'}, {'a': 'Lock', 'i': 3},
                                          {'a': 'Propose', 'i': 3, 'x': 'c' if x == 'b' else 'b'},
                                          {'a': 'Start', 'r': 4, 's': 'a', 'op': 'expand', 'x': x}, {'a': 'Lock', 'i': 4},
                                          {'a': 'Apply', 's': 'a'}, {'a': 'Propose', 'i': 4, 'x': x}], {'a'}))
        # the open finding: the ISR change is checked, leadership moves to c (which decides an election) and comes
        # back, then the stale-checked change is proposed
        out.append((create(False) + isr + [{'a': 'Lock', 'i': 2}, {'a': 'Transfer', 't': 'c'}, {'a': 'Acquired', 's': 'c'},
                                           {'a': 'Start', 'r': 3, 's': 'c', 'op': 'elect', 'x': '-'}, {'a': 'Lock', 'i': 3},
                                           {'a': 'Propose', 'i': 3, 'x': x}, {'a': 'Transfer', 't': 'a'},
                                           {'a': 'Propose', 'i': 2, 'x': x}], set()))
    # the same window with a stream deleted meanwhile (repaired adbfb33: refused when applied)
    out.append((create(False) + [{'a': 'Start', 'r': 2, 's': 'a', 'op': 'shrink', 'x': 'b'}, {'a': 'Lock', 'i': 2},
                                 {'a': 'Transfer', 't': 'c'}, {'a': 'Start', 'r': 3, 's': 'c', 'op': 'delete', 'x': '-'},
                                 {'a': 'Lock', 'i': 3}, {'a': 'Propose', 'i': 3, 'x': '-'}, {'a': 'Transfer', 't': 'a'},
                                 {'a': 'Propose', 'i': 2, 'x': 'b'}], set()))
    # one request delivered to the deposed controller (still subscribed) AND to the new one, the deposed one leads
    # again later and executes its copy after another client's delete (repaired afee45d: queue subscription)
    out.append(([{'a': 'Transfer', 't': 'c'}, {'a': 'Start', 'r': 1, 's': 'a', 'op': 'delete', 'x': '-'},
                 {'a': 'Acquired', 's': 'c'}, {'a': 'Start', 'r': 2, 's': 'b', 'op': 'create', 'x': '-'},
                 {'a': 'Handle', 'i': 3}, {'a': 'Handle', 'i': 4}, {'a': 'Lock', 'i': 4}, {'a': 'Propose', 'i': 4, 'x': 'b'},
                 {'a': 'Transfer', 't': 'a'}, {'a': 'Lock', 'i': 1}, {'a': 'Propose', 'i': 1, 'x': '-'},
                 {'a': 'Lock', 'i': 3}, {'a': 'Propose', 'i': 3, 'x': 'a'}], set()))
    # delete / create meeting each other and a deleted stream meeting an ISR change
    out.append((create(False) + [{'a': 'Start', 'r': 2, 's': 'a', 'op': 'shrink', 'x': 'b'},
                                 {'a': 'Start', 'r': 3, 's': 'b', 'op': 'delete', 'x': '-'}, {'a': 'Handle', 'i': 4},
                                 {'a': 'Lock', 'i': 4}, {'a': 'Propose', 'i': 4, 'x': '-'}, {'a': 'Lock', 'i': 2},
                                 {'a': 'Propose', 'i': 2, 'x': 'b'}], set()))
    return out


def run(rep, tier, seed, replay):
    rng = random.Random(seed)
    if replay:
        behaviours = replay['replay']['behaviours']
        with core.scratch('x04') as d:
            trace = execute(behaviours, d, procs=1)
            judge(rep, behaviours, trace)
        rep.cov['rule'] = 'replay of a saved stimulus'
        rep.cov['samples'] = behaviours[:1]
        rep.cov['server_deaths_observed'] = execute.crashes
        return
    quick = tier == 'quick'
    ncpu = min(core.NCPU, 12)
    # 1. design check of the specification of today's code
    #    quick: one controller change, one lagging server, one cancellation; thorough: in addition two controller
    #    changes (no lagging server) - the bounds are fitted to measured state counts (design_notes/X04.md)
    res = core.tlc_check('MC_Propagation.tla', 'MC_Propagation.cfg', timeout=3000, workers=ncpu)
    rep.add_design('MC_Propagation', res)
    if not quick:
        res2 = core.tlc_check('MC_Propagation.tla', 'MC_Propagation_thorough.cfg', timeout=3000, workers=ncpu)
        rep.add_design('MC_Propagation_thorough', res2)
    # 2. defective variants of single model decisions and the known window: TLC's counterexamples are directed stimuli
    directed = []
    for cfg, what in (('MC_Propagation_nobarrier.cfg', 'preconditions checked without the Raft barrier'),
                      ('MC_Propagation_acqpanic.cfg', 'promotion handled after the server was deposed (fixed 8e543c3)'),
                      ('MC_Propagation_toctou.cfg', 'leadership moves away and back between check and proposal, entry fails in apply (fixed adbfb33)'),
                      ('MC_Propagation_okearly.cfg', 'positive answer although the proposal was refused by Raft')):
        if not os.path.exists(os.path.join(core.SPEC, cfg)):
            continue
        directed.append(variant(rep, cfg, what))
    fam = families()
    rep.cov['behaviours_directed_families'] = len(fam)
    directed += fam
    # 3. a simulated pool, reduced to the behaviours that cover the situation features
    pool = core.tlc_simulate('MC_Propagation.tla', 'Sim_Propagation.cfg', 3000 if quick else 10000, 16 if quick else 20,
                             seed, timeout=900)
    chosen, fcov, ftot = select(pool, 110 if quick else 450, rng, per_feature=1 if quick else 3)
    rep.cov['situation_features_in_pool'] = ftot
    rep.cov['situation_features_replayed'] = fcov
    behaviours = []
    for steps, slow in directed + [beh_from_states(b) for b in chosen]:
        behaviours.append(to_stimulus(steps, slow, len(behaviours) + 1))
    # 4. execute on the real cluster, 5. TLC judges
    with core.scratch('x04') as d:
        trace = execute(behaviours, d, procs=2 if quick else 4, timeout=900 if quick else 1700)
        tr = judge(rep, behaviours, trace)
    if execute.error:
        if not rep.violations:
            raise core.Inconclusive(execute.error)
        rep.cov['harness_stopped_early'] = execute.error[:500]
    rep.cov['traces_validated_against_impl'] = len(behaviours)
    rep.cov['trace_lines_validated'] = tr['validated']
    rep.cov['evaluations'] = len(behaviours)
    rep.cov['behaviours_directed'] = len(directed)
    rep.cov['behaviours_simulated_selected'] = len(chosen)
    rep.cov['harness_wall_s'] = round(execute.wall, 1)
    rep.cov['server_deaths_observed'] = execute.crashes

    def nontrivial(b):
        ks = [s['a'] for s in b['steps']]
        return 'Propose' in ks and ('Transfer' in ks or 'Apply' in ks or 'Handle' in ks)
    rep.cov['distinct_nontrivial'] = len({core.sha(b) for b in behaviours if nontrivial(b)})
    rep.cov['exhaustive'] = False
    rep.cov['rule'] = ('behaviours = (a) counterexamples of defective model variants (no barrier before the precondition '
                       'check, promotion handled after being deposed, leadership away and back between check and proposal); '
                       '(b) from a pool of %d simulated behaviours those that cover the situation features (which step '
                       'meets which situation: controller or not, flag, lagging FSM, propagated, term changed ...: %d of %d '
                       'features); non-trivial = a proposal together with a controller change, a held FSM or a propagated '
                       'request; distinct by hash of the stimulus' % (len(pool), fcov, ftot))
    rep.cov['samples'] = [behaviours[0], behaviours[len(directed)], behaviours[-1]]
    rep.assumptions += ['a proposal accepted by the Raft leader is committed (leadership changes are clean transfers)',
                        'propagated requests are handled one at a time per subscriber',
                        'the owner of a log entry is the request that was released into Raft.Apply in that step',
                        'TLC evaluates the TLA+ predicates correctly']
