"""X02 (additional check, not a listed property) - life cycle of a stream and its partitions on a live
one-node server: pause, resume (on publish / on subscribe), auto pause, read-only, delete, restart.

spec/Lifecycle.tla (+ MC_Lifecycle, Sim_Lifecycle, Trace_Lifecycle); harness/server/x02/x02_verif_test.go
"""
import concurrent.futures
import json
import os
import random
import shutil

from vf import core, graph, tlaval

META = {
    'property_id': 'X02',
    'level': 'model_checking',
    'technique': 'TLA+ spec (Lifecycle.tla) of the partition life cycle as api.go / metadata.go / partition.go / stream.go / '
                 'fsm.go perform it (Do*) with what a user is promised as step predicates and invariants (P_*, X02_*); '
                 'TLC checks the model exhaustively within bounds; TLC-generated behaviours (transition cover, '
                 'situation-guided simulation, phase-scheduled race families through verif gates, auto-pause timer '
                 'families with clock facts) are replayed on a real one-node server and TLC judges every recorded step',
    'level_text': 'Design: 2 partitions, every partition subset, ResumeAll, 3 publish paths, subscriptions with/without '
                  'Resume, a sync publish and a Resume subscription split at 4 gates with any call in between, quiet '
                  'periods, restarts with and without snapshot, delete and re-creation, 3 stream configurations. '
                  'Binding: the same calls on a real server; recorded per step: result class, paused/read-only flags '
                  '(object and protobuf), leader loops, NATS subscription, subscriber count, ResumeAll, log contents '
                  '(in-package reader), what every subscriber received and how it ended, stream directory.',
    'level_note': 'One node, replication factor 1, ack policy LEADER. The auto-pause timer is real (150 ms); whether it can '
                  'have fired silently is proven by the clock per step (mf) and leaves freedom only then. A missing '
                  'answer is given up after the partition was unserved for 500 ms (observation from the real objects).',
    'design_ref': 'design_notes/X02.md',
}

GO_RUN = '^TestVerifX02$'
AUTO_MS = 150
PROCS = 4


# ---------------------------------------------------------------- model step -> stimulus step
def as_list(v):
    if isinstance(v, dict) and '__set__' in v:
        return sorted(v['__set__'])
    if isinstance(v, (list, tuple, set, frozenset)):
        return sorted(v)
    return v


def step_of(last):
    a = last['a']
    s = {'a': a}
    for k in ('p', 'path', 'm', 'gate', 's', 'resume', 'ra', 'b', 'snap'):
        if k in last:
            s[k] = last[k]
    if 'ps' in last:
        s['ps'] = as_list(last['ps'])
    if a == 'Wait':
        s['pct'] = 70
    return s


def cfg_of(c, parts=2):
    return {'parts': parts, 'auto': AUTO_MS if c.get('auto') else 0, 'dis': bool(c.get('dis'))}


def beh_of_states(states):
    """states: list of dict(label, last, body) from TLC; element 0 is the initial state"""
    c = tlaval.state_var(states[0]['body'], 'cfg')
    steps = [step_of(st['last']) for st in states[1:] if st['last'] and st['last'].get('a') != 'Open']
    return {'cfg': cfg_of(c), 'steps': steps}


# ---------------------------------------------------------------- situation features of a simulated behaviour
def features(states):
    """who meets what: (call with its shaping arguments) x (situation of the partitions it names before the call)"""
    out = set()
    prev_a = None
    for i in range(1, len(states)):
        last = states[i]['last']
        if not last or last.get('a') in (None, 'Open'):
            continue
        b = states[i - 1]['body']
        try:
            ex = tlaval.state_var(b, 'exists')
            pa = tlaval.state_var(b, 'paused')
            ro = tlaval.state_var(b, 'ro')
            ra = tlaval.state_var(b, 'resumeAll')
            pend = tlaval.state_var(b, 'pend')
            subs = tlaval.state_var(b, 'subs')
            c = tlaval.state_var(b, 'cfg')
        except Exception:
            continue
        a = last['a']
        p = last.get('p', pend.get('p', 0) if isinstance(pend, dict) else 0)
        if p not in (0, 1):
            p = 0

        def g(m, k):
            try:
                return bool(m[str(k)])
            except Exception:
                return False
        opensub = any(isinstance(v, dict) and v.get('st') == 'wait' and v.get('p') == p for v in (subs or {}).values()) if isinstance(subs, dict) else False
        sit = (bool(ex), g(pa, p), g(pa, 1 - p), g(ro, p), bool(ra), opensub,
               pend.get('ph', '') if isinstance(pend, dict) and pend.get('on') else '', bool(c.get('auto')), bool(c.get('dis')))
        shape = tuple(str(last.get(k)) for k in ('path', 'gate', 'resume', 'ra', 'b', 'snap')) + (str(as_list(last.get('ps', ''))),)
        res = tlaval.state_var(states[i]['body'], 'obs').get('res')
        out.add((a, shape, sit, res))
        if prev_a:
            out.add(('pair', prev_a, a, res, sit[1], sit[3], sit[0]))
        prev_a = a
    return out


def cost(beh):
    """rough wall time of a behaviour in seconds"""
    c = 0.12
    for s in beh['steps']:
        a = s['a']
        c += {'Restart': 1.8, 'Idle': 0.6, 'Wait': 0.11, 'Create': 0.05}.get(a, 0.02)
        if a == 'Publish' and s.get('path') == 'subject':
            c += 0.3
        if a == 'PubEnd':
            c += 0.2
    return c


def select(pool, per_feature, budget_s, rng):
    """greedy: behaviours that bring features not yet covered per_feature times, cheapest first per gain"""
    count = {}
    chosen = []
    spent = 0.0
    cands = [(b, f) for b, f in pool if f]
    rng.shuffle(cands)
    while cands and spent < budget_s:
        best, bestgain = None, 0
        for idx, (b, f) in enumerate(cands[:400]):
            gain = sum(1 for x in f if count.get(x, 0) < per_feature) / cost(b)
            if gain > bestgain:
                best, bestgain = idx, gain
        if best is None:
            cands = cands[400:]
            continue
        b, f = cands.pop(best)
        for x in f:
            count[x] = count.get(x, 0) + 1
        chosen.append(b)
        spent += cost(b)
    return chosen, len(count)


# ---------------------------------------------------------------- directed families
def P(p, m, path='sync'):
    return {'a': 'Publish', 'p': p, 'path': path, 'm': m}


def PAUSE(ps, ra=False):
    return {'a': 'Pause', 'ps': list(ps), 'ra': ra}


def RO(ps, b=True):
    return {'a': 'Readonly', 'ps': list(ps), 'b': b}


def SUB(s, p, resume=False):
    return {'a': 'Sub', 's': s, 'p': p, 'resume': resume}


DEL, CRE, IDLE = {'a': 'Delete'}, {'a': 'Create'}, {'a': 'Idle'}


def RESTART(snap=False):
    return {'a': 'Restart', 'snap': snap}


def WAIT(pct):
    return {'a': 'Wait', 'pct': pct}


def renumber(steps):
    """message ids in the order of the publish attempts (as the model numbers them)"""
    out, m = [], 0
    for s in steps:
        s = dict(s)
        if s['a'] in ('Publish', 'PubStart'):
            m += 1
            s['m'] = m
        out.append(s)
    return out


def race_family():
    """phase-scheduled: a sync publish (or a Resume subscription) parked at each gate while one other call runs"""
    setups = {
        'active': [P(0, 0)],
        'paused': [P(0, 0), PAUSE([0])],
        'pausedall-ra': [P(0, 0), P(1, 0), PAUSE([], True)],
        'other-paused-ra': [P(0, 0), PAUSE([1], True)],
        'sub-open': [P(0, 0), SUB('s2', 0)],
    }
    others = {
        'pause': [PAUSE([0])], 'pauseall-ra': [PAUSE([], True)], 'ro': [RO([0])], 'delete': [DEL],
        'delete-create': [DEL, CRE], 'publish-async': [P(0, 0, 'async')], 'publish-subject': [P(0, 0, 'subject')],
        'sub-resume': [SUB('s1', 0, True)], 'ro-toggle': [RO([0]), RO([0], False)], 'pause-other': [PAUSE([1])],
    }
    out = []
    for sn, setup in setups.items():
        for on, other in others.items():
            for gate in ('checked', 'applied', 'resumed'):
                if gate == 'applied' and sn in ('active', 'sub-open'):
                    continue   # nothing to resume: the gate is not passed
                steps = setup + [{'a': 'PubStart', 'p': 0, 'gate': gate, 'm': 0}] + other + [{'a': 'PubEnd'}, P(0, 0)]
                out.append({'cfg': cfg_of({}), 'steps': renumber(steps), 'fam': 'race-pub-%s-%s-%s' % (sn, gate, on)})
            if on != 'sub-resume':
                steps = setup + [{'a': 'SubStart', 's': 's1', 'p': 0}] + other + [{'a': 'SubEnd'}, P(0, 0)]
                out.append({'cfg': cfg_of({}), 'steps': renumber(steps), 'fam': 'race-sub-%s-%s' % (sn, on)})
    return out


def auto_family(thorough):
    """the real auto-pause timer: one partition where the clock decides (mf must be false at the checked moments),
    two partitions for the interplay with ResumeAll / subscribers / restart"""
    one = []
    for dis in (False, True):
        c = dict(cfg_of({'auto': True, 'dis': dis}, parts=1))
        one += [
            {'cfg': c, 'steps': [P(0, 0), WAIT(70), P(0, 0), WAIT(70), P(0, 0, 'async'), WAIT(70), IDLE, P(0, 0), WAIT(60), IDLE]},
            {'cfg': c, 'steps': [IDLE, SUB('s1', 0, True), WAIT(50), IDLE, {'a': 'Unsub', 's': 's1'}, IDLE, P(0, 0, 'async'), IDLE]},
            {'cfg': c, 'steps': [P(0, 0), SUB('s1', 0), IDLE, P(0, 0), {'a': 'Unsub', 's': 's1'}, WAIT(70), IDLE]},
            {'cfg': c, 'steps': [P(0, 0), IDLE, RESTART(), WAIT(50), P(0, 0), WAIT(70), IDLE, RESTART(True), P(0, 0, 'async')]},
            {'cfg': c, 'steps': [P(0, 0), RO([0]), IDLE, P(0, 0), RO([0], False), P(0, 0), IDLE]},
        ]
        for pct in ((85, 100, 115) if not thorough else (70, 80, 90, 95, 100, 105, 110, 120, 140)):
            # the timer against a publish: whichever comes first, the message is stored once
            one.append({'cfg': c, 'steps': [P(0, 0), WAIT(pct), P(0, 0), WAIT(50), P(0, 0, 'async'), IDLE]})
    two = []
    for dis in (False, True):
        c = cfg_of({'auto': True, 'dis': dis})
        two += [
            {'cfg': c, 'steps': [P(0, 0), PAUSE([0], True), IDLE, P(1, 0), P(0, 0)]},
            {'cfg': c, 'steps': [P(0, 0), SUB('s1', 1), IDLE, P(0, 0), {'a': 'Unsub', 's': 's1'}, IDLE, RESTART(True), SUB('s1', 0, True), IDLE]},
            {'cfg': c, 'steps': [IDLE, P(1, 0, 'subject'), P(1, 0), IDLE, DEL, CRE, IDLE]},
        ]
    for b in one + two:
        b['steps'] = renumber(b['steps'])
        b['fam'] = 'auto'
    return one, two


def directed_family():
    """histories behind the defects found while building the check and the seeded mutants' territory"""
    fam = [
        # ResumeAll promised, snapshot + restart, publish to one partition
        [P(0, 0), PAUSE([], True), RESTART(True), P(0, 0), P(1, 0)],
        [P(0, 0), PAUSE([], True), RESTART(False), P(0, 0), P(1, 0)],
        # a resumed partition must stay resumed over a snapshot restore (protobuf flag, 81c0d5a)
        [P(0, 0), PAUSE([0]), P(0, 0), RESTART(True), P(0, 0), SUB('s1', 0)],
        [P(1, 0), PAUSE([]), SUB('s1', 1, True), RESTART(True), P(1, 0), P(0, 0)],
        # read-only over pause / resume / restart
        [P(0, 0), RO([0]), PAUSE([0]), RESTART(False), SUB('s1', 0, True), P(0, 0), RO([0], False), P(0, 0)],
        [P(0, 0), RO([]), RESTART(True), P(0, 0, 'async'), P(0, 0, 'subject'), RO([], False), P(0, 0, 'subject')],
        # acknowledged before the pause, still there after the resume; every path
        [P(0, 0), P(0, 0, 'async'), P(0, 0, 'subject'), PAUSE([0]), P(0, 0, 'subject'), P(0, 0, 'async'), P(0, 0), SUB('s1', 0)],
        # delete and re-create: nothing comes back
        [P(0, 0), PAUSE([0]), DEL, P(0, 0), CRE, SUB('s1', 0), P(0, 0), RESTART(False), SUB('s1', 0)],
    ]
    return [{'cfg': cfg_of({}), 'steps': renumber(s), 'fam': 'directed'} for s in fam]


# ---------------------------------------------------------------- execution / verdict
_BIN = {}


def crash_text(out):
    """the first line of a Go crash report of the process ('' when it did not die of one: a test timeout, an
    os.Exit of the embedded NATS server on a port conflict, a kill are infrastructure failures)"""
    for line in out.split('\n'):
        if line.startswith('panic: test timed out'):
            return ''
        if line.startswith(('panic:', 'fatal error:', 'unexpected fault address', 'SIGBUS', 'SIGSEGV')):
            return line[:300]
    return ''


def harness_fault(out):
    """the first goroutine of a Go crash report is the one that failed: a harness frame on top of it (below the
    runtime's own frames) means the harness itself is at fault"""
    import re
    m = re.search(r'^goroutine \d+ [^\n]*\[running[^\n]*\]:\n(.*?)(?:\n\n|\Z)', out, re.S | re.M)
    if not m:
        return False
    for line in m.group(1).split('\n'):
        line = line.strip()
        if not line or line.startswith(('/', 'runtime.', 'panic(', 'created by', 'sync.', 'testing.')):
            continue
        return 'vX02' in line or 'TestVerifX02' in line
    return False


def test_binary(d):
    """the test binary of package server with the harness overlay, built once per check run"""
    if 'bin' in _BIN and os.path.exists(_BIN['bin']):
        return _BIN['bin']
    import subprocess
    ov = core.make_overlay(d, 'server', ['x02'])
    out = os.path.join(d, 'x02.test')
    cmd = ['go', 'test', '-tags', 'verif', '-overlay', ov, '-vet=off', '-c', '-o', out, './server']
    p = subprocess.run(cmd, cwd=core.REPO, env=core.go_env(), stdout=subprocess.PIPE, stderr=subprocess.STDOUT, text=True,
                       timeout=900)
    if p.returncode != 0 or not os.path.exists(out):
        raise core.Inconclusive('building the harness failed: %s' % p.stdout[-3000:])
    _BIN['bin'] = out
    return out


def execute(groups, d, tag, timeout=2400):
    """groups: {parts: [behaviours]}.  Runs them in up to PROCS parallel processes of the test binary (each with
    its own server, chunks balanced by estimated cost); returns {parts: path of the concatenated trace}"""
    import subprocess
    import time
    tb = time.time()
    binp = test_binary(d)
    core.log('x02: test binary %.1f s' % (time.time() - tb))
    total = sum(cost(b) for bs in groups.values() for b in bs) or 1.0
    chunks = []   # (parts, [behaviours])
    for parts, bs in groups.items():
        if not bs:
            continue
        n = max(1, min(len(bs), round(PROCS * sum(cost(b) for b in bs) / total)))
        bins = [[0.0, []] for _ in range(n)]
        for b in sorted(bs, key=cost, reverse=True):
            tgt = min(bins, key=lambda x: x[0])
            tgt[0] += cost(b)
            tgt[1].append(b)
        chunks += [(parts, sorted(x[1], key=lambda b: b['id'])) for x in bins]

    def one(i):
        parts, bs = chunks[i]
        trace = os.path.join(d, 'trace-%s-%d.ndjson' % (tag, i))
        open(trace, 'w').close()
        todo = list(bs)
        crashes = 0
        while todo:
            stim = os.path.join(d, 'stim-%s-%d-%d.json' % (tag, i, crashes))
            part = os.path.join(d, 'trace-%s-%d-%d.ndjson' % (tag, i, crashes))
            tmp = os.path.join(d, 'tmp-%s-%d-%d' % (tag, i, crashes))
            os.makedirs(tmp, exist_ok=True)
            core.write_json(stim, {'behaviours': todo})
            env = core.go_env()
            env.update({'VERIF_STIMULI': stim, 'VERIF_TRACE_OUT': part, 'TMPDIR': tmp})
            cmd = [binp, '-test.run', GO_RUN, '-test.timeout', '%ds' % timeout, '-test.count', '1']
            rc, out, wall = core._run(cmd, os.path.join(core.REPO, 'server'), env, timeout + 60)
            lines = []
            if os.path.exists(part):
                with open(part) as fh:
                    lines = [x for x in fh.read().split('\n') if x.strip()]
                if lines:
                    try:
                        json.loads(lines[-1])
                    except ValueError:
                        lines.pop()     # the line that was being written when the process died
            shutil.rmtree(tmp, ignore_errors=True)
            if rc == 0:
                with open(trace, 'a') as fh:
                    fh.write(''.join(x + '\n' for x in lines))
                break
            # The process died.  A crash of the real code (a panic in a server goroutine, a fatal runtime
            # error) is an observation that TLC judges; a failure of the harness itself is inconclusive.
            crashes += 1
            if rc is None or 'INCONCLUSIVE' in out or crashes > 6 or not lines:
                raise core.Inconclusive('harness failed rc=%s: %s' % (rc, out[-3000:]))
            last = json.loads(lines[-1])
            tid = last['t']
            idx = next(k for k, b in enumerate(todo) if b['id'] == tid)
            if last['obs']['res'] == 'hang':
                # the driver's watchdog recorded the step that did not come back and ended the process; the
                # remaining behaviours with that call are not executed (each would wait for the watchdog again)
                with open(trace, 'a') as fh:
                    fh.write(''.join(x + '\n' for x in lines))
                if last['a'] == 'Stop':
                    break       # the run was over
                rest = [b for b in todo[idx + 1:] if not any(t['a'] == last['a'] for t in b['steps'])]
                core.log('x02: behaviour %d hung in %s; %d further behaviours with that call skipped'
                         % (tid, last['a'], len(todo) - idx - 1 - len(rest)))
                todo = rest
                continue
            if harness_fault(out) or 'test timed out' in out:
                raise core.Inconclusive('harness failed rc=%s: %s' % (rc, out[-3000:]))
            if not crash_text(out):
                # not a crash of the code (e.g. the embedded NATS server lost its port to another process while
                # the server was restarting): the behaviour that was running is executed again
                core.log('x02: the process ended without a crash report in behaviour %d (rc=%s): executed again' % (tid, rc))
                with open(trace, 'a') as fh:
                    fh.write(''.join(x + '\n' for x in lines if json.loads(x)['t'] != tid))
                todo = todo[idx:]
                continue
            done_steps = sum(1 for x in lines if json.loads(x)['t'] == tid) - 1
            steps = todo[idx]['steps']
            crashed = steps[done_steps] if done_steps < len(steps) else {'a': 'Cleanup'}
            ev = dict(last, a=crashed['a'], args={k: v for k, v in crashed.items() if k != 'a'},
                      obs={'a': crashed['a'], 'res': 'panic', 'err': crash_text(out), 'ms': 0})
            ev['st'] = dict(last['st'], mf=[False] * len(last['st']['mf']))
            ev.pop('cfg', None)
            with open(trace, 'a') as fh:
                fh.write(''.join(x + '\n' for x in lines))
                fh.write(json.dumps(ev) + '\n')
            core.log('x02: the server process died in behaviour %d at step %d (%s)' % (tid, done_steps + 1, crashed['a']))
            todo = todo[idx + 1:]
        return parts, trace

    with concurrent.futures.ThreadPoolExecutor(max_workers=max(PROCS, len(chunks))) as ex:
        done = list(ex.map(one, range(len(chunks))))
    core.log('x02: executed %d chunks, %.1f s since the build started' % (len(chunks), time.time() - tb))
    res = {}
    for parts in groups:
        if not groups[parts]:
            continue
        allp = os.path.join(d, 'trace-%s-p%d.ndjson' % (tag, parts))
        with open(allp, 'w') as fh:
            for pp, t in done:
                if pp == parts:
                    with open(t) as src:
                        shutil.copyfileobj(src, fh)
        if os.environ.get('VERIF_KEEP'):
            shutil.copy(allp, os.path.join(core.BUILD, 'x02-last-trace-%s-p%d.ndjson' % (tag, parts)))
        res[parts] = allp
    return res


def trace_cfg(parts):
    return 'Trace_Lifecycle.cfg' if parts == 2 else 'Trace_Lifecycle_p1.cfg'


def collect(rep, behaviours, d, tag, drift=True):
    """execute and let TLC judge; returns (validated lines, {behaviour id: (index of the first failing step,
    [(action, check, event)])})"""
    by_id = {b['id']: b for b in behaviours}
    validated = 0
    cand = {}
    traces = execute({parts: [b for b in behaviours if b['cfg']['parts'] == parts] for parts in (2, 1)}, d, tag)
    for parts, trace in traces.items():
        res = core.tlc_trace('Trace_Lifecycle.tla', trace_cfg(parts), trace, timeout=1800)
        validated += res['validated']
        events = core.read_ndjson(trace)
        first = {}
        for i, e in enumerate(events):
            first.setdefault(e['t'], i)
        for kind, tid, line, action, name in res['fails']:
            ev = events[line - 1]
            if kind == 'I':
                if drift:
                    rep.drift({'behaviour': tid, 'line': line, 'action': action, 'what': name,
                               'event': {k: ev[k] for k in ('a', 'args', 'obs')}, 'fam': by_id[tid].get('fam', '')})
                continue
            idx = line - 1 - first[tid]      # number of steps up to and including the failing one
            if tid not in cand or idx < cand[tid][0]:
                cand[tid] = (idx, [(action, name, ev)])
            elif idx == cand[tid][0]:
                cand[tid][1].append((action, name, ev))
    return validated, cand


def judge(rep, behaviours, d, tag, confirm=True):
    """candidates are re-executed alone (with a three times longer cap for quiet periods) and judged again
    before they are reported: timing can never produce a verdict.  Only the first failing step of a behaviour
    is reported (what follows a broken step is a consequence)."""
    validated, cand = collect(rep, behaviours, d, tag)
    by_id = {b['id']: b for b in behaviours}
    if cand and confirm:
        again = []
        for n, tid in enumerate(sorted(cand)):
            b = by_id[tid]
            cfg = dict(b['cfg'])
            if cfg.get('auto'):
                cfg['idlecap'] = 3 * 14 * cfg['auto']
            again.append({'id': n + 1, 'cfg': cfg, 'steps': b['steps'], 'fam': b.get('fam', '')})
        _, cand2 = collect(rep, again, d, tag + '-confirm', drift=False)
        rep.cov['candidates_not_confirmed'] = rep.cov.get('candidates_not_confirmed', 0) + len(again) - len(cand2)
        by_id, cand = {b['id']: b for b in again}, cand2
    for tid in sorted(cand):
        idx, fails = cand[tid]
        for action, name, ev in fails:
            report(rep, by_id[tid], idx, action, name, ev)
    return validated


def report(rep, b, idx, action, name, ev):
    args = ev.get('args', {})
    detail = args.get('path') or args.get('gate') or ('snap' if args.get('snap') else '') or ''
    sig = 'X02|%s|%s|%s|%s' % (name, action, detail, 'auto' if b['cfg'].get('auto') else 'noauto')
    desc = '%s after %s: observed %s; state %s' % (name, json.dumps(b['steps'][:idx], sort_keys=True),
                                                   json.dumps(ev['obs'], sort_keys=True),
                                                   json.dumps({k: ev['st'][k] for k in ('exists', 'paused', 'ppaused', 'ro', 'leading', 'ra', 'log', 'subs')}, sort_keys=True))
    rep.classify(sig, desc, {'behaviours': [{'id': 1, 'cfg': b['cfg'], 'steps': b['steps'][:idx]}]})


def relevant(b):
    return any(s['a'] in ('Pause', 'Readonly', 'Delete', 'Idle', 'Restart', 'PubStart', 'SubStart') or s.get('resume') for s in b['steps'])


def run(rep, tier, seed, replay):
    import time
    t0 = time.time()

    def lap(what):
        core.log('x02: %-28s %6.1f s' % (what, time.time() - t0))
    rng = random.Random(seed)
    quick = tier == 'quick'
    global PROCS
    PROCS = 4 if quick else 6
    if replay:
        behaviours = replay['replay']['behaviours']
        for i, b in enumerate(behaviours):
            b['id'] = i + 1
        with core.scratch('x02') as d:
            judge(rep, behaviours, d, 'replay', confirm=False)
        rep.cov['rule'] = 'replay of a saved stimulus'
        rep.cov['samples'] = behaviours[:1]
        return
    # 1. design: the life cycle as coded satisfies what X02 demands, within bounds
    res = core.tlc_check('MC_Lifecycle.tla', 'MC_Lifecycle.cfg' if quick else 'MC_Lifecycle_thorough.cfg',
                         timeout=3000, coverage=not quick)
    rep.add_design('MC_Lifecycle', res)
    lap('design check')
    if res['violated']:
        raise core.Inconclusive('the design model violates %s (fix the specification)' % res['violated'])
    # 2. defective variants of single model decisions: TLC's counterexample is a directed scenario
    behaviours = []
    names, cex = core.tlc_counterexample('MC_Lifecycle.tla', 'MC_Lifecycle_nilbug.cfg', workers=min(core.NCPU, 6))
    if not cex:
        raise core.Inconclusive('the variant NilFix = FALSE has no counterexample any more')
    b = beh_of_states(cex)
    b['fam'] = 'variant-nilfix'
    behaviours.append(b)
    rep.cov['variant_counterexamples'] = [{'config': 'MC_Lifecycle_nilbug.cfg', 'violates': names, 'steps': b['steps']}]
    lap('variant counterexample')
    # 3. transition cover of the small instance
    g = graph.tlc_dump('MC_Lifecycle.tla', 'MC_Lifecycle_cover.cfg' if quick else 'MC_Lifecycle_cover_thorough.cfg',
                       workers=min(core.NCPU, 6), timeout=1500)
    paths, ncov, nedges = graph.cover(g)
    cover = []
    for root, p in paths:
        steps = []
        for i in p:
            name, args = graph.parse_label(g['edges'][i][2])
            last = tlaval.state_var(g['nodes'][g['edges'][i][1]], 'last')
            steps.append(step_of(last))
        c = tlaval.state_var(g['nodes'][root], 'cfg')
        cover.append({'cfg': cfg_of(c), 'steps': steps, 'fam': 'cover'})
    if len(cover) > (320 if quick else 5000):
        # seeded sample (the whole 2-call cover fits the thorough tier's sample size many times over)
        cover = rng.sample(cover, 320 if quick else 5000)
    rep.cov['transition_cover'] = {'edges': nedges, 'covered_by_paths': ncov, 'paths': len(paths), 'replayed': len(cover)}
    behaviours += cover
    lap('transition cover')
    # 4. situation-guided simulation
    pool = []
    sims = core.tlc_simulate('MC_Lifecycle.tla', 'Sim_Lifecycle.cfg', 1500 if quick else 8000, 10, seed, timeout=1200)
    for st in sims:
        if len(st) < 3:
            continue
        b = beh_of_states(st)
        b['fam'] = 'sim'
        pool.append((b, features(st)))
    chosen, nfeat = select(pool, 1 if quick else 3, 100 if quick else 1200, rng)
    rep.cov['simulation'] = {'pool': len(pool), 'features': nfeat, 'replayed': len(chosen)}
    behaviours += chosen
    lap('simulation + selection')
    # 5. phase-scheduled races, the real timer, directed histories
    races = race_family()
    if quick:
        races = rng.sample(races, 40)
    one, two = auto_family(not quick)
    behaviours += races + one + two + directed_family()
    for i, b in enumerate(behaviours):
        b['id'] = i + 1
    # 6. execute on the real server, TLC judges
    with core.scratch('x02') as d:
        tr = judge(rep, behaviours, d, 'main')
    lap('execution + verdict')
    nsteps = sum(len(b['steps']) for b in behaviours)
    rep.cov['traces_validated_against_impl'] = len(behaviours)
    rep.cov['trace_lines_validated'] = tr
    rep.cov['evaluations'] = nsteps
    rep.cov['distinct_nontrivial'] = len({core.sha([b['cfg'], b['steps']]) for b in behaviours if relevant(b)})
    rep.cov['families'] = {}
    for b in behaviours:
        f = b.get('fam', '').split('-')[0]
        rep.cov['families'][f] = rep.cov['families'].get(f, 0) + 1
    rep.cov['exhaustive'] = False
    rep.cov['rule'] = ('evaluation = one call on the real one-node server with the state projected after it, judged by TLC; '
                       'behaviours: TLC counterexample of the defective variant, transition cover of the 2-call instance%s, '
                       'simulated behaviours selected so that every situation feature (call shape x flags of the named '
                       'partition x ResumeAll x open subscription x parked phase x configuration, and call pairs) is covered, '
                       'phase-scheduled races through the gates, auto-pause timer families, directed histories; distinct = '
                       'different (configuration, steps); non-trivial = contains a life-cycle call (pause, read-only, delete, '
                       'quiet period, restart, resume, parked call)' % (' (seeded sample)' if quick else ''))
    rep.cov['samples'] = [behaviours[0], races[0], one[0], chosen[0] if chosen else cover[0]]
    rep.assumptions += ['one node, replication factor 1, ack policy LEADER', 'no Raft snapshot other than the requested ones',
                        'TLC evaluates the TLA+ predicates correctly']
