"""X01 (additional check, not a listed property) - consumer-group liveness and coordinator failover.

spec/GroupLiveness.tla (+ MC_GroupLiveness, Trace_GroupLiveness); harness/server/x01/x01_verif_test.go
"""
import json
import os
import random
import re
import shutil

from vf import core, graph

META = {
    'property_id': 'X01',
    'level': 'model_checking',
    'technique': 'TLA+ spec of consumer-group liveness (per-member timers at the coordinator, heartbeats, expiry -> '
                 'LeaveConsumerGroup(expired)) and of coordinator failover (member reports, quorum, window, election, '
                 'timers moving to the new coordinator, controller loss, server restart) checked exhaustively by TLC; '
                 'situation-selected simulated behaviours, every short sequence of effective steps, the counterexamples '
                 'of defective model variants and overlapping reports are replayed on a real two-server cluster (real '
                 'Raft, real timers, real API handlers); every recorded step is judged by TLC (trace validation)',
    'level_text': 'TLC enumerates every sequence of joins, leaves, heartbeats (at either server, current / outdated / '
                  'future epoch, members and non-members), coordinator reports (current and stale (coordinator, epoch) '
                  'pairs, members and non-members, through either server), periods of more than the timeout in which '
                  'each member keeps heartbeating correctly / with a stale epoch / at the wrong server / not at all, '
                  'controller leadership losses and restarts of the second server within the bounds and proves: a '
                  'member that keeps heartbeating at the coordinator is never expired; one that does not is expired; '
                  'only the coordinator runs timers (none left at the old coordinator, none for non-members); a new '
                  'coordinator is a configured broker other than the reported one, chosen only with reports of more '
                  'than half of the members in the window, with a strictly larger epoch; stale reports and wrong '
                  'heartbeats are refused without effect.  The same behaviours run on the real servers and every real '
                  'state is re-judged by TLC.',
    'level_note': 'One group, 3 members, brokers a (controller, only Raft voter), b (real non-voter server), c '
                  '(configured, not running).  Requests are atomic except ReportConsumerGroupCoordinator, which is split '
                  'at a gate hook between its checks and the witness registration.  Timers are real (300 ms); the '
                  'driver proves by the clock that no step other than Wait/Restart can have seen an expiry and that the '
                  'gaps between accepted heartbeats stay below 80 % of the timeout, else the behaviour is re-executed.',
    'design_ref': 'design_notes/X01.md',
}

MEMBERS = ['m1', 'm2', 'm3']
WAIT_COST = 1.0      # relative cost of a Wait step (seconds of wall clock, roughly 1.5 x the timeout)
RESTART_COST = 1.5


def to_stimulus(steps, bid):
    out = {'id': bid, 'cfg': {}, 'steps': []}
    for a in steps:
        a = {k: v for k, v in a.items() if k not in ('c', 'e')}    # pairs and epochs are resolved on the real state
        if a['a'] == 'Wait':
            a['hb'] = {m: a['hb'].get(m, 'none') for m in MEMBERS}
        out['steps'].append(a)
    return out


def cost(steps):
    return sum(WAIT_COST if s['a'] == 'Wait' else RESTART_COST if s['a'] == 'Restart' else 0.02 for s in steps)


def label_step(lab):
    name, args = graph.parse_label(lab)
    if name == 'MCJoin':
        return {'a': 'Join', 'srv': args[0], 'm': args[1], 'c0': args[2]}
    if name == 'MCLeave':
        return {'a': 'Leave', 'srv': args[0], 'm': args[1]}
    if name == 'MCHeartbeat':
        return {'a': 'Heartbeat', 's': args[0], 'm': args[1], 'es': args[2]}
    if name == 'MCReport':
        return {'a': 'Report', 'srv': args[0], 'm': args[1], 'ps': args[2], 'pref': args[3]}
    if name == 'MCReportCheck':
        return {'a': 'ReportCheck', 'm': args[0], 'ps': args[1]}
    if name == 'MCReportApply':
        return {'a': 'ReportApply', 'i': args[0], 'pref': args[1]}
    if name == 'MCWait':
        return {'a': 'Wait', 'hb': args[0], 'park': args[1]}
    if name == 'MCExpireApply':
        return {'a': 'ExpireApply', 's': args[0], 'm': args[1]}
    if name == 'MCLose':
        return {'a': 'Lose'}
    if name == 'MCRestart':
        return {'a': 'Restart', 's': args[0]}
    raise core.Inconclusive('unknown action label %r' % lab)


_state_re = re.compile(r'^State \d+: <(.*?)>\n(.*?)(?=^State \d+:|^\d+ states generated|\Z)', re.S | re.M)


def counterexample(out):
    steps = []
    for m in _state_re.finditer(out):
        last = core.tlaval.state_var(m.group(2), 'last')
        if last and last.get('a') != 'Open':
            steps.append(last)
    return steps


def _set(v):
    return set(v['__set__']) if isinstance(v, dict) and '__set__' in v else set(v or [])


def features(beh):
    """situation features of a simulated behaviour (list of dict(label, last, body)): who meets what in
    which state - computed from TLC's states AND from what the implementation may remember although the
    model state has forgotten it: how each member's timer was armed (by its join, by a coordinator change,
    by a recovery), and who reported in an earlier window that was closed (by what) under this coordinator"""
    feats = set()
    prev = None
    pk = 'Open'
    origin = {}
    stale, closer = set(), '-'
    for st in beh:
        body = st['body']
        cur = {v: core.tlaval.state_var(body, v) for v in ('exists', 'members', 'coord', 'fo', 'pend', 'tmr',
                                                            'pendx', 'gen', 'xgen')}
        a = st['last']
        if prev is not None and a and a.get('a') != 'Open':
            mem, coord = _set(prev['members']), prev['coord']
            wit = _set(prev['fo']['wit']) if prev['fo']['on'] else set()
            k = a['a']
            obs = core.tlaval.state_var(body, 'obs')
            moved = cur['coord'] != coord
            if k == 'Heartbeat':
                f = (k, obs['err'], a['s'] == coord, a['m'] in mem, a['es'], len(mem), origin.get(a['m'], '-'))
            elif k == 'Report':
                f = (k, obs['err'], a['srv'], a['ps'], a['m'] in mem, len(mem), len(wit & mem), len(wit - mem),
                     coord + '>' + cur['coord'] if moved else '-', len(stale & mem), closer if stale & mem else '-')
            elif k == 'ReportCheck':
                f = (k, obs['err'], a['ps'], len(mem), len(prev['pend']))
            elif k == 'ReportApply':
                r = prev['pend'][a['i'] - 1]
                f = (k, obs['err'], r['c'] != coord, r['m'] in mem, len(mem), len(wit & mem), moved,
                     len(stale & mem))
            elif k == 'Wait':
                modes = tuple(sorted((a['hb'][m], origin.get(m, '-')) for m in mem))
                f = (k, coord, modes, prev['fo']['on'], cur['exists'], a['park'])
            elif k == 'ExpireApply':
                m = a['m']
                f = (k, obs['err'], m in mem, prev['gen'][m] != prev['xgen'][m], coord, a['s'] == coord, len(mem))
            elif k == 'Join':
                f = (k, obs['err'], a['srv'], prev['exists'], a['c0'], coord, len(mem), prev['fo']['on'])
            elif k == 'Leave':
                f = (k, obs['err'], a['srv'], a['m'] in wit, len(mem), coord, prev['fo']['on'])
            elif k == 'Restart':
                f = (k, coord, len(mem), prev['fo']['on'])
            else:
                f = (k, coord, prev['fo']['on'], len(mem))
            feats.add(f)
            feats.add(('2gram', pk, k, coord, bool(moved)))
            pk = k
            # what the implementation may remember
            nmem = _set(cur['members'])
            if not cur['exists']:
                origin, stale, closer = {}, set(), '-'
            else:
                if moved and prev['exists']:
                    origin = {m: 'moved' for m in nmem}
                    stale, closer = set(), '-'
                elif k == 'Restart' and coord == 'b':
                    origin = {m: 'recovered' for m in nmem}
                for m in nmem - mem:
                    origin[m] = 'join'
                for m in mem - nmem:
                    origin.pop(m, None)
                if prev['fo']['on'] and not cur['fo']['on'] and not moved:
                    stale |= wit
                    closer = k
        prev = cur
    return feats


def select(pool, budget, rng, per_feature=2):
    """greedy choice of behaviours from the simulated pool: every situation feature a few times, within a
    budget of waiting time"""
    pool = [beh for beh in pool if len(beh) > 1]
    try:
        import concurrent.futures
        with concurrent.futures.ProcessPoolExecutor(4) as ex:
            fsets = list(ex.map(features, pool, chunksize=50))
    except Exception:
        fsets = [features(beh) for beh in pool]
    items = [([s['last'] for s in beh[1:]], fs) for beh, fs in zip(pool, fsets)]
    rng.shuffle(items)
    allf = set()
    for steps, fs in items:
        allf |= fs
    # candidates: only behaviours that show a feature not seen often enough in the behaviours before them
    seen = {}
    cand = []
    for steps, fs in items:
        if any(seen.get(f, 0) < per_feature + 2 for f in fs):
            cand.append((steps, fs))
            for f in fs:
                seen[f] = seen.get(f, 0) + 1
    items = cand
    count = {}
    chosen = []
    spent = 0.0
    while True:
        best, bi = 0, None
        for i, (steps, fs) in enumerate(items):
            if steps is None:
                continue
            gain = sum(1 for f in fs if count.get(f, 0) < per_feature)
            score = gain / (0.3 + cost(steps))
            if gain and score > best:
                best, bi = score, i
        if bi is None:
            break
        steps, fs = items[bi]
        items[bi] = (None, fs)
        if spent + cost(steps) > budget:
            continue
        chosen.append(steps)
        spent += cost(steps)
        for f in fs:
            count[f] = count.get(f, 0) + 1
    covered = sum(1 for f in allf if count.get(f, 0) > 0)
    return chosen, covered, len(allf)


def _go_run(behs, d, n, workers, timeout):
    """one process of the harness; returns (rc, out, wall, complete trace lines, intents of the workers)"""
    stim = os.path.join(d, 'stim-%d.json' % n)
    trace = os.path.join(d, 'trace-%d.ndjson' % n)
    core.write_json(stim, {'behaviours': behs})
    if os.environ.get('VERIF_KEEP'):
        core.log('stimuli at', stim)
    env = {'VERIF_STIMULI': stim, 'VERIF_TRACE_OUT': trace, 'VERIF_WORKERS': str(workers)}
    # the servers' data directories (Raft log: one fsync per entry) go to a memory file system when there is
    # one: steps then take well under a millisecond and the clock proofs hardly ever fail
    shm = None
    if os.path.isdir('/dev/shm') and os.access('/dev/shm', os.W_OK) and not os.environ.get('VERIF_X01_DISK'):
        shm = '/dev/shm/verif-x01-%d' % os.getpid()
        os.makedirs(shm, exist_ok=True)
        env['TMPDIR'] = shm
    try:
        rc, out, wall = core.go_test('server', '^TestVerifGroupLiveness$', env, timeout=timeout, subs=['x01'],
                                     extra_args=['-v'])
    finally:
        if shm:
            shutil.rmtree(shm, ignore_errors=True)
    lines = []
    if os.path.exists(trace):
        with open(trace) as fh:
            for raw in fh:
                if raw.endswith('\n') and raw.strip():
                    try:
                        lines.append(json.loads(raw))
                    except ValueError:
                        break
    intents = []
    for w in range(workers):
        p = '%s.intent.%d' % (trace, w)
        if os.path.exists(p):
            try:
                with open(p) as fh:
                    intents.append(json.load(fh))
            except ValueError:
                pass
    return rc, out, wall, lines, intents


_panic_re = re.compile(r'^(panic: .*|fatal error: .*)$', re.M)


def server_panic(out):
    """the text of a panic raised in the server's own code (not in the harness), or None"""
    m = _panic_re.search(out)
    if not m:
        return None
    tail = out[m.start():]
    frames = re.findall(r'^\s+(\S+\.go):(\d+)', tail, re.M)
    first = next((f for f in frames if '/server/' in f[0] and not f[0].endswith('_test.go') and 'zz_' not in f[0]), None)
    top = re.search(r'^(github\.com/liftbridge-io/liftbridge/server\.\S+)', tail, re.M)
    if not first:
        return None
    if top and ('vX01' in top.group(1) or 'TestVerif' in top.group(1)):
        return None
    return '%s at %s:%s' % (m.group(1), os.path.basename(first[0]), first[1])


def crash_lines(intent, what):
    """the events recorded before the death plus the step in flight with the death as its observation"""
    evs = list(intent.get('events') or [])
    step = dict(intent['step'])
    a = step.pop('a')
    if a == 'Wait':
        step['hb'] = {m: step.get('hb', {}).get(m, 'none') for m in MEMBERS}
        step['park'] = bool(step.get('park'))
    last = evs[-1]['st']
    evs.append({'t': intent['t'], 'a': a, 'args': step, 'st': last,
                'obs': {'a': a, 'err': '', 'fired': [], 'acc': [], 'rej': [], 'asg': [], 'rc': '', 're': 0,
                        'crash': what}})
    return evs


def execute(behaviours, d, timeout=1500, workers=4):
    """runs the behaviours on real clusters.  A panic in the server's code kills the process: the behaviours
    that were in flight are then run again one by one in processes of their own, and the one that dies again
    gets the death recorded as the observation of its step in flight (TLC judges it)."""
    queue = [(list(behaviours), workers)]
    out_lines, n, crashes = [], 0, 0
    execute.dropped = execute.retries = 0
    execute.wall = 0
    execute.crashes = []
    total = len(behaviours)
    while queue:
        behs, w = queue.pop(0)
        if not behs:
            continue
        n += 1
        rc, out, wall, lines, intents = _go_run(behs, d, n, min(w, len(behs)), timeout)
        execute.wall += wall
        done = {ln['t'] for ln in lines}
        out_lines += lines
        if rc == 0:
            m = re.search(r'VERIF-X01 behaviours=(\d+) dropped_for_timing=(\d+)', out)
            if not m:
                raise core.Inconclusive('harness did not report: %s' % out[-2000:])
            execute.dropped += int(m.group(2))
            execute.retries += sum(int(x) for x in re.findall(r'VERIF-X01-STAT retry n=(\d+)', out))
            continue
        what = server_panic(out)
        if not what:
            raise core.Inconclusive('harness failed rc=%s: %s' % (rc, out[-3000:]))
        rest = [b for b in behs if b['id'] not in done]
        flying = [it for it in intents if it.get('t') not in done and it.get('events')]
        ids = {it['t'] for it in flying}
        if len(behs) == 1 or w == 1:
            if len(flying) != 1:
                raise core.Inconclusive('server died outside a recorded step (%s): %s' % (what, out[-2000:]))
            crashes += 1
            if crashes > 8:
                raise core.Inconclusive('the server died in more than 8 behaviours (%s)' % what)
            out_lines += crash_lines(flying[0], what)
            execute.crashes.append({'behaviour': flying[0]['t'], 'what': what})
            queue.insert(0, ([b for b in rest if b['id'] != flying[0]['t']], w))
        else:
            core.log('server died (%s); isolating behaviours %s' % (what, sorted(ids)))
            for b in rest:
                if b['id'] in ids:
                    queue.append(([b], 1))
            queue.insert(0, ([b for b in rest if b['id'] not in ids], w))
    if execute.dropped * 20 > total:
        raise core.Inconclusive('%d of %d behaviours could not be executed without timing interference'
                                % (execute.dropped, total))
    trace = os.path.join(d, 'trace.ndjson')
    with open(trace, 'w') as fh:
        for ln in out_lines:
            fh.write(json.dumps(ln) + '\n')
    return trace


execute.dropped = 0
execute.retries = 0
execute.wall = 0
execute.crashes = []


def step_class(lines, line):
    """argument class of the failing step relative to the state before it (for finding signatures)"""
    ev, prev = lines.get(line), lines.get(line - 1)
    if not ev or not prev:
        return '-'
    st, a = prev['st'], ev['args']
    if ev['a'] == 'ReportApply':
        r = st['pend'][a['i'] - 1]
        if r['c'] != st['coord'] or r['e'] != st['epoch']:
            return 'stale-at-apply'
        return 'current-at-apply'
    if ev['a'] == 'Report':
        if a['c'] != st['coord'] or a['e'] != st['epoch']:
            return 'stale-pair'
        return 'member' if a['m'] in st['members'] else 'non-member'
    if ev['a'] == 'Heartbeat':
        return 'at-coordinator' if a['s'] == st['coord'] else 'at-other-server'
    if ev['a'] == 'Wait':
        return 'coord=' + st['coord']
    if ev['a'] == 'ExpireApply':
        # did the consumer leave and join again after the timer fired?
        k = line - 1
        joined = False
        while k >= 1 and lines[k]['t'] == ev['t']:
            e2 = lines[k]
            if e2['a'] == 'Wait' and e2['args'].get('park') and [a['s'], a['m']] in e2['obs']['fired']:
                break
            if e2['a'] == 'Join' and e2['args']['m'] == a['m'] and e2['obs']['err'] == '':
                joined = True
            k -= 1
        if a['m'] not in st['members']:
            return 'gone'
        return 'rejoined' if joined else 'same-membership'
    return '-'


def judge(rep, behaviours, trace):
    res = core.tlc_trace('Trace_GroupLiveness.tla', 'Trace_GroupLiveness.cfg', trace)
    by_id = {b['id']: b for b in behaviours}
    lines = {}
    for i, ev in enumerate(core.read_ndjson(trace)):
        lines[i + 1] = ev
    bad = {}
    drifting = []
    for kind, tid, line, action, name in res['fails']:
        if kind == 'I':
            rep.drift({'behaviour': tid, 'line': line, 'action': action, 'what': name,
                       'obs': lines.get(line, {}).get('obs'), 'args': lines.get(line, {}).get('args')})
            if by_id[tid] not in drifting:
                drifting.append(by_id[tid])
            continue
        bad.setdefault(tid, []).append((line, action, name))
    if drifting:
        core.write_json(os.path.join(core.BUILD, 'drift-X01.json'), {'replay': {'behaviours': drifting[:20]}})
    for tid, fl in sorted(bad.items()):
        fl.sort()
        line, action, name = fl[0]
        ev = lines.get(line, {})
        sig = 'X01|%s|%s|%s' % (name, action, step_class(lines, line))
        rep.classify(sig, 'first failing step: line %d action %s check %s args %s obs %s' % (
            line, action, name, ev.get('args'), ev.get('obs')), {'behaviours': [by_id[tid]]})
    return res


def variant(rep, cfg, what, workers=1):
    r = core.tlc_check('MC_GroupLiveness.tla', cfg, timeout=600, workers=workers)
    rep.cov['design_checks'].append({'config': cfg + ' (%s, expected to fail)' % what, 'violated': r['violated'],
                                     'distinct_states': r['distinct'], 'states_generated': r['generated'],
                                     'depth': r['depth'], 'complete': r['complete'], 'wall_s': round(r['wall'], 1)})
    cx = counterexample(r['out'])
    if not cx:
        raise core.Inconclusive('no counterexample from %s: %s' % (cfg, r['out'][-1500:]))
    return cx


ALL_GOOD = {'a': 'Wait', 'hb': {m: 'good' for m in MEMBERS}, 'park': False}


def families():
    """exhaustive directed families for situations that need 5-8 steps (a random walk hardly ever gets there):
    (1) timers armed by a coordinator change / by a recovery / by the joins, then a period in which every
        combination of members keeps heartbeating or falls silent;
    (2) a registered report, then something that closes the window (controller loss, time, restart), then the
        reports of the other members"""
    out = []

    def join(ms, c0):
        return [{'a': 'Join', 'srv': 'a', 'm': m, 'c0': c0 if i == 0 else 'none'} for i, m in enumerate(ms)]

    def elect(ms, pref):
        need = len(ms) // 2 + 1
        return [{'a': 'Report', 'srv': 'a', 'm': m, 'ps': 'cur', 'pref': pref if i == need - 1 else 'none'}
                for i, m in enumerate(ms[:need])]

    def waits(ms):
        n = len(ms)
        for bits in range(2 ** n):
            hb = {m: 'none' for m in MEMBERS}
            for i, m in enumerate(ms):
                if bits >> i & 1:
                    hb[m] = 'good'
            yield {'a': 'Wait', 'hb': hb, 'park': False}

    for k in (2, 3):
        ms = MEMBERS[:k]
        for w in waits(ms):
            out.append(join(ms, 'a') + elect(ms, 'b') + [w])                     # moved a -> b
            out.append(join(ms, 'b') + elect(ms, 'a') + [w])                     # moved b -> a
            out.append(join(ms, 'b') + [{'a': 'Restart', 's': 'b'}] + [w])        # recovered at b
        for closer in ([{'a': 'Lose'}], [ALL_GOOD], [{'a': 'Restart', 's': 'b'}]):
            rest = [{'a': 'Report', 'srv': 'a', 'm': m, 'ps': 'cur', 'pref': 'none'} for m in ms[1:]]
            first = [{'a': 'Report', 'srv': 'a', 'm': ms[0], 'ps': 'cur', 'pref': 'none'}]
            # the window is closed: the later reports alone must (k = 2) / may (k = 3, two of three) not / elect
            out.append(join(ms, 'a') + first + closer + rest[:1] + [ALL_GOOD])
            if k == 3:
                last = dict(rest[1], pref='b')
                out.append(join(ms, 'a') + first + closer + rest[:1] + [last] + [ALL_GOOD])
    return out


def run(rep, tier, seed, replay):
    rng = random.Random(seed)
    if replay:
        behaviours = replay['replay']['behaviours']
        with core.scratch('x01') as d:
            trace = execute(behaviours, d)
            judge(rep, behaviours, trace)
        rep.cov['rule'] = 'replay of a saved stimulus'
        rep.cov['samples'] = behaviours[:1]
        return
    quick = tier == 'quick'
    ncpu = min(core.NCPU, 12)
    # 1. design checks of the specification of today's code
    res = core.tlc_check('MC_GroupLiveness.tla', 'MC_GroupLiveness.cfg' if quick else 'MC_GroupLiveness_thorough.cfg',
                         timeout=3000, workers=ncpu)
    rep.add_design('MC_GroupLiveness', res)
    r2 = core.tlc_check('MC_GroupLiveness.tla', 'MC_GroupLiveness_race.cfg' if quick else
                        'MC_GroupLiveness_race_thorough.cfg', timeout=3000, workers=ncpu)
    rep.add_design('MC_GroupLiveness_race', r2)
    if not quick:
        # action coverage is measured on the small configurations (coverage slows the large ones down several
        # times); an action counts as never taken only if no configuration takes it
        c1 = core.tlc_check('MC_GroupLiveness.tla', 'MC_GroupLiveness.cfg', timeout=1500, coverage=True, workers=ncpu)
        c2 = core.tlc_check('MC_GroupLiveness.tla', 'MC_GroupLiveness_race.cfg', timeout=1500, coverage=True,
                            workers=ncpu)
        rep.cov['coverage_zero_actions'] = sorted(set(c1.get('zero_cov', [])) & set(c2.get('zero_cov', [])))
    # 2. defective variants of single model decisions: TLC's counterexamples are directed stimuli; each is
    #    followed by a period in which every member keeps heartbeating (a timer left behind then shows)
    directed = []
    for cfg, what in (('MC_GroupLiveness_keeptimers.cfg', 'timers kept at the old coordinator'),
                      ('MC_GroupLiveness_countall.cfg', 'witnesses that left the group counted'),
                      ('MC_GroupLiveness_race_norecheck.cfg', 'overtaken report not re-checked'),
                      ('MC_GroupLiveness_retryblind.cfg', 'failed expiry proposal re-arms the timer of a consumer that left'),
                      ('MC_GroupLiveness_expire_taint.cfg', 'known finding: an expiry in flight ends a later membership')):
        cx = variant(rep, cfg, what)
        directed.append(cx)
        directed.append(cx + [ALL_GOOD])
    fam = families()
    if quick:
        # the quick tier takes the two-member families completely and a seeded half of the rest
        two = [f for f in fam if not any(s.get('m') == 'm3' for s in f)]
        rest = [f for f in fam if f not in two]
        rng.shuffle(rest)
        fam = two + rest[:len(rest) // 2]
    rep.cov['behaviours_directed_families'] = len(fam)
    directed += fam
    # 3. EVERY sequence of effective steps up to a small depth (what the real system remembers and the model
    #    state has forgotten); the quick tier replays a seeded sample of them
    gp = graph.tlc_dump('MC_GroupLiveness.tla', 'MC_GroupLiveness_paths.cfg' if quick else
                        'MC_GroupLiveness_paths_thorough.cfg', timeout=1500)
    ppaths, pcov, pedges = graph.cover(gp)
    pathb = [[label_step(gp['edges'][i][2]) for i in p] for root, p in ppaths]
    rep.cov['step_sequences_total'] = len(pathb)
    rng.shuffle(pathb)
    keep, spent = [], 0.0
    for p in pathb:
        if spent + cost(p) <= (60 if quick else 2400):
            keep.append(p)
            spent += cost(p)
    pathb = keep
    # every such sequence ends with a period of correct heartbeats of everybody
    pathb = [p if p[-1]['a'] == 'Wait' else p + [ALL_GOOD] for p in pathb]
    rep.cov['step_sequences_replayed'] = len(pathb)
    # 4. a large simulated pool, reduced to the behaviours that cover the situation features
    pool = core.tlc_simulate('MC_GroupLiveness.tla', 'Sim_GroupLiveness.cfg', 4000 if quick else 20000,
                             12 if quick else 14, seed, timeout=900)
    simb, fcov, ftot = select(pool, 110 if quick else 1200, rng, per_feature=1 if quick else 3)
    rep.cov['situation_features_in_pool'] = ftot
    rep.cov['situation_features_replayed'] = fcov
    behaviours = []
    for steps in directed + pathb + simb:
        behaviours.append(to_stimulus(steps, len(behaviours) + 1))
    # 5. execute on the real cluster, 6. TLC judges
    with core.scratch('x01') as d:
        trace = execute(behaviours, d, workers=4 if quick else 8, timeout=1500 if quick else 2400)
        dropped = execute.dropped
        tr = judge(rep, behaviours, trace)
    rep.cov['traces_validated_against_impl'] = len(behaviours) - dropped
    rep.cov['behaviours_dropped_for_timing'] = dropped
    rep.cov['behaviours_reexecuted_for_timing'] = execute.retries
    rep.cov['trace_lines_validated'] = tr['validated']
    rep.cov['evaluations'] = len(behaviours)
    rep.cov['behaviours_directed'] = len(directed)
    rep.cov['behaviours_step_sequences'] = len(pathb)
    rep.cov['behaviours_simulated_selected'] = len(simb)
    rep.cov['harness_wall_s'] = round(execute.wall, 1)
    rep.cov['server_deaths_observed'] = execute.crashes

    def nontrivial(b):
        ks = [s['a'] for s in b['steps']]
        return ('Wait' in ks or 'Restart' in ks) and ('Report' in ks or 'ReportApply' in ks or 'Heartbeat' in ks
                                                      or 'Leave' in ks)
    rep.cov['distinct_nontrivial'] = len({core.sha(b['steps']) for b in behaviours if nontrivial(b)})
    rep.cov['exhaustive'] = False
    rep.cov['rule'] = ('behaviours = (a) counterexamples of defective model variants (timers kept at the old '
                       'coordinator, departed witnesses counted, overtaken report not re-checked, blind re-arming after a failed '
                       'expiry proposal, an expiry in flight meeting a later membership), each also followed '
                       'by a period of correct heartbeats; (b) sequences of <= %d effective steps (MC_GroupLiveness_paths, '
                       'history in the view; %d of %d replayed), each ending with a period of correct heartbeats; (c) '
                       'from a pool of %d simulated behaviours those that cover the situation features (who reports / '
                       'heartbeats / waits in which state: %d of %d features); non-trivial = a period of waiting or a '
                       'restart together with a report, heartbeat or leave; distinct by hash of the step list'
                       % (3 if quick else 4, len(pathb), rep.cov['step_sequences_total'], len(pool), fcov, ftot))
    rep.cov['samples'] = [behaviours[0], behaviours[len(directed)], behaviours[-1]]
    rep.assumptions += ['requests reach the servers one at a time, except reports split at the gate hook',
                        'server a is the only Raft voter (b joins as a non-voter, c never runs): controller changes '
                        'are played by the real leadershipLost / leadershipAcquired handlers on a',
                        'server b is brought up to a\'s applied index after every step',
                        'the unobservable parts (window timer armed, who reported in the current window) are derived '
                        'by the specification from the recorded calls',
                        'TLC evaluates the TLA+ predicates correctly']
