"""X05 (additional check, not a listed property) - the commit log as a concurrent object: append (with the retry after
a racing truncation), truncate, clean (retention / compaction), leader-epoch bookkeeping and readers overlapping.

spec/LogConc.tla (+ MC_LogConc, Sim_LogConc, Trace_LogConc); harness/commitlog/x05/x05_verif_test.go
"""
import os
import random
import time

from vf import core

META = {
    'property_id': 'X05',
    'level': 'model_checking',
    'technique': 'pc-level TLA+ spec (LogConc.tla) of commitlog.go at the granularity of its locks: Append incl. the retry '
                 'after a racing truncation, split, Truncate, Clean (snapshot -> retention -> compaction -> swap + rebase), '
                 'leader-epoch cache Assign/ClearLatest/ClearEarliest/Rebase/Replace, HW, readers; TLC checks every '
                 'interleaving within bounds; TLC-generated and phase-scheduled interleavings are replayed 1:1 on the real '
                 'goroutines parked at verifGate / verifCrashPoint points; every recorded step is judged by TLC '
                 '(Trace_LogConc) with the C01/C05/C08/C09/C16 predicates on the result',
    'level_text': 'One appender, one truncator, one cleaner, HW moves, new leader epochs, crash images of the directory and '
                  'two readers.  Judged on real behaviour: the log stays ordered and (without compaction) dense, the next '
                  'offset follows the last record, an append is stored at the offsets it returns with its content (OCC: only '
                  'at the expected offset), a truncation removes exactly a suffix, a clean removes only what C08/C09 allow, '
                  'the leader-epoch history matches the records present, the files of a clean in progress never leave a '
                  'hole in the retained range, readers deliver stored content in order and fail only with the documented class.',
    'level_note': 'Object-level check: the commit-log API is public, but the server never overlaps Append with Truncate (a '
                  'leader stops its message loop first); such behaviours are marked server_unreachable in the evidence. '
                  'Clean overlaps everything in the server (cleaner loop).  Compaction is one step; readers are judged at '
                  'property level only.  Bounds: design check 3-4 appends, 1 truncation, 1 clean; replay <= 5 appends.',
    'design_ref': 'design_notes/X05.md',
}

PKG = 'server/commitlog'


def S(p, n=1):
    return [{'a': 'Step', 'p': p}] * n


def rec(ep, key, i, exp=-1, off=-1):
    return {'ep': ep, 'key': key, 'id': i, 'exp': exp, 'off': off}


class Ids:
    def __init__(self):
        self.n = 0

    def batch(self, ep, keys, exp=-1):
        out = []
        for k in keys:
            self.n += 1
            out.append(rec(ep, k, self.n, exp))
        return out


def SETB(ids, ep, keys, first):
    """a replicated message set whose offsets start at `first`"""
    b = ids.batch(ep, keys)
    for i, r in enumerate(b):
        r['off'] = first + i
    return b


def APPSET(batch):
    return [{'a': 'AppSetBegin', 'batch': batch}] + S('app', 2)


def APP(batch):
    return [{'a': 'AppBegin', 'batch': batch}] + S('app', 4)


def directed():
    """phase-scheduled families (same intents as the TLC-generated behaviours, judged by the same trace spec)"""
    out = []
    # F1: an append that has picked its segment / recorded its epoch when a truncation replaces or removes the segment
    for k in (2, 3, 4, 5):
        for o in range(0, k):
            for park in (2, 3):              # truncation runs when the append is at after_layout / before_segment_write
                for occ in (False, True):
                    for newep in (False, True):
                        ids = Ids()
                        st = []
                        for i in range(k):
                            st += APP(ids.batch(1, ['a'], exp=(i if occ else -1)))
                        b = ids.batch(2 if newep else 1, ['b'], exp=(k if occ else -1))
                        st += [{'a': 'AppBegin', 'batch': b}] + S('app', park)
                        st += [{'a': 'TrnBegin', 'o': o}] + S('trn', 2) + S('app', 5)
                        st += APP(ids.batch(2, ['a'], exp=-1))
                        st += [{'a': 'RdNew', 'r': 'r1', 'c': False, 'rev': False, 's': 0}] + [{'a': 'RdNext', 'r': 'r1'}] * (k + 3)
                        out.append(({'cap': 2, 'occ': occ, 'compact': False, 'msgs': 0}, st, 'append-vs-truncate'))
    # F1b: the append moves between the steps of the truncation
    for k in (3, 4):
        for o in (1, 2):
            for cut in range(0, 5):
                ids = Ids()
                st = []
                for i in range(k):
                    st += APP(ids.batch(1, ['a']))
                st += [{'a': 'AppBegin', 'batch': ids.batch(2, ['b'])}, {'a': 'TrnBegin', 'o': o}]
                seq = S('app', cut) + S('trn', 1) + S('app', 4 - cut if cut < 4 else 0) + S('trn', 1) + S('app', 5)
                st += seq + APP(ids.batch(2, ['a']))
                out.append(({'cap': 2, 'occ': False, 'compact': False, 'msgs': 0}, st, 'append-vs-truncate'))
    # F5: the follower's replicated append (AppendMessageSet: no retry) against a truncation, then a clean restart
    for k in (2, 3, 4):
        for o in range(0, k):
            for park in (0, 1):
                for newep in (False, True):
                    ids = Ids()
                    st = []
                    for i in range(k):
                        st += APPSET(SETB(ids, 1, ['a'], i))
                    st += [{'a': 'AppSetBegin', 'batch': SETB(ids, 2 if newep else 1, ['b', 'a'], k)}] + S('app', park)
                    st += [{'a': 'TrnBegin', 'o': o}] + S('trn', 2) + S('app', 3)
                    st += [{'a': 'Reopen'}] + APPSET(SETB(ids, 2, ['a'], o)) + [{'a': 'Reopen'}]
                    st += [{'a': 'RdNew', 'r': 'r1', 'c': False, 'rev': False, 's': 0}] + [{'a': 'RdNext', 'r': 'r1'}] * (k + 2)
                    out.append(({'cap': 2, 'occ': False, 'compact': False, 'msgs': 0}, st, 'appendset-vs-truncate'))
    # F6: a reader whose segment a compaction replaces reads again while the clean is between rewriting and swap,
    #     and after the swap
    for k in (3, 4, 5):
        for first in (0, 1, 2):
            for rev in (False, True):
                ids = Ids()
                st = []
                for i in range(k):
                    st += APP(ids.batch(1, ['a' if i % 2 == 0 else 'b']))
                st += APP(ids.batch(1, ['a'])) + [{'a': 'SetHW', 'h': k - 1}]
                st += [{'a': 'RdNew', 'r': 'r1', 'c': False, 'rev': rev, 's': k if rev else 0}] + [{'a': 'RdNext', 'r': 'r1'}] * first
                st += [{'a': 'ClnBegin'}] + S('cln', 1) + [{'a': 'RdNext', 'r': 'r1'}] * 2 + S('cln', 2) + [{'a': 'RdNext', 'r': 'r1'}] * (k + 2)
                out.append(({'cap': 2, 'occ': False, 'compact': True, 'msgs': 0}, st, 'reader-vs-compaction'))
    # F2: a compacting clean overlapped by appends that roll a segment / open a new leader epoch
    for k in (2, 3, 4):
        for eps in ((1, 1, 2), (1, 2, 3), (1, 1, 1)):
            for newepoch in (False, True):
                for pos in range(0, 4):          # how far the overlapping append is when the compaction runs
                    ids = Ids()
                    st = []
                    for i in range(k):
                        st += APP(ids.batch(eps[0] if i < k - 1 else eps[1], ['a' if i % 2 == 0 else 'b']))
                    st += [{'a': 'SetHW', 'h': k - 1}]
                    if newepoch:
                        st += [{'a': 'NewEpoch', 'e': eps[2]}]
                    st += [{'a': 'AppBegin', 'batch': ids.batch(eps[2], ['a'])}] + S('app', 1)
                    st += [{'a': 'ClnBegin'}] + S('app', pos) + S('cln', 1) + S('app', 4 - pos) + APP(ids.batch(eps[2], ['b']))
                    st += S('cln', 2) + APP(ids.batch(eps[2], ['a']))
                    out.append(({'cap': 2, 'occ': False, 'compact': True, 'msgs': 0}, st, 'append-vs-compaction'))
    # F3: retention in progress: crash images between the removals of the doomed segments, appends meanwhile
    for k in (5, 6, 7, 8):
        for msgs in (2, 3):
            for app_at in (0, 1, 2):
                ids = Ids()
                st = []
                for i in range(k):
                    st += APP(ids.batch(1, ['a']))
                st += [{'a': 'ClnBegin'}]
                for j in range(4):
                    if j == app_at:
                        st += APP(ids.batch(1, ['b']))
                    st += S('cln', 1) + [{'a': 'CrashImage'}]
                st += S('cln', 2) + [{'a': 'RdNew', 'r': 'r1', 'c': False, 'rev': True, 's': k}] + [{'a': 'RdNext', 'r': 'r1'}] * 4
                out.append(({'cap': 2, 'occ': False, 'compact': False, 'msgs': msgs}, st, 'retention-crash-image'))
    # F4: a truncation requested while a clean is between snapshot and swap (waits for the clean)
    for k in (3, 4, 5):
        for compact in (False, True):
            ids = Ids()
            st = []
            for i in range(k):
                st += APP(ids.batch(1, ['a' if i % 2 == 0 else 'b']))
            st += [{'a': 'SetHW', 'h': k - 1}, {'a': 'ClnBegin'}] + S('cln', 1) + [{'a': 'TrnBegin', 'o': 1}] + S('trn', 2) + S('cln', 3)
            st += S('trn', 3) + APP(ids.batch(1, ['a'])) + [{'a': 'RdNew', 'r': 'r1', 'c': False, 'rev': False, 's': 0}] + [{'a': 'RdNext', 'r': 'r1'}] * 4
            out.append(({'cap': 2, 'occ': False, 'compact': compact, 'msgs': 0 if compact else 2}, st, 'truncate-vs-clean'))
    return [{'id': 900000 + i, 'cfg': c, 'steps': s, 'family': f} for i, (c, s, f) in enumerate(out)]


def _retry(fn, *a, **kw):
    try:
        return fn(*a, **kw)
    except core.Inconclusive as e:
        core.log('X05: retrying after: %s' % str(e)[:200])
        time.sleep(3)
        return fn(*a, **kw)


def _check(module, cfg, **kw):
    res = core.tlc_check(module, cfg, **kw)
    if not res['ok'] and not res['violated']:
        time.sleep(3)
        res = core.tlc_check(module, cfg, **kw)
    return res


def step_of(last):
    s = {'a': last['a']}
    for k in ('p', 'o', 'h', 'e', 'r', 'c', 'rev', 's'):
        if k in last:
            s[k] = last[k]
    if 'batch' in last:
        s['batch'] = [dict(x) for x in last['batch']]
    return s


def sim_features(beh):
    """situations a simulated behaviour contains (from TLC's states)"""
    f = set()
    for st in beh[1:]:
        body = st['body']
        app = core.tlaval.state_var(body, 'app')
        trn = core.tlaval.state_var(body, 'trn')
        cln = core.tlaval.state_var(body, 'cln')
        a = st['last']['a']
        p = st['last'].get('p')
        if app['pc'] in ('epoch', 'wr') and trn['pc'] != 'idle':
            f.add('append-mid-truncate:%s:%s' % (app['pc'], trn['pc']))
        if a == 'Step' and p == 'app' and app['pc'] == 'epoch' and app['off'] >= 0:
            segs = core.tlaval.state_var(body, 'segs')
            if any(s['closed'] for s in segs):
                f.add('append-after-truncate')
        if app['pc'] != 'idle' and cln['pc'] != 'idle':
            f.add('append-mid-clean:%s:%s' % (app['pc'], cln['pc']))
        if a == 'CrashImage':
            f.add('crash-image:%s' % cln['pc'])
        if a == 'NewEpoch' and cln['pc'] != 'idle':
            f.add('new-epoch-mid-clean')
        if a == 'RdNext' and (cln['pc'] != 'idle' or app['pc'] != 'idle'):
            f.add('read-mid-operation')
        if core.tlaval.state_var(body, 'taint'):
            f.add('tainted')
    return f


def from_sim(sims, first_id, keep, rng):
    cands = []
    for i, beh in enumerate(sims):
        if len(beh) < 4:
            continue
        cands.append((i, beh, sim_features(beh)))
    count = {}
    chosen = []
    # greedy cover: each feature a few times, then the richest
    for i, beh, f in sorted(cands, key=lambda x: -len(x[2])):
        if any(count.get(x, 0) < 4 for x in f):
            chosen.append((i, beh, f))
            for x in f:
                count[x] = count.get(x, 0) + 1
        if len(chosen) >= keep:
            break
    rest = [c for c in cands if c[0] not in {x[0] for x in chosen}]
    rng.shuffle(rest)
    chosen += rest[:max(0, keep - len(chosen))]
    out = []
    for k, (i, beh, f) in enumerate(chosen):
        cfg = core.tlaval.state_var(beh[0]['body'], 'cfg')
        out.append({'id': first_id + k, 'cfg': {'cap': cfg['cap'], 'occ': cfg['occ'], 'compact': cfg['compact'], 'msgs': cfg['msgs']},
                    'steps': [step_of(st['last']) for st in beh[1:]], 'family': 'simulated', 'features': sorted(f)})
    return out, count


def _head(out):
    for key in ('fatal error', 'panic:', 'DATA RACE', 'FAIL'):
        i = out.find(key)
        if i >= 0:
            return out[max(0, i - 200):i + 2500]
    return out[-3000:]


def execute(behaviours, d, race=False, timeout=900):
    stim = os.path.join(d, 'stim.json')
    trace = os.path.join(d, 'trace.ndjson')
    core.write_json(stim, {'behaviours': [{'id': b['id'], 'cfg': b['cfg'], 'steps': b['steps']} for b in behaviours]})
    rc, out, wall = core.go_test(PKG, '^TestVerifLogConc$', {'VERIF_STIMULI': stim, 'VERIF_TRACE_OUT': trace},
                                 timeout=timeout, subs=['x05'], race=race)
    if rc != 0 or not os.path.exists(trace):
        raise core.Inconclusive('X05 harness failed rc=%s: %s' % (rc, _head(out)))
    return trace


def observed(lines):
    """what a recorded behaviour really did (from the recorded states)"""
    f = set()
    prev = None
    for e in lines:
        st = e['st']
        if e['a'] in ('Timeout',):
            continue
        if prev is not None:
            pst = prev['st']
            if e['a'] == 'Step' and e['args'].get('p') == 'app' and pst['app']['pc'] == 'wr' and st['app']['pc'] == 'epoch':
                f.add('append-retried-after-truncate')
            if st['app']['pc'] != 'idle' and st['trn']['pc'] != 'idle':
                f.add('append-overlaps-truncate')
            if st['app']['pc'] != 'idle' and st['cln']['pc'] != 'idle':
                f.add('append-overlaps-clean')
            if len(st['listed']) > len(pst['listed']) and st['cln']['pc'] != 'idle':
                f.add('roll-during-clean')
            if e['a'] == 'CrashImage' and st['cln']['pc'] == 'del':
                f.add('crash-image-mid-retention')
            if e['a'] == 'Blocked':
                f.add('blocked-on-lock')
        prev = e
    return f


def judge(rep, behaviours, trace):
    lines = {}
    for e in core.read_ndjson(trace):
        lines.setdefault(e['t'], []).append(e)
    timeouts = [t for t, ls in lines.items() if any(e['a'] == 'Timeout' for e in ls)]
    if timeouts:
        raise core.Inconclusive('gated replay: a goroutine did not reach its next stop before the deadline in behaviour(s) %s: %s'
                                % (timeouts[:5], [e.get('note') for t in timeouts[:2] for e in lines[t] if e['a'] == 'Timeout']))
    res = _retry(core.tlc_trace, 'Trace_LogConc.tla', 'Trace_LogConc.cfg', trace, timeout=1500)
    by_id = {b['id']: b for b in behaviours}
    bad = {}
    for kind, tid, line, action, name in res['fails']:
        if kind == 'I':
            rep.drift({'behaviour': tid, 'line': line, 'action': action, 'what': name})
            continue
        bad.setdefault(tid, []).append((line, action, name))
    feats = {t: observed(ls) for t, ls in lines.items()}
    for tid, fl in bad.items():
        fl.sort()
        line, action, name = fl[0]
        b = by_id[tid]
        sig = 'X05|%s|%s|%s' % (name, action, b.get('family', 'replay'))
        unreachable = 'append-overlaps-truncate' in feats.get(tid, set())
        rep.classify(sig, 'gated replay: first failing step: line %d action %s check %s%s'
                     % (line, action, name, ' (Append overlapping Truncate: an interleaving the server cannot produce)' if unreachable else ''),
                     {'kind': 'gated', 'behaviours': [b], 'server_unreachable': unreachable})
    return res, feats, bad


def stress_rounds(rng, n, msgs):
    out = []
    for i in range(n):
        mix = i % 5
        out.append({'id': i + 1, 'steps': [], 'cfg': {
            'seed': rng.randrange(1 << 30), 'n': msgs, 'occ': False, 'cap': rng.choice([2, 3, 5]),
            'compact': mix in (1, 4), 'msgs': 7 if mix == 2 else 0, 'trunc': mix in (3, 4)}})
    return out


def execute_stress(rounds, d, race):
    stim = os.path.join(d, 'stress.json')
    trace = os.path.join(d, 'strace-%s.ndjson' % ('race' if race else 'plain'))
    core.write_json(stim, {'behaviours': rounds})
    rc, out, wall = core.go_test(PKG, '^TestVerifLogConcStress$', {'VERIF_STIMULI': stim, 'VERIF_TRACE_OUT': trace},
                                 timeout=900, subs=['x05'], race=race)
    if rc != 0 or not os.path.exists(trace):
        what = 'the race detector reports a data race' if 'DATA RACE' in out else 'the stress run died'
        raise core.Inconclusive('X05 stress (race=%s): %s - to be reproduced through the gates before it counts: %s'
                                % (race, what, _head(out)))
    return trace


def judge_stress(trace):
    for e in core.read_ndjson(trace):
        if e['a'] == 'Timeout':
            raise core.Inconclusive('stress round %s: %s' % (e['t'], e.get('note')))
    res = _retry(core.tlc_trace, 'Trace_LogConc.tla', 'Trace_LogConc.cfg', trace, timeout=900)
    bad = [(tid, line, action, name) for kind, tid, line, action, name in res['fails'] if kind == 'P']
    return res, bad


def run(rep, tier, seed, replay):
    rng = random.Random(seed)
    if replay:
        obj = replay['replay']
        with core.scratch('x05') as d:
            trace = execute(obj['behaviours'], d)
            judge(rep, obj['behaviours'], trace)
        rep.cov['rule'] = 'replay of a saved stimulus'
        rep.cov['samples'] = [obj]
        return
    thorough = tier == 'thorough'
    # 1. design checks
    for name, cfg in ([('MC_LogConc', 'MC_LogConc.cfg'), ('MC_LogConc(occ)', 'MC_LogConc_occ.cfg'),
                       ('MC_LogConc(AppendMessageSet, reopen)', 'MC_LogConc_set.cfg')] if not thorough else
                      [('MC_LogConc', 'MC_LogConc_thorough.cfg'), ('MC_LogConc(occ)', 'MC_LogConc_occ.cfg'),
                       ('MC_LogConc(AppendMessageSet, reopen)', 'MC_LogConc_set.cfg'),
                       ('MC_LogConc(readers)', 'MC_LogConc_rd.cfg')]):
        res = _check('MC_LogConc.tla', cfg, timeout=2400)
        rep.add_design(name, res)
        core.log('X05: design check %s: %d distinct states, %.0fs' % (cfg, res['distinct'], res['wall']))
        if res['violated']:
            raise core.Inconclusive('the design check of LogConc.tla fails (%s): not a verdict by itself' % res['violated'])
    # 2. behaviours: simulation pool (feature-guided selection) + phase-scheduled families
    num, depth, keep = (3000, 45, 250) if not thorough else (8000, 60, 1000)
    t0 = time.time()
    sims = _retry(core.tlc_simulate, 'MC_LogConc.tla', 'Sim_LogConc.cfg', num, depth, seed, timeout=1200)
    core.log('X05: simulated %d behaviours in %.0fs' % (len(sims), time.time() - t0))
    chosen, simcount = from_sim(sims, 1, keep, rng)
    behaviours = chosen + directed()
    with core.scratch('x05') as d:
        t0 = time.time()
        trace = execute(behaviours, d, timeout=1500)
        t1 = time.time()
        res, feats, bad = judge(rep, behaviours, trace)
        core.log('X05: execute %.0fs, judge %.0fs (%d behaviours, %s lines)' % (t1 - t0, time.time() - t1, len(behaviours), res['validated']))
        # 3. the same families with the race detector (schedules are forced, the detector watches the accesses)
        if thorough:
            trace2 = execute(directed(), d, race=True, timeout=1500)
            res2, feats2, bad2 = judge(rep, directed(), trace2)
            rep.cov['race_detector_lines'] = res2['validated']
    # 4. stress: real schedules, plain and with the race detector; TLC judges the final state and what the calls
    #    returned.  A finding counts only after reproduction through the gates.
    n_rounds, n_msgs = (10, 150) if not thorough else (30, 300)
    stress_bad, n_stress = [], 0
    with core.scratch('x05s') as d:
        for race in (False, True):
            rounds = stress_rounds(rng, n_rounds if not race else max(5, n_rounds // 2), n_msgs)
            strace = execute_stress(rounds, d, race)
            sres, sbad = judge_stress(strace)
            n_stress += len(rounds)
            known = {f['id'] for f in rep.findings if f.get('status') == 'open'}
            for tid, line, action, name in sbad:
                if name.endswith(':append-overlaps-truncate') and rep.known_hit:
                    continue      # the open finding, established through the gates in this very run
                stress_bad.append({'race': race, 'round': rounds[tid - 1], 'check': name})
    rep.cov['stress_rounds'] = n_stress
    if stress_bad and not bad:
        raise core.Inconclusive('stress run shows %s but it was not reproduced through the gates: %s'
                                % (stress_bad[0]['check'], str(stress_bad[0])[:600]))
    rep.cov['traces_validated_against_impl'] = len(behaviours)
    rep.cov['trace_lines_validated'] = res['validated']
    hist = {}
    for f in feats.values():
        for x in f:
            hist[x] = hist.get(x, 0) + 1
    rep.cov['situations_observed'] = hist
    rep.cov['simulated_pool'] = {'behaviours': len(sims), 'kept': len(chosen), 'features': simcount}
    nontrivial = [b for b in behaviours if feats.get(b['id'], set()) & {
        'append-retried-after-truncate', 'append-overlaps-truncate', 'append-overlaps-clean', 'roll-during-clean',
        'crash-image-mid-retention'}]
    rep.cov['distinct_nontrivial'] = len({core.sha(b['steps']) for b in nontrivial})
    rep.cov['server_unreachable_behaviours'] = sum(1 for f in feats.values() if 'append-overlaps-truncate' in f)
    rep.cov['evaluations'] = len(behaviours)
    rep.cov['rule'] = ('behaviours = feature-guided subset of a TLC simulation pool of MC_LogConc (seeded) + %d phase-scheduled '
                       'interleavings (append vs truncate, append vs compaction, crash images of a retention run, truncate vs '
                       'clean), each replayed 1:1 through the park points; non-trivial = the recorded real behaviour overlapped '
                       'two operations; distinct by hash of the step list' % len(directed()))
    rep.cov['samples'] = [{k: v for k, v in b.items()} for b in (chosen[:1] + directed()[:1])]
    rep.assumptions += ['one appender, one truncator, one cleaner; compaction is one step; records of one size',
                        'Append overlapping Truncate cannot be produced by the server (stopLeading waits for the message loop); '
                        'AppendMessageSet can (stopFollowing does not wait for the replication loop) - not modelled',
                        'TLC 1.8.0 evaluates the TLA+ predicates correctly']
