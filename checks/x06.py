"""X06 - lock order of the metadata store: no deadlock between the operations the FSM goroutine applies and
LostLeadership / Reset (additional check, not a listed property).

spec/LockOrder.tla (+ MC_LockOrder*.cfg, Trace_LockOrder); harness/server/x06 (+ the server kit of harness/server/c06).
"""
import re

from vf import core

META = {
    'property_id': 'X06',
    'level': 'model_checking',
    'technique': 'TLA+ model of the lock order (metadataAPI.mu, consumerGroupsMu, consumerGroup.mu as writer-preferring '
                 'RWMutexes; goroutines as acquire/release programs transcribed from metadata.go / groups.go) checked '
                 'exhaustively by TLC for deadlock states; every pair of programs executed on a real Server in the '
                 'schedule of the deadlock trace of the pre-repair variant (the applying goroutine parked in front of its '
                 'first look at the streams); recorded outcome judged by TLC',
    'level_text': 'every interleaving of one FSM operation (leave, join, create group, announcement of a deleted stream), one '
                  'of LostLeadership / Reset and an API reader is explored; the defective variant (locks nested the other '
                  'way round) must deadlock, the variant of the current code must not; on real code 3 x 2 pairs.',
    'level_note': 'the programs are transcribed by hand; create group is model only (its rebalance cannot be parked '
                  'without a hook); stream / partition mutexes are outside.',
    'design_ref': 'design_notes/C12.md (lock order)',
}

PAIRS = [(f, o) for f in ('leave', 'join', 'announce') for o in ('lost', 'reset')]


def deadlocks(cfg):
    res = core.tlc_check('LockOrder.tla', cfg, timeout=600, workers=2)
    pairs = sorted(set(re.findall(r'<<"DEADLOCK", "(\w+)", "(\w+)">>', res['out'])))
    return res, pairs


def run(rep, tier, seed, replay):
    res = core.tlc_check('LockOrder.tla', 'MC_LockOrder.cfg', timeout=600, workers=2)
    rep.add_design('MC_LockOrder', res)
    if res['violated'] or not res['ok']:
        raise core.Inconclusive('design check: the lock programs of the current code deadlock in the model (%s): %s'
                                % (res['violated'], res['out'][-1500:]))
    old, pairs_old = deadlocks('MC_LockOrder_old.cfg')
    fixed, pairs_fixed = deadlocks('MC_LockOrder_fixed.cfg')
    rep.cov['design_checks'].append({'config': 'MC_LockOrder_old', 'deadlocking_pairs': ['%s+%s' % p for p in pairs_old],
                                     'note': 'expected: the pre-repair lock order deadlocks'})
    rep.cov['design_checks'].append({'config': 'MC_LockOrder_fixed', 'deadlocking_pairs': ['%s+%s' % p for p in pairs_fixed]})
    if not pairs_old or pairs_fixed:
        raise core.Inconclusive('model: pre-repair variant deadlocks in %s, repaired variant in %s' % (pairs_old, pairs_fixed))
    behaviours = replay['replay']['behaviours'] if replay else \
        [{'id': i + 1, 'cfg': {'fsm': f, 'other': o}, 'steps': []} for i, (f, o) in enumerate(PAIRS)]
    import os
    with core.scratch('x06') as d:
        stim, trace = os.path.join(d, 'stim.json'), os.path.join(d, 'trace.ndjson')
        core.write_json(stim, {'behaviours': behaviours})
        rc, out, wall = core.go_test('server', '^TestVerifLockOrder$', {'VERIF_STIMULI': stim, 'VERIF_TRACE_OUT': trace},
                                     timeout=600, subs=['c06', 'x06'])
        if rc != 0 or not os.path.exists(trace):
            raise core.Inconclusive('harness failed rc=%s: %s' % (rc, out[-3000:]))
        tr = core.tlc_trace('Trace_LockOrder.tla', 'Trace_LockOrder.cfg', trace, timeout=300)
    by_id = {b['id']: b for b in behaviours}
    for kind, tid, line, action, name, tag in tr['fails']:
        if kind == 'I':
            rep.drift({'behaviour': tid, 'line': line, 'what': name, 'pair': tag})
            continue
        rep.classify('X06|%s|%s' % (name, tag), 'a call did not return: %s' % tag, {'behaviours': [by_id[tid]]})
    rep.cov['traces_validated_against_impl'] = len(behaviours)
    rep.cov['trace_lines_validated'] = tr['validated']
    rep.cov['evaluations'] = len(behaviours)
    rep.cov['distinct_nontrivial'] = len(behaviours)
    rep.cov['exhaustive'] = True
    rep.cov['rule'] = 'every pair (leave | join | announcement of a deleted stream) x (LostLeadership | Reset), each once'
    rep.cov['samples'] = behaviours[:2]
    rep.assumptions += ['the acquire/release programs of LockOrder.tla are the code paths (transcribed by hand)']
