"""C14 - no NATS payload can crash or confuse the server.

spec/Envelope.tla (+ MC_Envelope, Trace_Envelope); harness/protocol/c14, harness/server/c14
"""
import json
import os
import random
import re

from vf import core, graph, tlaval

META = {
    'property_id': 'C14',
    'confirm_by_replay': True,   # bin/check re-executes the stimulus of every violation before it is reported
    'level': 'model_checking',
    'technique': 'decision-table transcription in TLA+ (Envelope.tla: checkEnvelope / unmarshalEnvelope / '
                 'UnmarshalReplicationResponse / natsToProtoMessage branch by branch over an abstract byte string) '
                 'enumerated by TLC; every abstract input concretised to bytes and executed on the real decoders and '
                 'on natsToProtoMessage; TLC-simulated sequences of raw NATS publishes executed on a running one-node '
                 'server; every recorded outcome judged by TLC (trace validation)',
    'level_text': 'TLC enumerates the complete product len x HeaderLen byte x magic x version x CRC flag x other flag '
                  'bits x type x CRC x protobuf-validity for both decoder kinds and proves on the transcription: no '
                  'crash outcome, Ok only for a well-formed envelope with payload = data[HeaderLen:], checksum mismatch '
                  'rejected, a marshalled message decodes to itself.  The same product is concretised (seeded payload '
                  'fillings) and fed to checkEnvelope, all 15 Unmarshal* functions and natsToProtoMessage; TLC-simulated '
                  'publish sequences (including header entries without value) go over raw NATS to a live server whose '
                  'log and a fresh subscriber are read back after each step.  TLC judges every record.',
    'level_note': 'This is the "transcribe a case-analysis function and turn every model case into an implementation '
                  'test" use of TLC, not a behavioural model: the state machine is only the stream log of the live '
                  'server.  Decides the envelope framing; protobuf decoding itself is trusted (exercised with valid, '
                  'invalid and exact-size payloads).  Bounds: quick len in 0..17+{24,25,28,29}, 37 HeaderLen values, '
                  '1 filling; thorough all 256 HeaderLen values, lens up to 44, 3 fillings.  The NATS subjects of a server '
                  'are an inventory in the specification (Envelope!Subjects), compared with the live subscription list of '
                  'the embedded NATS server and with the subscribe / request call sites of the source (a difference is '
                  'drift).  Fed on a one-node server: propagate, server info, partition status, notification, replication '
                  '/ leader-offset request, Raft join (own id only), Raft transport accept (bytes only), the ack inbox of '
                  'a Publish call and of a PublishAsync session - byte classes x well-formed requests naming entities '
                  'that are absent / present / out of range / at the int32 boundaries.  Not fed: the two bootstrap '
                  'subjects (a message from another server is fatal by design) and the reply inboxes that exist only '
                  'with a second server (replication / offset responses on a follower, info / status / propagation / '
                  'join responses).',
    'design_ref': 'DESIGN.md section 6/C14',
}

TIERS = {
    'quick': dict(mc='MC_Envelope.cfg', trace='Trace_Envelope.cfg', sim='Sim_Envelope.cfg', fills=1, rt=40, maxN=40,
                  sims=100, depth=10),
    'thorough': dict(mc='MC_Envelope_thorough.cfg', trace='Trace_Envelope_thorough.cfg', sim='Sim_Envelope.cfg',
                     fills=3, rt=400, maxN=120, sims=600, depth=12),
}


NUM_SHAPES = 16 + 11 * 11 + 14      # Envelope!NumShapes
HANDLERS = ['propagate', 'serverinfo', 'partstatus', 'notify', 'replreq', 'leaderoffset']
NOENT = {'op': 'none', 's': 'absent', 'p': 'first', 'r': 'self', 'e': 'zero'}
CANON = {'len': 28, 'magicOK': True, 'verOK': True, 'hl': 8, 'crcFlag': False, 'otherFlags': False, 'typeOK': True,
         'crcOK': True}


def shape_sweep(first_id, seed):
    """every request shape of every internal subject in a well-formed envelope (the shape dimension of
    MCInternal replayed completely), a few per behaviour so that a dying server loses little"""
    steps = [{'a': 'Internal', 'h': 'propagate', 'i': CANON, 'pbOK': True, 'shape': k} for k in range(NUM_SHAPES)]
    steps += [{'a': 'Internal', 'h': h, 'i': CANON, 'pbOK': True, 'shape': k} for h in HANDLERS[1:] for k in range(4)]
    out = []
    for k in range(0, len(steps), 24):
        out.append({'id': first_id + len(out), 'cfg': {'seed': seed},
                    'steps': steps[k:k + 24] + [{'a': 'PublishRaw', 'i': CANON, 'pbOK': True, 'id': 1, 'shape': 'hdrReserved'},
                                                {'a': 'ReadBack'}]})
    return out


def source_sites():
    """the NATS subscribe / request call sites of the server package (file:function:call:count), read from the
    source tree under test; TLC compares them with Envelope!SourceSites"""
    root = os.path.join(core.REPO, 'server')
    count = {}
    for f in sorted(os.listdir(root)):
        if not f.endswith('.go') or f.endswith('_test.go') or f.startswith('verif_'):
            continue
        fn = '?'
        for line in open(os.path.join(root, f), errors='replace'):
            m = re.match(r'func (?:\([^)]*\) )?(\w+)', line)
            if m:
                fn = m.group(1)
            if line.lstrip().startswith('//'):
                continue
            calls = re.findall(r'\bnc\w*\.(Subscribe|Request|RequestMsg)\(', line)
            calls += re.findall(r'\.(QueueSubscribe|QueueSubscribeSync|SubscribeSync|ChanSubscribe|ChanQueueSubscribe|RequestWithContext)\(', line)
            for c in calls:
                k = '%s:%s:%s' % (f, fn, c)
                count[k] = count.get(k, 0) + 1
    return sorted('%s:%d' % (k, v) for k, v in count.items())


def subject_sweep(first_id, seed, tier, stats):
    """The subject dimension of the live part replayed COMPLETELY: TLC enumerates MC_Envelope_sweep.cfg (one message
    from the initial state: every fed subject of the inventory x every byte class x every entity relation of
    EntsOf) and every transition becomes a step.  quick: every entity relation in the canonical envelope on a
    stream with one and with two partitions + every byte class with the default entities; thorough: all of them."""
    g = graph.tlc_dump('MC_Envelope.tla', 'MC_Envelope_sweep.cfg')
    steps = {}
    for u, v, l in g['edges']:
        last = tlaval.state_var(g['nodes'][v], 'last')
        if last['a'] != 'Subject':
            continue
        canon = all(last['i'][k] == CANON[k] for k in CANON) and last['pbOK']
        default = last['ent']['op'] == 'none' and all(last['ent'][k] == d for k, d in
                                                       (('s', 'absent'), ('p', 'first'), ('r', 'self'), ('e', 'zero')))
        steps.setdefault(last['h'], []).append((canon, default, dict(last)))
    stats['sweep_transitions'] = sum(len(v) for v in steps.values())
    out = []
    tail = [{'a': 'PublishRaw', 'i': CANON, 'pbOK': True, 'id': 1, 'shape': 'plain'}, {'a': 'ReadBack'}]

    def add(sel, parts, size):
        for h in sorted(steps):
            mine = sorted((st for c, d, st in steps[h] if sel(c, d)), key=lambda st: json.dumps(st, sort_keys=True))
            for k in range(0, len(mine), size):
                out.append({'id': first_id + len(out), 'cfg': {'seed': seed, 'parts': parts}, 'steps': mine[k:k + size] + tail})
    if tier == 'thorough':
        add(lambda c, d: True, 2, 60)
        add(lambda c, d: c, 1, 40)
    else:
        add(lambda c, d: c, 2, 24)
        add(lambda c, d: c, 1, 24)
        add(lambda c, d: d and not c, 1, 60)
    stats['sweep_steps'] = sum(len(b['steps']) - 2 for b in out)
    return out


def arrival_variants(first_id, seed, rng, behaviours):
    """Arrival pattern and stream configuration (they are part of "any byte string arriving on a stream's subject"):
    bursts - several messages back to back, nothing waits for the previous one to be stored - on ordinary streams
    (the publishes of simulated behaviours) and on streams with optimistic concurrency control (envelopes without an
    expected offset), and envelopes whose header count sits at the boundaries of the 16-bit count field of the
    stored record."""
    out = []
    big = dict(CANON, len=40)
    for n in (2, 12):
        out.append({'id': first_id + len(out), 'cfg': {'seed': seed, 'occ': True},
                    'steps': [{'a': 'Burst', 'pubs': [{'i': big, 'pbOK': True, 'id': k + 1, 'shape': 'occ'} for k in range(n)]},
                              {'a': 'ReadBack'}]})
    cands = [b for b in behaviours if sum(1 for s in b['steps'] if s['a'] == 'PublishRaw') >= 3]
    rng.shuffle(cands)
    for b in cands[:3]:
        pubs = [dict(s) for s in b['steps'] if s['a'] == 'PublishRaw']
        for k, p in enumerate(pubs):
            p['id'] = k + 1
            p.pop('a')
        out.append({'id': first_id + len(out), 'cfg': {'seed': seed}, 'steps': [{'a': 'Burst', 'pubs': pubs}, {'a': 'ReadBack'}]})
    counts = [32767, 32768, rng.randrange(32769, 60000)]
    out.append({'id': first_id + len(out), 'cfg': {'seed': seed},
                'steps': [{'a': 'PublishRaw', 'i': big, 'pbOK': True, 'id': k + 1, 'shape': 'hdrMany:%d' % n}
                          for k, n in enumerate(counts)] + [{'a': 'ReadBack'}]})
    return out


def cfg_set(cfgfile, name):
    text = open(os.path.join(core.SPEC, cfgfile)).read()
    m = re.search(r'^\s*%s\s*=\s*\{([^}]*)\}' % name, text, re.M)
    return sorted(int(x) for x in m.group(1).split(',') if x.strip())


def cls_of(i):
    """decision row of an abstract input (for signatures and the non-triviality rule)"""
    if i['len'] < 8:
        return 'short'
    if not i['magicOK']:
        return 'magic'
    if not i['verOK']:
        return 'version'
    if i['hl'] < 8:
        return 'hl<8'
    if i['hl'] > i['len']:
        return 'hl>len'
    if not i['typeOK']:
        return 'type'
    if i['crcFlag'] and i['hl'] != 12:
        return 'crcsize'
    if i['crcFlag'] and not i['crcOK']:
        return 'crc'
    return 'valid'


def judge(rep, trace, cfg, replay_of, stats):
    """TLC judges the recorded lines; returns the tlc result.  replay_of(line_obj, rec_index) -> (cls, replay)"""
    res = core.tlc_trace('Trace_Envelope.tla', cfg, trace, timeout=1500)
    lines = core.read_ndjson(trace)
    for f in res['fails']:
        kind, tid, ln, action, name, j = f
        e = lines[ln - 1]
        cls, rp = replay_of(e, j)
        if kind == 'I':
            rep.drift({'line': ln, 'action': action, 'what': name, 'class': cls, 'case': rp})
            continue
        if kind == 'C':
            raise core.Inconclusive('harness did not execute the whole table: %s line %d' % (name, ln))
        level = e.get('level', action)
        rep.classify('C14|%s|%s|%s' % (name, level, cls), '%s failed on %s input class %s' % (name, level, cls), rp)
    stats['lines'] = stats.get('lines', 0) + (res['validated'] or 0)
    return res


def table_replay(seed, pkg):
    def f(e, j):
        if e['a'] == 'RoundTrip':
            r = e['recs'][j - 1]
            return 'roundtrip:' + r['type'], {'kind': 'table', 'pkg': pkg, 'seed': seed, 'roundtrip': r}
        r = e['recs'][j - 1]
        i = dict(e['key'], hl=r['hl'])
        return cls_of(i), {'kind': 'table', 'pkg': pkg, 'seed': seed,
                           'only': [{'key': e['key'], 'hl': r['hl'], 'pbOK': r['pbOK'], 'fill': r['fill']}]}
    return f


def run_table(rep, d, pkg, test, gocfg, tracecfg, stats, subs=('c14',), chunk=8):
    """runs the table harness (in chunks of `chunk` lengths so that a trace file stays below ~100 MB)"""
    nrec = 0
    nontrivial = set()
    sample = None
    lens = gocfg.get('lens') or [None]
    chunks = [lens[k:k + chunk] for k in range(0, len(lens), chunk)]
    for cn, cl in enumerate(chunks):
        stim = os.path.join(d, 'table.json')
        trace = os.path.join(d, 'table.ndjson')
        if os.path.exists(trace):
            os.remove(trace)
        g = dict(gocfg)
        if cl != [None]:
            g['lens'] = cl
        if cn != len(chunks) - 1:
            g['rt'], g['maxN'] = 0, -1     # round trips once, with the last chunk
        core.write_json(stim, g)
        rc, out, wall = core.go_test(pkg, test, {'VERIF_STIMULI': stim, 'VERIF_TRACE_OUT': trace}, timeout=1500,
                                     subs=list(subs))
        if rc != 0 or not os.path.exists(trace):
            raise core.Inconclusive('table harness %s failed rc=%s: %s' % (pkg, rc, out[-3000:]))
        judge(rep, trace, tracecfg, table_replay(gocfg['seed'], pkg), stats)
        lines = core.read_ndjson(trace)
        batches = 0
        for e in lines:
            if e['a'] == 'Table':
                batches += 1
                for r in e['recs']:
                    nrec += 1
                    i = dict(e['key'], hl=r['hl'])
                    if cls_of(i) not in ('short', 'magic', 'version'):
                        nontrivial.add(core.sha([i, r['pbOK']]))
            elif e['a'] == 'RoundTrip':
                nrec += len(e['recs'])
                stats['roundtrips'] = stats.get('roundtrips', 0) + len(e['recs'])
        if not gocfg.get('only'):
            want = len(g['lens']) * 64
            if batches != want:
                raise core.Inconclusive('table harness %s executed %d of %d row groups' % (pkg, batches, want))
        if sample is None:
            sample = next((e for e in lines if e['a'] == 'Table' and e['key']['magicOK'] and e['key']['verOK']
                           and e['key']['len'] >= 12), None)
            if sample:
                sample = {'level': sample['level'], 'key': sample['key'], 'recs': sample['recs'][8:11]}
    return nrec, nontrivial, sample


def run_server(rep, d, behaviours, tracecfg, stats):
    """executes publish behaviours on a live server; a dead server process is an observation
    (up = FALSE for the pending step), the remaining behaviours run in a fresh process"""
    trace = os.path.join(d, 'server.ndjson')
    intent = os.path.join(d, 'intent.json')
    out_lines = []
    remaining = list(behaviours)
    crashes = 0
    while remaining:
        stim = os.path.join(d, 'server-stim.json')
        part = os.path.join(d, 'server-part.ndjson')
        for p in (part, intent):
            if os.path.exists(p):
                os.remove(p)
        core.write_json(stim, {'behaviours': remaining})
        rc, out, wall = core.go_test('server', '^TestVerifC14Server$',
                                     {'VERIF_STIMULI': stim, 'VERIF_TRACE_OUT': part, 'VERIF_INTENT': intent},
                                     timeout=1200, subs=['c14'])
        got = core.read_ndjson(part) if os.path.exists(part) else []
        out_lines += got
        if rc == 0:
            break
        if 'INCONCLUSIVE' in out or 'test timed out' in out or 'build failed' in out or not os.path.exists(intent):
            raise core.Inconclusive('server harness failed rc=%s: %s' % (rc, out[-3000:]))
        if not re.search(r'^(panic:|fatal error:)', out, re.M):
            raise core.Inconclusive('server harness failed without a panic rc=%s: %s' % (rc, out[-3000:]))
        # the process died while a step was pending: record what the runner observed
        crashes += 1
        it = json.load(open(intent))
        mine = [e for e in got if e.get('t') == it['t']]
        if len(mine) != it.get('lines', it['step'] + 1):  # Open + the lines of the completed steps
            raise core.Inconclusive('process died outside a pending step: %s' % out[-3000:])
        stored = [e for e in mine if 'st' in e][-1]['st']['stored']      # (the Inventory line carries no state)
        a = it.get('a', 'PublishRaw')
        obs = {'a': a, 'k': 'Crash', 'same': False}
        if a == 'ReadBack':
            obs['got'] = []
        if a == 'Subject':
            obs['reply'] = 'none'
        out_lines.append({'a': a, 't': it['t'], 'args': it['args'], 'st': {'up': False, 'stored': stored}, 'obs': obs,
                          'died': (re.search(r'^panic:.*$', out, re.M) or re.search(r'^fatal error:.*$', out, re.M)).group(0)[:200]})
        idx = [k for k, b in enumerate(remaining) if b['id'] == it['t']][0]
        remaining = remaining[idx + 1:]
        if crashes >= 6:     # every death is already a recorded violation; do not restart for ever
            stats['server_behaviours_skipped'] = len(remaining)
            break
    sites = source_sites()
    for e in out_lines:
        if e['a'] == 'Inventory':
            e['sites'] = sites
            stats['live_subjects'] = e['subs']
    with open(trace, 'w') as fh:
        for e in out_lines:
            fh.write(json.dumps(e) + '\n')
    by_id = {b['id']: b for b in behaviours}

    def rp(e, j):
        cls = cls_of(e['args']['i']) if e['a'] in ('PublishRaw', 'Internal', 'Subject') else '-'
        if e['a'] == 'Subject':
            x = e['args']['ent']
            ent = ':%s' % '/'.join('%s=%s' % (k, x[k]) for k in ('op', 's', 'p', 'r', 'e') if x[k] != NOENT[k]) if cls == 'valid' and e['args']['pbOK'] else ''
            return '%s:%s%s' % (e['args']['h'], cls, ent), {'kind': 'server', 'behaviours': [by_id[e['t']]]}
        if e['a'] == 'Internal':
            cls = '%s:%s%s' % (e['args']['h'], cls, (':shape%d' % e['args']['shape']) if cls == 'valid' and e['args']['pbOK'] else '')
        return cls, {'kind': 'server', 'behaviours': [by_id[e['t']]]}
    judge(rep, trace, tracecfg, rp, stats)
    stats['server_crashes'] = crashes
    stats['internal'] = sum(1 for e in out_lines if e['a'] in ('Internal', 'Subject'))
    stats['subject_steps'] = stats.get('subject_steps', 0) + sum(1 for e in out_lines if e['a'] == 'Subject')
    return sum(1 for e in out_lines if e['a'] == 'PublishRaw')


def nontrivial_beh(b):
    return any(s['a'] == 'PublishRaw' and cls_of(s['i']) not in ('short', 'magic', 'version') for s in b['steps'])


def run(rep, tier, seed, replay):
    T = TIERS[tier]
    stats = {}
    if replay:
        r = replay['replay']
        with core.scratch('c14') as d:
            if r['kind'] == 'server':
                run_server(rep, d, r['behaviours'], T['trace'], stats)
            else:
                test = '^TestVerifC14Table$' if r['pkg'] == 'server/protocol' else '^TestVerifC14Nats$'
                gocfg = {'lens': [], 'hls': [], 'fills': 1, 'seed': r['seed'], 'rt': 0, 'maxN': 0, 'only': r.get('only', [])}
                if not gocfg['only']:   # a round-trip failure: re-run the round trips of that seed
                    gocfg.update(rt=T['rt'], maxN=T['maxN'])
                run_table(rep, d, r['pkg'], test, gocfg, T['trace'], stats)
        rep.cov['rule'] = 'replay of a saved case'
        rep.cov['samples'] = [r]
        return

    # 1. design check: the whole product on the transcription (+ publish sequences)
    # thorough: MC_Envelope_thorough.cfg is the table alone (all 256 HeaderLen values); the server part (publish
    # sequences, internal subjects) is explored with MC_Envelope.cfg in both tiers.
    # -coverage 1 was run by hand on MC_Envelope.cfg: no zero counts (design_notes/C14.md)
    for mc in sorted({T['mc'], 'MC_Envelope.cfg'}):
        res = core.tlc_check('MC_Envelope.tla', mc, timeout=2400)
        rep.add_design(mc, res)
        if res['violated']:
            raise core.Inconclusive('the transcription itself violates %s - specification and code disagree, '
                                    'see design_notes/C14.md' % res['violated'])
    lens, hls = cfg_set(T['trace'], 'Lens'), cfg_set(T['trace'], 'HLs')
    if (lens, hls) != (cfg_set(T['mc'], 'Lens'), cfg_set(T['mc'], 'HLs')):
        raise core.Inconclusive('design-check and trace configurations enumerate different products')
    rng = random.Random(seed)
    with core.scratch('c14') as d:
        # 2. the table on the real decoders
        gocfg = {'lens': lens, 'hls': hls, 'fills': T['fills'], 'seed': seed, 'rt': T['rt'], 'maxN': T['maxN']}
        n1, nt1, s1 = run_table(rep, d, 'server/protocol', '^TestVerifC14Table$', gocfg, T['trace'], stats)
        # 3. the table on natsToProtoMessage
        gocfg2 = dict(gocfg, fills=max(3, T['fills']))      # one filling per payload shape: plain / hdrNoValue / hdrReserved
        n2, nt2, s2 = run_table(rep, d, 'server', '^TestVerifC14Nats$', gocfg2, T['trace'], stats)
        # 4. publish sequences on a live server
        sims = core.tlc_simulate('MC_Envelope.tla', T['sim'], T['sims'], T['depth'], seed, timeout=1500)
        behaviours = []
        for n, b in enumerate(sims):
            steps = []
            for st in b[1:]:
                a = dict(st['last'])
                if a['a'] == 'PublishRaw' and a['pbOK']:
                    a['shape'] = rng.choice(['plain', 'hdrNoValue', 'hdrReserved'])
                if a['a'] == 'Internal' and a['h'] == 'propagate' and a['pbOK']:
                    a['shape'] = rng.randrange(NUM_SHAPES)   # the simulation config draws 0..3; all request shapes are used
                steps.append(a)
            if steps:
                if steps[-1]['a'] != 'ReadBack':
                    steps.append({'a': 'ReadBack'})
                behaviours.append({'id': n + 1, 'cfg': {'seed': seed}, 'steps': steps})
        behaviours += arrival_variants(len(sims) + 2000, seed, rng, behaviours)
        behaviours += shape_sweep(len(sims) + 1000, seed)
        behaviours += subject_sweep(len(sims) + 3000, seed, tier, stats)
        npub = run_server(rep, d, behaviours, T['trace'], stats)
    rep.cov['traces_validated_against_impl'] = n1 + n2 + len(behaviours)
    rep.cov['trace_lines_validated'] = stats.get('lines', 0)
    rep.cov['evaluations'] = n1 * 15 + n2 + npub
    rep.cov['table_records_protocol'] = n1
    rep.cov['table_records_nats'] = n2
    rep.cov['round_trips'] = stats.get('roundtrips', 0)
    rep.cov['server_behaviours'] = len(behaviours)
    rep.cov['server_publishes'] = npub
    rep.cov['server_internal_rpc_messages'] = stats.get('internal', 0)
    rep.cov['subject_messages'] = stats.get('subject_steps', 0)
    rep.cov['subject_sweep_transitions_of_model'] = stats.get('sweep_transitions', 0)
    rep.cov['subject_sweep_steps_replayed'] = stats.get('sweep_steps', 0)
    rep.cov['live_subjects'] = stats.get('live_subjects', [])
    rep.cov['server_process_deaths'] = stats.get('server_crashes', 0)
    rep.cov['distinct_nontrivial'] = len(nt1 | nt2) + len({core.sha(b['steps']) for b in behaviours if nontrivial_beh(b)})
    rep.cov['rule'] = ('table: every (abstract input, pbOK) of the configured product, each executed on all 15 decoders '
                       '(protocol) and on natsToProtoMessage; non-trivial = the input passes the length, magic and '
                       'version tests, i.e. reaches the HeaderLen/type/CRC logic; distinct by hash of (input, pbOK).  '
                       'server: TLC-simulated publish sequences; non-trivial = contains such a publish; distinct by '
                       'hash of the step list')
    rep.cov['exhaustive'] = True   # the configured product was enumerated by TLC and replayed completely (checked per row group)
    rep.cov['samples'] = [s for s in (s1, s2) if s] + behaviours[:2]
    rep.assumptions += ['protobuf decoding (gogo / golang protobuf) is trusted beyond valid / invalid / exact-size payloads',
                        'NATS delivers a published message to the subscribed server',
                        'TLC evaluates the TLA+ predicates correctly']
