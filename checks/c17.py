"""C17 - encrypted streams never store plaintext and always return it.

spec/Encryption.tla (+ MC_Encryption, Sim_Encryption, Trace_Encryption); harness/encryption/c17, harness/server/c17
"""
import json
import os
import random
import re

from vf import core

META = {
    'property_id': 'C17',
    'confirm_by_replay': True,   # bin/check re-executes the stimulus of every violation before it is reported
    'level': 'model_checking',
    'technique': 'decision-table transcription in TLA+ of the stored form of an encrypted value (Encryption.tla: key size '
                 'byte | AES-KWP wrapped data key | nonce | AES-GCM ciphertext | tag) and of LocalEncryptionHandler.Read '
                 'branch by branch over an abstract byte string, under an ideal-AEAD assumption; TLC enumerates value '
                 'length x corruption case (region x kind) x reader key relation, every case is concretised for EVERY '
                 'byte position of its region and executed on the real codec; plus a behavioural model of the pipeline '
                 '(publish in batches -> seal -> append -> raw log -> subscribe, pause/resume, metadata snapshots, restart '
                 'from the snapshot or by replaying the Raft log, a running server installing a snapshot, change of the '
                 'master key variable, tampering on disk) whose TLC-simulated and scenario behaviours are executed on a '
                 'running server (one node, and two nodes with both streams replicated: follower-served subscribers, leader '
                 'change) with an encrypted and a plain stream; every recorded outcome is judged by TLC '
                 '(trace validation)',
    'level_text': 'TLC enumerates the complete abstract product on the transcription and proves: Read never crashes, '
                  'returns the value only for an untouched form read with the sealing master key, and an error for every '
                  'altered, truncated, extended, emptied, spliced form and for every other master key.  The same product '
                  'is executed on the real codec for every byte position of every region (xor masks, byte removed, byte '
                  'inserted, all 256 key size bytes, truncation lengths, regions spliced from other messages / handlers / '
                  'master keys, every single-byte alteration of the master key, the variable changed under a living '
                  'handler, independently built forms) and TLC judges each record, including that the harness executed '
                  'every case and every position.  Pipeline: behaviours of the model on a live server; after each step '
                  'the raw partition logs are read back and decoded independently (documented layout, both master keys '
                  'known to the harness); TLC judges: no stored value of the encrypted stream contains (>= 16 bytes) or '
                  'equals (>= 1 byte) a published value, subscribers receive exactly the published values, an entry that '
                  'is tampered with or sealed under another master key ends the subscription with an error and nothing '
                  'further, an injected seal failure is a negative ack and nothing stored, the plain stream is '
                  'unaffected, the server stays up.',
    'level_note': 'ASSUMED, not decided: the cryptographic strength of AES-GCM and AES-KWP (RFC 5649) and the correctness '
                  'of Go crypto/aes, crypto/cipher and tink kwp/subtle - the model treats them as an ideal authenticated '
                  'encryption: bytes not produced under a key do not verify under it, ciphertext is unrelated to the '
                  'plaintext.  The harness decodes stored values with the same libraries.  DECIDED: the framing (every '
                  'byte of the stored form is covered by the key-wrap or the GCM check; no length crashes or yields '
                  'data), every single-byte corruption of the stored form for the enumerated value lengths on the real '
                  'codec, master key mismatch, where the key comes from (read from the environment when a partition '
                  'object is built: creation, resume, restart - from the newest Raft snapshot when one was taken, else by replay - '
                  'and installation of a snapshot on a running server; the encryption setting in the live metadata and in the '
                  'newest snapshot file are projected after every step), and the data flow of the pipeline on a live one-node '
                  'server through all three Seal sites of messageProcessingLoop (site coverage is measured through a '
                  'recording wrapper around the real handler).  "Never contains the value" is claimed for values of '
                  '>= 16 bytes; for 1..15 bytes: the stored form is not the value, and the value does not sit at a fixed '
                  'offset of 8 independent seals (chance containment of a few bytes is possible and not a defect); the '
                  'empty value is only round-tripped.  Replacing a whole stored value by another genuine stored value of '
                  'the same stream is not detectable by this design (no binding to the offset) and not claimed.  '
                  'Tampering on disk is done with the CRC-32C of the surrounding log message rewritten (the commit log '
                  'itself refuses a CRC mismatch by stopping the server, which is outside this property).  Replication: '
                  'a second server holding a replica of both streams is part of the model and of the live runs (subscribers '
                  'served by the in-sync follower, leader change by a follower report, raw logs of both replicas), three or '
                  'more replicas, a stopped leader and restarts of a two-server cluster are not; an invalid master key at resume / restart makes the server '
                  'refuse to load the partition (FSM panic) and is outside the statement.',
    'design_ref': 'DESIGN.md section 6/C17, design_notes/C17.md',
}

TIERS = {
    'quick': dict(mc='MC_Encryption.cfg', trace='Trace_Encryption.cfg', sim='Sim_Encryption.cfg',
                  fills=['rand', 'runs'], mk=[16, 32], sims=26, depth=10, csim='Sim_Encryption_cluster.cfg', csims=10,
                  mcc='MC_Encryption_cluster.cfg'),
    'thorough': dict(mc='MC_Encryption_thorough.cfg', trace='Trace_Encryption_thorough.cfg', sim='Sim_Encryption.cfg',
                     fills=['rand', 'runs', 'text', 'zero', 'ff'], mk=[16, 32], sims=140, depth=12,
                     csim='Sim_Encryption_cluster.cfg', csims=60, mcc='MC_Encryption_cluster_thorough.cfg'),
}

SERVER_CFGS = [
    {'batchMax': 3, 'batchWaitMs': 60, 'encby': 'request', 'replicas': 1},
    {'batchMax': 3, 'batchWaitMs': 60, 'encby': 'serverconfig', 'replicas': 1},
    {'batchMax': 1024, 'batchWaitMs': 0, 'encby': 'request', 'replicas': 1},
]
CLUSTER_CFG = {'batchMax': 3, 'batchWaitMs': 60, 'encby': 'request', 'replicas': 2}   # two servers, both streams replicated on both


def cfg_set(cfgfile, name):
    text = open(os.path.join(core.SPEC, cfgfile)).read()
    m = re.search(r'^\s*%s\s*=\s*\{([^}]*)\}' % name, text, re.M)
    return sorted(int(x) for x in m.group(1).split(',') if x.strip())


def V(i, cls):
    return {'id': i, 'cls': cls}


def pub(s, vals, how='b2b', fails=()):
    return {'a': 'Publish', 's': s, 'vals': vals, 'fails': list(fails), 'how': how}


def sub(s, frm=0, rev=False, at='a'):
    """at: replica id, or 'L' / 'F' = the replica that leads / follows the partition when the step is executed"""
    return {'a': 'Subscribe', 's': s, 'from': frm, 'rev': rev, 'at': at}


def scenarios(seed):
    """deterministic behaviours that every run replays (the simulation reaches a given path only by chance):
    all three Seal sites with both ways a batch ends, a seal failure at each site, key change with restart and
    with pause/resume, restart with the same key, tampering of every region, the environment variable made
    invalid, encryption switched on by the server configuration"""
    S = []
    # 1. the three seal sites: b2b = first + drained, gap = first + awaited; full batch and timed-out batch
    S.append(({'wrap': True}, [
        pub('enc', [V(1, 'long'), V(2, 'short'), V(3, 'empty')], 'b2b'),
        pub('enc', [V(4, 'long'), V(5, 'long'), V(6, 'short')], 'gap'),
        pub('enc', [V(7, 'long'), V(8, 'long')], 'b2b'),
        pub('enc', [V(9, 'short'), V(10, 'long')], 'gap'),
        pub('plain', [V(11, 'long'), V(12, 'empty'), V(13, 'short')], 'b2b'),
        pub('enc', [V(14, 'long')], 'api'),
        sub('enc'), sub('plain'), sub('enc', 5), sub('enc', 10, True), sub('plain', 2, True), sub('enc', 4, True)]))
    # 2. a seal failure at each site
    S.append(({'wrap': True}, [
        pub('enc', [V(1, 'long'), V(2, 'long'), V(3, 'long')], 'b2b', [1]),
        pub('enc', [V(4, 'long'), V(5, 'long'), V(6, 'long')], 'b2b', [2]),
        pub('enc', [V(7, 'long'), V(8, 'long'), V(9, 'short')], 'gap', [2, 3]),
        pub('enc', [V(10, 'long')], 'api', [1]),
        pub('plain', [V(11, 'long')], 'api'),
        pub('enc', [V(12, 'short')], 'api'),
        sub('enc'), sub('plain')]))
    # 3. the master key changes: no effect before the restart, afterwards old entries are refused, new ones flow
    S.append(({'wrap': False}, [
        pub('enc', [V(1, 'long'), V(2, 'short')], 'b2b'), pub('plain', [V(3, 'long')], 'api'),
        {'a': 'SetEnv', 'k': 'k2'}, pub('enc', [V(4, 'long')], 'api'), sub('enc'),
        {'a': 'Restart'}, sub('enc'), sub('plain'), pub('enc', [V(5, 'long'), V(6, 'empty')], 'gap'), sub('enc', 3), sub('enc', 2),
        sub('enc', 4, True), sub('enc', 2, True),
        pub('plain', [V(7, 'short')], 'api'), sub('plain')]))
    # 4. the same through pause / resume; a paused stream over a restart
    S.append(({'wrap': True}, [
        pub('enc', [V(1, 'long')], 'api'), {'a': 'Pause', 's': 'enc'}, {'a': 'SetEnv', 'k': 'k2'}, {'a': 'Resume', 's': 'enc'},
        sub('enc'), pub('enc', [V(2, 'long'), V(3, 'long')], 'b2b'), sub('enc', 1),
        {'a': 'Pause', 's': 'enc'}, {'a': 'SetEnv', 'k': 'k1'}, {'a': 'Restart'}, {'a': 'Resume', 's': 'enc'}, sub('enc'), sub('enc', 1)]))
    # 5. restart with the same key: everything is returned
    S.append(({'wrap': False}, [
        pub('enc', [V(1, 'long'), V(2, 'short'), V(3, 'empty')], 'gap'), pub('plain', [V(4, 'long')], 'api'),
        {'a': 'Restart'}, sub('enc'), sub('plain'), pub('enc', [V(5, 'long')], 'api'), sub('enc')]))
    # 6. tampering of every region
    steps = [pub('enc', [V(1, 'long'), V(2, 'short'), V(3, 'long')], 'b2b'), pub('enc', [V(4, 'empty'), V(5, 'long')], 'b2b')]
    for j, reg in enumerate(['KS', 'WK', 'NONCE', 'CT', 'TAG']):
        steps += [{'a': 'Tamper', 'r': 'a', 'j': 5 - j, 'reg': reg}, sub('enc', 4 - j), sub('enc')]
    S.append(({'wrap': False}, steps))
    # 7. an invalid master key in the environment: living partitions go on, no new encrypted stream
    S.append(({'wrap': False}, [
        pub('enc', [V(1, 'long')], 'api'), {'a': 'SetEnv', 'k': 'bad'}, {'a': 'CreateProbe'},
        pub('enc', [V(2, 'long'), V(3, 'long')], 'b2b'), sub('enc'), {'a': 'SetEnv', 'k': 'k1'}, {'a': 'CreateProbe'}]))
    out = []
    for n, (c, steps) in enumerate(S):
        out.append({'id': 9000 + n, 'cfg': dict(SERVER_CFGS[0], seed=seed, **c), 'steps': steps})
    # 8. encryption switched on by the server configuration; default batching (no wait)
    out.append({'id': 9100, 'cfg': dict(SERVER_CFGS[1], seed=seed, wrap=True), 'steps': S[0][1][:5] + [sub('enc'), sub('plain')]})
    out.append({'id': 9101, 'cfg': dict(SERVER_CFGS[1], seed=seed, wrap=False), 'steps': S[2][1]})
    out.append({'id': 9200, 'cfg': dict(SERVER_CFGS[2], seed=seed, wrap=True), 'steps': S[0][1]})
    # 9. two replicas: replication carries the stored form; subscribers served by the follower; the leadership
    # moves to the other replica, which seals from then on; tampering of one replica's log; new handlers on resume
    LC = {'a': 'LeaderChange', 's': 'enc'}
    out.append({'id': 9300, 'cfg': dict(CLUSTER_CFG, seed=seed, wrap=True), 'steps': [
        pub('enc', [V(1, 'long'), V(2, 'short'), V(3, 'empty')], 'b2b'), pub('plain', [V(4, 'long')], 'api'),
        sub('enc', at='L'), sub('enc', at='F'), sub('enc', 2, True, 'F'), sub('plain', at='F'),
        LC, pub('enc', [V(5, 'long'), V(6, 'long')], 'gap'), pub('enc', [V(7, 'long')], 'api', [1]),
        sub('enc', at='L'), sub('enc', at='F'), sub('enc', 4, True, 'L'),
        LC, pub('enc', [V(8, 'short'), V(9, 'long'), V(10, 'long')], 'b2b', [2]), sub('enc', at='F'), sub('enc', at='L'),
        {'a': 'Tamper', 'r': 'F', 'j': 2, 'reg': 'CT'}, sub('enc', at='F'), sub('enc', at='L')]})
    # 10. how the metadata comes back: a snapshot of the metadata is persisted, the server restarts FROM THE SNAPSHOT
    # (not by replaying the CREATE entry) - same key, changed key, paused before / after the snapshot, two snapshots;
    # a RUNNING server installs a snapshot (all partition objects rebuilt from it)
    SNAP, INST = {'a': 'Snapshot', 'r': 'a'}, {'a': 'Install', 'r': 'a'}
    R = []
    R.append(({'wrap': True}, [
        pub('enc', [V(1, 'long'), V(2, 'short'), V(3, 'empty')], 'b2b'), pub('plain', [V(4, 'long')], 'api'), SNAP, {'a': 'Restart'},
        sub('enc'), sub('plain'), pub('enc', [V(5, 'long'), V(6, 'long')], 'gap'), pub('enc', [V(7, 'long'), V(8, 'short')], 'b2b', [1]),
        pub('plain', [V(9, 'long')], 'api'), sub('enc'), sub('enc', 4, True), sub('plain')]))
    R.append(({'wrap': False}, [
        pub('enc', [V(1, 'long'), V(2, 'long')], 'b2b'), SNAP, {'a': 'SetEnv', 'k': 'k2'}, {'a': 'Restart'}, sub('enc'),
        pub('enc', [V(3, 'long')], 'api'), sub('enc', 2), sub('enc'), SNAP, {'a': 'SetEnv', 'k': 'k1'}, {'a': 'Restart'},
        sub('enc'), sub('enc', 2), pub('enc', [V(4, 'short'), V(5, 'long')], 'gap'), sub('enc', 3), sub('enc', 4, True)]))
    R.append(({'wrap': True}, [
        pub('enc', [V(1, 'long')], 'api'), {'a': 'Pause', 's': 'enc'}, SNAP, {'a': 'Restart'}, {'a': 'Resume', 's': 'enc'},
        pub('enc', [V(2, 'long'), V(3, 'long')], 'b2b'), sub('enc'), SNAP, {'a': 'Pause', 's': 'enc'}, {'a': 'Restart'},
        {'a': 'Resume', 's': 'enc'}, pub('enc', [V(4, 'long')], 'api', [1]), pub('enc', [V(5, 'long')], 'api'), sub('enc'), sub('enc', 3, True)]))
    R.append(({'wrap': True}, [
        pub('enc', [V(1, 'long'), V(2, 'short')], 'b2b'), pub('plain', [V(3, 'long')], 'api'), INST,
        pub('enc', [V(4, 'long'), V(5, 'long'), V(6, 'empty')], 'b2b', [2]), sub('enc'), sub('plain'), pub('plain', [V(7, 'long')], 'api'),
        {'a': 'SetEnv', 'k': 'k2'}, INST, sub('enc'), pub('enc', [V(8, 'long')], 'gap'), sub('enc', 4), sub('enc', 4, True), sub('plain')]))
    R.append(({'wrap': True}, [       # a snapshot installed while a stream is paused (its partition object is rebuilt paused)
        pub('enc', [V(1, 'long'), V(2, 'short')], 'b2b'), {'a': 'Pause', 's': 'enc'}, INST, {'a': 'Resume', 's': 'enc'},
        pub('enc', [V(3, 'long')], 'api'), sub('enc'), {'a': 'Pause', 's': 'plain'}, {'a': 'SetEnv', 'k': 'k2'}, INST,
        pub('enc', [V(4, 'long')], 'api'), sub('enc'), sub('enc', 2), {'a': 'Resume', 's': 'plain'}, pub('plain', [V(5, 'long')], 'api'), sub('plain')]))
    for n, (c, steps) in enumerate(R):
        out.append({'id': 9400 + n, 'cfg': dict(SERVER_CFGS[0], seed=seed, **c), 'steps': steps})
    out.append({'id': 9410, 'cfg': dict(SERVER_CFGS[1], seed=seed, wrap=True), 'steps': R[0][1]})     # encrypted by the server configuration
    out.append({'id': 9411, 'cfg': dict(SERVER_CFGS[1], seed=seed, wrap=True), 'steps': R[3][1]})
    IF, IL = {'a': 'Install', 'r': 'F'}, {'a': 'Install', 'r': 'L'}
    out.append({'id': 9302, 'cfg': dict(CLUSTER_CFG, seed=seed, wrap=True), 'steps': [
        pub('enc', [V(1, 'long'), V(2, 'short')], 'b2b'), pub('plain', [V(3, 'long')], 'api'), IF, sub('enc', at='F'), sub('plain', at='F'),
        LC, pub('enc', [V(4, 'long'), V(5, 'long')], 'gap', [2]), sub('enc', at='L'), sub('enc', at='F'),
        IL, pub('enc', [V(6, 'long')], 'api'), pub('plain', [V(7, 'short')], 'api'), sub('enc', at='L'), sub('enc', 3, True, 'F'), sub('plain', at='L')]})
    out.append({'id': 9301, 'cfg': dict(CLUSTER_CFG, seed=seed, wrap=False), 'steps': [
        pub('enc', [V(1, 'long'), V(2, 'long')], 'b2b'), {'a': 'LeaderChange', 's': 'plain'}, pub('plain', [V(3, 'long'), V(4, 'empty')], 'gap'),
        sub('plain', at='F'), sub('plain', at='L'),
        {'a': 'SetEnv', 'k': 'k2'}, LC, pub('enc', [V(5, 'long')], 'api'), sub('enc', at='F'),
        {'a': 'Pause', 's': 'enc'}, {'a': 'Resume', 's': 'enc'}, sub('enc', at='F'), sub('enc', at='L'),
        pub('enc', [V(6, 'long'), V(7, 'short')], 'b2b'), sub('enc', 3, at='F'), sub('enc', 3, at='L'), LC,
        pub('enc', [V(8, 'long')], 'api'), sub('enc', 3, at='L'), sub('enc', 5, True, 'F')]})
    return out


def decorate(sims, seed, rng, cluster=False, first_id=1):
    """TLC-simulated step sequences -> stimuli; value class, scheduling and tampered region are re-drawn here
    (the model's outcome does not depend on them)"""
    out = []
    for n, b in enumerate(sims):
        steps = []
        wrap = False
        empties = set()     # values are told apart by their bytes: one empty value per stream and behaviour
        for st in b[1:]:
            a = dict(st['last'])
            if a['a'] == 'Publish':
                vals = []
                for v in a['vals']:
                    cls = rng.choice(['long', 'long', 'long', 'short', 'short', 'empty'])
                    if cls == 'empty' and a['s'] in empties:
                        cls = 'short'
                    if cls == 'empty':
                        empties.add(a['s'])
                    vals.append(dict(v, cls=cls))
                a['vals'] = vals
                a['fails'] = sorted(a['fails']['__set__'] if isinstance(a['fails'], dict) else a['fails'])
                a['how'] = 'api' if len(a['vals']) == 1 and rng.random() < 0.4 else rng.choice(['b2b', 'gap'])
                wrap = wrap or bool(a['fails'])
            if a['a'] == 'Tamper':
                a['reg'] = rng.choice(['KS', 'WK', 'NONCE', 'CT', 'TAG'])
            if cluster and a['a'] in ('Subscribe', 'Tamper', 'Snapshot', 'Install'):
                # which server leads is decided by the cluster: the model's replica is kept as a ROLE
                # (the replica that leads / follows the partition at that point of the behaviour)
                lead = core.tlaval.state_var(st['body'], 'lead')
                key, stream = ('at', a['s']) if a['a'] == 'Subscribe' else ('r', 'enc')
                a[key] = 'L' if a[key] == lead[stream] else 'F'
            steps.append(a)
        if steps:
            c = CLUSTER_CFG if cluster else (SERVER_CFGS[0] if rng.random() < 0.75 else rng.choice(SERVER_CFGS[1:]))
            out.append({'id': first_id + n, 'cfg': dict(c, seed=seed, wrap=wrap or rng.random() < 0.5), 'steps': steps})
    out.sort(key=lambda b: (b['cfg']['replicas'], b['cfg']['batchMax'], b['cfg']['encby']))   # one cluster per configuration
    return out


def features(steps):
    """situation features of a behaviour: HOW the partition objects in use were (re)built - at creation, by a
    resume, by a restart that replays the Raft log, by a restart from a snapshot, by a snapshot installed on the
    running server - x what is then done with the encrypted stream (publish / subscribe), x the key changed or not"""
    out = set()
    how, snapped, keychg = 'created', False, False
    for s in steps:
        a = s['a']
        if a == 'Snapshot':
            snapped = True
        elif a == 'SetEnv':
            keychg = True
        elif a == 'Restart':
            how, keychg = ('restart-snapshot' if snapped else 'restart-replay') + ('+key' if keychg else ''), False
        elif a == 'Install':
            how, keychg, snapped = 'install' + ('+key' if keychg else ''), False, True
        elif a == 'Resume' and s.get('s') == 'enc':
            how, keychg = how.split('/')[0] + '/resume' + ('+key' if keychg else ''), False
        elif a in ('Publish', 'Subscribe') and s.get('s') == 'enc':
            out.add('%s>%s' % (how, a))
    return out


def select(pool, want, per_feature=2):
    """situation-guided selection (GUIDE.md 9.1): from a pool of simulated behaviours those that cover every
    feature `per_feature` times first, the rest in the order TLC drew them"""
    count, chosen, rest = {}, [], []
    for b in pool:
        f = features(b['steps'])
        if any(count.get(x, 0) < per_feature for x in f if not x.startswith('created')):
            chosen.append(b)
            for x in f:
                count[x] = count.get(x, 0) + 1
        else:
            rest.append(b)
    return (chosen + rest)[:max(want, 0)] if len(chosen) <= want else chosen[:want]


def variant_behaviours(seed, rng):
    """defective variants of single model decisions as generators of directed scenarios (GUIDE.md 9.5): the model
    in which a metadata snapshot loses the encryption setting violates C17_NoPlaintext / C17_NoGarbage; TLC's
    counterexamples are behaviours in which exactly that decision matters, and are replayed on the real code"""
    out = []
    for n, (cfg, cluster) in enumerate([('MC_Encryption_snapdrop.cfg', False), ('MC_Encryption_snapdrop_sub.cfg', False),
                                        ('MC_Encryption_snapdrop_install.cfg', True), ('MC_Encryption_snapdrop_install_sub.cfg', True)]):
        names, beh = core.tlc_counterexample('MC_Encryption.tla', cfg, workers=min(core.NCPU, 4), timeout=600)
        if not names or not beh:
            raise core.Inconclusive('the defective variant %s has no counterexample: the model does not depend on the decision' % cfg)
        d = decorate([beh], seed, rng, cluster=cluster, first_id=9500 + n)
        for b in d:
            # what follows the rebuilt partition: one more publish and a subscriber at every replica
            b['steps'] = (b['steps'] + [pub('enc', [V(90, 'long'), V(91, 'short')], 'b2b')]
                          + [sub('enc', 0, False, x) for x in (['L', 'F'] if cluster else ['a'])])
            b['variant'] = cfg
        out += d
    return out


def case_sig(c):
    s = '%s:%s' % (c['cor'], c['reg'])
    if c['cor'] in ('swap', 'foreign', 'extend'):
        s += ':%d' % c['p']
    if c['key'] != 'same':
        s += '/%s%s' % (c['key'], c['q'] or '')
    return s


def judge(rep, trace, tracecfg, replay_of, stats):
    res = core.tlc_trace('Trace_Encryption.tla', tracecfg, trace, timeout=1500)
    lines = core.read_ndjson(trace)
    for f in res['fails']:
        kind, tid, ln, action, name, j = f
        e = lines[ln - 1]
        sig, rp = replay_of(e, j)
        if kind == 'I':
            rep.drift({'line': ln, 'action': action, 'what': name, 'case': sig})
            continue
        if kind == 'C':
            raise core.Inconclusive('harness did not execute what the specification enumerates: %s %s line %d' % (name, sig, ln))
        rep.classify('C17|%s|%s|%s' % (name, action, sig), '%s failed on %s %s' % (name, action, sig), rp)
    stats['lines'] = stats.get('lines', 0) + (res['validated'] or 0)
    return res


def run_codec(rep, d, gocfg, tracecfg, stats):
    stim, trace = os.path.join(d, 'codec.json'), os.path.join(d, 'codec.ndjson')
    core.write_json(stim, gocfg)
    rc, out, wall = core.go_test('server/encryption', '^TestVerifC17Codec$', {'VERIF_STIMULI': stim, 'VERIF_TRACE_OUT': trace},
                                 timeout=1500, subs=['c17'])
    if rc != 0 or not os.path.exists(trace):
        raise core.Inconclusive('codec harness failed rc=%s: %s' % (rc, out[-3000:]))

    def rp(e, j):
        only = {'kind': 'codec', 'seed': gocfg['seed'], 'only': [{'n': e.get('n', 0), 'fill': e.get('fill', 'rand'), 'mk': e.get('mk', 16)}]}
        if e['a'] == 'Codec' and j:
            return 'n=%d:%s' % (e['n'], case_sig(e['recs'][j - 1]['c'])), only
        if e['a'] == 'Codec':
            return 'n=%d:seal' % e['n'], only
        return 'keys', {'kind': 'codec', 'seed': gocfg['seed'], 'only': []}
    judge(rep, trace, tracecfg, rp, stats)
    lines = core.read_ndjson(trace)
    ncases, nstrings, distinct, sample = 0, 0, set(), None
    for e in lines:
        if e['a'] != 'Codec':
            continue
        if e.get('partial') and not gocfg.get('only'):
            rep.drift({'what': 'stored form does not have the documented layout', 'n': e['n']})
        for r in e['recs']:
            ncases += 1
            nstrings += r['npos']
            if r['c']['cor'] != 'none' or r['c']['key'] == 'other':      # a corrupted form or a foreign key
                distinct.add(core.sha([e['n'], e['fill'], e['mk'], r['c']]))
        if sample is None and e['n'] == 16:
            sample = {'n': e['n'], 'fill': e['fill'], 'mk': e['mk'], 'seal': e['seal'],
                      'recs': [r for r in e['recs'] if r['c']['cor'] in ('flip', 'swap')][:4]}
    want = len(gocfg.get('only') or []) or len([1 for n in gocfg['lens'] for fi, f in enumerate(gocfg['fills'])
                                                 if not (n == 0 and fi > 0) for m in gocfg['mk']])
    got = sum(1 for e in lines if e['a'] == 'Codec')
    if got != want:
        raise core.Inconclusive('codec harness executed %d of %d values' % (got, want))
    return ncases, nstrings, distinct, sample, got


PENDING_OBS = {'Publish': {'acks': []}, 'Subscribe': {'got': [], 'end': 'crash'}, 'CreateProbe': {'ok': False}}


def run_server(rep, d, behaviours, tracecfg, stats):
    """executes behaviours on a live server; a dead server process is an observation (up = FALSE for the
    pending step), the remaining behaviours run in a fresh process"""
    trace = os.path.join(d, 'server.ndjson')
    intent = os.path.join(d, 'intent.json')
    out_lines = []
    remaining = list(behaviours)
    crashes = 0
    while remaining:
        stim = os.path.join(d, 'server-stim.json')
        part = os.path.join(d, 'server-part.ndjson')
        for p in (part, intent):
            if os.path.exists(p):
                os.remove(p)
        core.write_json(stim, {'behaviours': remaining})
        rc, out, wall = core.go_test('server', '^TestVerifC17Server$',
                                     {'VERIF_STIMULI': stim, 'VERIF_TRACE_OUT': part, 'VERIF_INTENT': intent},
                                     timeout=1500, subs=['c17'])
        got = core.read_ndjson(part) if os.path.exists(part) else []
        out_lines += got
        if rc == 0:
            break
        if 'INCONCLUSIVE' in out or 'test timed out' in out or 'build failed' in out or not os.path.exists(intent):
            raise core.Inconclusive('server harness failed rc=%s: %s' % (rc, out[-3000:]))
        if not re.search(r'^(panic:|fatal error:)', out, re.M):
            raise core.Inconclusive('server harness failed without a panic rc=%s: %s' % (rc, out[-3000:]))
        crashes += 1
        it = json.load(open(intent))
        mine = [e for e in got if e.get('t') == it['t']]
        if len(mine) != it['step'] + 1:  # Open + one line per completed step
            raise core.Inconclusive('process died outside a pending step: %s' % out[-3000:])
        st = dict(mine[-1]['st'], up=False)
        a = it['a']
        out_lines.append({'a': a, 't': it['t'], 'args': it['args'], 'st': st, 'obs': dict(PENDING_OBS.get(a, {}), a=a),
                          'died': (re.search(r'^panic:.*$', out, re.M) or re.search(r'^fatal error:.*$', out, re.M)).group(0)[:200]})
        idx = [k for k, b in enumerate(remaining) if b['id'] == it['t']][0]
        remaining = remaining[idx + 1:]
        if crashes >= 6:
            stats['server_behaviours_skipped'] = len(remaining)
            break
    with open(trace, 'w') as fh:
        for e in out_lines:
            fh.write(json.dumps(e) + '\n')
    by_id = {b['id']: b for b in behaviours}

    def rp(e, j):
        sig = e['args'].get('s', '-') if e.get('args') else '-'
        if e['a'] == 'Publish':
            sig += ':%d%s' % (len(e['args']['vals']), ':fail' if e['args']['fails'] else '')
        return sig, {'kind': 'server', 'behaviours': [by_id[e['t']]]}
    judge(rep, trace, tracecfg, rp, stats)
    stats['server_crashes'] = crashes
    sites = {}
    for e in out_lines:
        if e['a'] == 'Publish':
            stats['publishes'] = stats.get('publishes', 0) + len(e['args']['vals'])
            for sname in e['obs'].get('sites', []):
                sites[sname] = sites.get(sname, 0) + 1
        if e['a'] == 'Subscribe':
            stats['subscriptions'] = stats.get('subscriptions', 0) + 1
            stats['delivered'] = stats.get('delivered', 0) + len(e['obs']['got'])
            if e['obs']['end'] == 'err':
                stats['subscriptions_refused'] = stats.get('subscriptions_refused', 0) + 1
    stats['seal_sites'] = sites
    return out_lines


def nontrivial_beh(b):
    """a behaviour that stores something in the encrypted stream and reads it back or looks at it after a key
    change / tampering"""
    acts = [s['a'] for s in b['steps']]
    return any(s['a'] == 'Publish' and s['s'] == 'enc' for s in b['steps']) and ('Subscribe' in acts or 'Tamper' in acts or 'Restart' in acts or 'Install' in acts)


def run(rep, tier, seed, replay):
    T = TIERS[tier]
    stats = {}
    masks, ksv = cfg_set(T['trace'], 'Masks'), cfg_set(T['trace'], 'KSValues')
    if replay:
        r = replay['replay']
        with core.scratch('c17') as d:
            if r['kind'] == 'server':
                run_server(rep, d, r['behaviours'], T['trace'], stats)
            else:
                gocfg = {'seed': r['seed'], 'lens': [], 'fills': [], 'masks': masks, 'ksvalues': ksv, 'mklens': [], 'mk': [],
                         'only': r['only']}
                if not r['only']:
                    gocfg.update(lens=[16], fills=['rand'], mk=[16], mklens=cfg_set(T['mc'], 'MKLens'))
                    gocfg.pop('only')
                run_codec(rep, d, gocfg, T['trace'], stats)
        rep.cov['rule'] = 'replay of a saved case'
        rep.cov['samples'] = [r]
        return

    # 1. design check: the abstract product on the transcription + the pipeline model
    # (-coverage 1 was run by hand on MC_Encryption.cfg: no zero counts, see design_notes/C17.md)
    for mc in (T['mc'], T['mcc']):      # one server (with the codec table); two replicas
        res = core.tlc_check('MC_Encryption.tla', mc, timeout=2400)
        rep.add_design(mc, res)
        if res['violated']:
            raise core.Inconclusive('the transcription itself violates %s - specification and code disagree, see '
                                    'design_notes/C17.md' % res['violated'])
    if (masks, ksv) != (cfg_set(T['mc'], 'Masks'), cfg_set(T['mc'], 'KSValues')):
        raise core.Inconclusive('design-check and trace configurations enumerate different products')
    lens = cfg_set(T['mc'], 'Lens')
    rng = random.Random(seed)
    with core.scratch('c17') as d:
        # 2. the table on the real codec
        gocfg = {'seed': seed, 'lens': lens, 'fills': T['fills'], 'masks': masks, 'ksvalues': ksv,
                 'mklens': cfg_set(T['mc'], 'MKLens'), 'mk': T['mk']}
        ncases, nstrings, distinct, sample, nvalues = run_codec(rep, d, gocfg, T['trace'], stats)
        # 3. behaviours on a live server
        # a pool several times larger than what is executed; the subset that covers the situations is replayed
        sims = core.tlc_simulate('MC_Encryption.tla', T['sim'], 4 * T['sims'], T['depth'], seed)
        csims = core.tlc_simulate('MC_Encryption.tla', T['csim'], 3 * T['csims'], T['depth'], seed)
        chosen = select(decorate(sims, seed, rng), T['sims']) + select(decorate(csims, seed, rng, cluster=True, first_id=5001), T['csims'])
        behaviours = scenarios(seed) + variant_behaviours(seed, rng) + chosen
        behaviours.sort(key=lambda b: (b['cfg']['replicas'], b['cfg']['batchMax'], b['cfg']['encby']))
        lines = run_server(rep, d, behaviours, T['trace'], stats)
    sites = stats.get('seal_sites', {})
    if not stats.get('server_crashes') and not all(sites.get(x) for x in 'ABC'):
        raise core.Inconclusive('not all three Seal sites of messageProcessingLoop were exercised: %s' % sites)
    rep.cov['traces_validated_against_impl'] = nvalues + len(behaviours)
    rep.cov['trace_lines_validated'] = stats.get('lines', 0)
    rep.cov['evaluations'] = nstrings + sum(1 for e in lines if e['a'] != 'Open')
    rep.cov['codec_values'] = nvalues
    rep.cov['codec_cases'] = ncases
    rep.cov['codec_byte_strings_read'] = nstrings
    rep.cov['server_behaviours'] = len(behaviours)
    rep.cov['server_steps'] = sum(1 for e in lines if e['a'] != 'Open')
    rep.cov['server_values_published'] = stats.get('publishes', 0)
    rep.cov['server_subscriptions'] = stats.get('subscriptions', 0)
    rep.cov['server_subscriptions_ended_by_error'] = stats.get('subscriptions_refused', 0)
    rep.cov['server_values_delivered'] = stats.get('delivered', 0)
    rep.cov['server_seal_sites'] = sites
    rep.cov['server_process_deaths'] = stats.get('server_crashes', 0)
    feats = {}
    for b in behaviours:
        for x in features(b['steps']):
            feats[x] = feats.get(x, 0) + 1
    rep.cov['server_situations'] = feats      # how the partition objects were (re)built > what was done with the encrypted stream
    rep.cov['distinct_nontrivial'] = len(distinct) + len({core.sha(b['steps']) for b in behaviours if nontrivial_beh(b)})
    rep.cov['rule'] = ('codec: every case of Encryption!Cases(n) for every configured value length x filling x master key '
                       'length, each concretised for every byte position of its region; non-trivial = the stored form is '
                       'corrupted or the reader holds another master key; distinct by hash of (n, filling, key length, '
                       'case).  server: scenario behaviours + TLC counterexamples of the defective model variants '
                       '(SnapKeeps = FALSE) + TLC-simulated behaviours of MC_Encryption selected from a 3-4x larger pool by '
                       'situation features (how the partition objects in use were rebuilt > what is done with the encrypted '
                       'stream, coverage.server_situations); non-trivial = '
                       'publishes to the encrypted stream and then subscribes / restarts / installs a snapshot / tampers; distinct by hash of '
                       'the step list')
    rep.cov['exhaustive'] = True   # the configured abstract product was enumerated by TLC and replayed completely (checked by TLC per value)
    rep.cov['samples'] = [s for s in (sample,) if s] + behaviours[:2]
    rep.assumptions += ['AES-GCM and AES-KWP behave as an ideal authenticated encryption (Go crypto, tink kwp/subtle trusted)',
                        'the harness decodes stored values with the same libraries, following the documented layout',
                        'NATS delivers a published message to the subscribed server',
                        'TLC evaluates the TLA+ predicates correctly']
