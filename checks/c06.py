"""C06 - cluster metadata is a deterministic, restart-stable state machine.

spec/MetadataFSM.tla (+ GroupOps, MC_MetadataFSM, Trace_MetadataFSM); harness/server/c06.
"""
import os
import random

from vf import core, graph

META = {
    'property_id': 'C06',
    'level': 'model_checking',
    'technique': 'TLA+ spec of the controller FSM (MetadataFSM.tla: every Raft operation of fsm.go apply, snapshots that '
                 'hold references and are persisted later, restart = restore + replay with recovered=true + '
                 'finishedRecovery, tombstones, data directories) checked exhaustively by TLC over all valid operation '
                 'sequences; TLC-generated behaviours executed on real never-started Server values (Server.apply, '
                 'Snapshot, fsmSnapshot.Persist, Restore, finishedRecovery); every recorded step judged by TLC',
    'level_text': 'TLC enumerates every valid sequence (leader-side preconditions as guards) of create/delete/pause/'
                  'resume/read-only/ISR shrink/ISR expand/leader change and consumer-group operations within small '
                  'bounds, every snapshot position, every later Persist position and every restart position, and checks '
                  'restart-stability per component, no data loss, no resurrection, no apply error on the specification; '
                  'all transitions of a smaller instance plus seeded simulations of several scenario families are run '
                  'on two real servers (one restarting over its data directory, one never restarting) and TLC '
                  're-evaluates the same predicates plus determinism (A = B) on every recorded state.',
    'level_note': 'Servers are never started (their id is not a replica), so partition leader/follower loops, NATS and '
                  'Raft itself (incl. the replay-range detection inside Server.Apply) are outside; the harness passes '
                  'recovered=true for the suffix exactly as Server.Apply would. Persist happens between two applies '
                  '(op granularity), not in the middle of one. The asynchronous StreamDeleted is waited for after each '
                  'call here (its scheduling is C12). Quick: <= 4 operations exhaustively (2 families), <= 10 simulated.',
    'design_ref': 'DESIGN.md section 6/C06',
}

GROUPS = ['g1']


def conv(v):
    """TLA value (tlaval) -> JSON-friendly: sets become sorted lists"""
    if isinstance(v, dict):
        if '__set__' in v:
            return sorted(conv(x) for x in v['__set__'])
        return {k: conv(x) for k, x in v.items()}
    if isinstance(v, list):
        return [conv(x) for x in v]
    return v


def step_of(last):
    a = last['a']
    if a == 'Apply':
        return {'a': 'Apply', 'o': conv(last['o'])}
    return {'a': a}


def from_graph(g, first_id):
    """the replay configuration has no VIEW, so `last` of the target state of an edge is the action of that edge"""
    paths, covered, total = graph.cover(g)
    out = []
    cache = {}
    for root, p in paths:
        steps = []
        for i in p:
            dst = g['edges'][i][1]
            if dst not in cache:
                cache[dst] = step_of(core.tlaval.state_var(g['nodes'][dst], 'last'))
            steps.append(cache[dst])
        out.append({'id': first_id + len(out), 'cfg': {'groups': GROUPS}, 'steps': complete(steps)})
    return out, covered, total


def complete(steps):
    """a behaviour that stops in the middle of a recovery is continued to the end of it"""
    mode = 'live'
    for s in steps:
        if s['a'] == 'Restart':
            mode = 'rec'
        elif s['a'] in ('Finish', 'GoLive'):
            mode = 'live'
    if mode == 'rec':
        # the driver skips what does not apply: Restore when there is no snapshot,
        # Replay beyond the log, Finish when nothing was replayed
        steps = steps + [{'a': 'Restore'}] + [{'a': 'Replay'}] * 12 + [{'a': 'Finish'}, {'a': 'GoLive'}]
    return steps


def from_sim(sims, first_id):
    out = []
    for beh in sims:
        if len(beh) < 2:
            continue
        steps = complete([step_of(st['last']) for st in beh[1:]])
        out.append({'id': first_id + len(out), 'cfg': {'groups': GROUPS}, 'steps': steps})
    return out


def nontrivial(b):
    acts = [s['a'] for s in b['steps']]
    ops = [s['o']['op'] for s in b['steps'] if s['a'] == 'Apply']
    return 'Restart' in acts and len(ops) >= 2 and len(set(ops)) >= 2


def key(b):
    return core.sha(b['steps'])


def features(b, line_action):
    ops = [s['o']['op'] for s in b['steps'] if s['a'] == 'Apply']
    f = []
    if 'DeleteStream' in ops:
        f.append('delete')
    if any(o in ops for o in ('CreateGroup', 'JoinGroup')):
        f.append('groups')
    return '+'.join(f) or '-'


REAL_OPS = {'CreateStream', 'DeleteStream', 'Pause', 'Resume', 'SetReadonly', 'CreateGroup', 'JoinGroup', 'LeaveGroup'}


def real_behaviours(behaviours, n, first_id):
    """behaviours for the real one-node server: the operations the metadata leader API offers, real Raft
    snapshots, restarts; everything else is dropped (validity of the rest does not depend on it)"""
    out = []
    for b in behaviours:
        steps = [s for s in b['steps'] if (s['a'] == 'Apply' and s['o']['op'] in REAL_OPS) or s['a'] in ('Snapshot', 'Restart')]
        ops = [s for s in steps if s['a'] == 'Apply']
        if len(ops) < 4 or not any(s['a'] == 'Restart' for s in steps):
            continue
        if steps[-1]['a'] != 'Restart':
            steps.append({'a': 'Restart'})
        out.append({'id': first_id + len(out), 'cfg': {'groups': GROUPS}, 'steps': steps})
        if len(out) >= n:
            break
    return out


def execute(behaviours, d, timeout=1500, real=None):
    stim = os.path.join(d, 'stim.json')
    trace = os.path.join(d, 'trace.ndjson')
    core.write_json(stim, {'behaviours': behaviours})
    if os.environ.get('VERIF_KEEP'):
        core.log('stimuli at', stim)
    env = {'VERIF_STIMULI_FSM06': stim, 'VERIF_TRACE_OUT_FSM06': trace}
    tests = 'TestVerifMetadataFSM'
    if real:
        rstim, rtrace = os.path.join(d, 'stim-real.json'), os.path.join(d, 'trace-real.ndjson')
        core.write_json(rstim, {'behaviours': real})
        env.update({'VERIF_STIMULI_REAL': rstim, 'VERIF_TRACE_OUT_REAL': rtrace})
        tests += '|TestVerifMetadataRealRestart'
    rc, out, wall = core.go_test('server', '^(%s)$' % tests, env, timeout=timeout, subs=['c06'])
    if rc != 0 or not os.path.exists(trace):
        raise core.Inconclusive('harness failed rc=%s: %s' % (rc, out[-3000:]))
    if real:
        # one trace file: the real-server behaviours follow
        with open(trace, 'a') as fh, open(rtrace) as rf:
            fh.write(rf.read())
    return trace


def judge(rep, behaviours, trace):
    res = core.tlc_trace('Trace_MetadataFSM.tla', 'Trace_MetadataFSM.cfg', trace, timeout=2400)
    by_id = {b['id']: b for b in behaviours}
    bad = {}
    drifting = []
    for kind, tid, line, action, name, tag in res['fails']:
        if kind == 'I':
            rep.drift({'behaviour': tid, 'line': line, 'action': action, 'what': name})
            if by_id[tid] not in drifting:
                drifting.append(by_id[tid])
            continue
        bad.setdefault((tid, name), []).append((line, action, tag))
    if drifting:
        core.write_json(os.path.join(core.BUILD, 'drift-C06.json'), {'replay': {'behaviours': drifting[:20]}})
    for (tid, name), fl in sorted(bad.items()):
        fl.sort()
        line, action, tag = fl[0]
        b = by_id[tid]
        sig = 'C06|%s|%s|%s|%s' % (name, action, tag, features(b, action))
        rep.classify(sig, 'first failing step of check %s: line %d action %s' % (name, line, action), {'behaviours': [b]})
    return res


FAMILIES_QUICK = [('MC_MetadataFSM.cfg', 'Sim_MetadataFSM.cfg', 350), ('MC_MetadataFSM_groups.cfg', 'Sim_MetadataFSM_groups.cfg', 350)]
FAMILIES_THOROUGH = [('MC_MetadataFSM_thorough.cfg', 'Sim_MetadataFSM.cfg', 1200),
                     ('MC_MetadataFSM_groups_thorough.cfg', 'Sim_MetadataFSM_groups.cfg', 1200)]


def run(rep, tier, seed, replay):
    import time
    t0 = time.time()

    def lap(what):
        core.log('C06 %-28s %6.1fs' % (what, time.time() - t0))
    if replay:
        behaviours = replay['replay']['behaviours']
        real = [b for b in behaviours if b.get('real')]
        behaviours = [b for b in behaviours if not b.get('real')]
        with core.scratch('c06') as d:
            judge(rep, behaviours + real, execute(behaviours, d, real=real or None))
        rep.cov['rule'] = 'replay of a saved stimulus'
        rep.cov['samples'] = behaviours[:1]
        return
    quick = tier == 'quick'
    behaviours = []
    for mc, sim, num in (FAMILIES_QUICK if quick else FAMILIES_THOROUGH):
        res = core.tlc_check('MC_MetadataFSM.tla', mc, timeout=3000, coverage=not quick)
        rep.add_design(mc[:-4], res)
        if res['violated']:
            raise core.Inconclusive('design check %s reports %s (specification and property disagree on the model): %s'
                                    % (mc, res['violated'], res['out'][-1500:]))
        sims = core.tlc_simulate('MC_MetadataFSM.tla', sim, num, 16, seed, timeout=1200)
        behaviours += from_sim(sims, len(behaviours) + 1)
        lap('design + simulation ' + mc[:-4])
    # the open findings must stay reachable in the model (otherwise the model lost them)
    for cfg, prop in (('MC_MetadataFSM_finding.cfg', 'A_RS_GroupEpoch'), ('MC_MetadataFSM_finding2.cfg', 'A_RS_GroupAsg'),
                      ('MC_MetadataFSM_finding3.cfg', 'A_RS_Started')):
        fres = core.tlc_check('MC_MetadataFSM.tla', cfg, timeout=600, workers=4)
        rep.cov['design_checks'].append({'config': cfg[:-4], 'violated': fres['violated'],
                                         'note': 'expected: %s violated (open known finding reachable in the model)' % prop})
        if prop not in fres['violated']:
            raise core.Inconclusive('model no longer reproduces the open finding %s: %s' % (prop, fres['out'][-1000:]))
    lap('finding configs')
    covered = total = 0
    for cfg in (['MC_MetadataFSM_replay.cfg'] if quick else ['MC_MetadataFSM_replay_streams.cfg', 'MC_MetadataFSM_replay_groups.cfg']):
        g = graph.tlc_dump('MC_MetadataFSM.tla', cfg, workers=min(core.NCPU, 8), timeout=1500)
        gb, cv, tt = from_graph(g, len(behaviours) + 1)
        behaviours += gb
        covered, total = covered + cv, total + tt
    lap('dot dump + cover')
    real = real_behaviours(behaviours, 2 if quick else 12, len(behaviours) + 1)
    for b in real:
        b['real'] = True
    rep.cov['real_server_restart_behaviours'] = len(real)
    with core.scratch('c06') as d:
        trace = execute(behaviours, d, real=real or None)
        lap('execution of %d behaviours (+%d on a real one-node server)' % (len(behaviours), len(real)))
        tr = judge(rep, behaviours + real, trace)
    lap('trace validation')
    rep.cov['transitions_of_replay_model'] = total
    rep.cov['transitions_replayed'] = covered
    rep.cov['exhaustive'] = covered == total
    rep.cov['traces_validated_against_impl'] = len(behaviours) + len(real)
    rep.cov['trace_lines_validated'] = tr['validated']
    rep.cov['evaluations'] = len(behaviours) + len(real)
    rep.cov['distinct_nontrivial'] = len({key(b) for b in behaviours if nontrivial(b)})
    rep.cov['rule'] = ('behaviours = seeded TLC simulation of two scenario families of MC_MetadataFSM (stream operations; '
                       'consumer groups with stream deletion/re-creation), each continued to the end of a started '
                       'recovery, + transition cover of the state graph of MC_MetadataFSM_replay; non-trivial = contains a '
                       'restart and at least two different operations; distinct by hash of the step list')
    rep.cov['samples'] = [behaviours[0], behaviours[-1]]
    rep.assumptions += ['servers that are not replicas: partition loops, NATS and Raft are not running',
                        'Persist runs between two applies', 'TLC 1.8.0 evaluates the TLA+ predicates correctly']
