"""C06 - cluster metadata is a deterministic, restart-stable state machine.

spec/MetadataFSM.tla (+ GroupOps, MC_MetadataFSM, Trace_MetadataFSM); harness/server/c06.
"""
import os
import random

from vf import core, graph

META = {
    'property_id': 'C06',
    'confirm_by_replay': True,   # bin/check re-executes the stimulus of every violation before it is reported
    'level': 'model_checking',
    'technique': 'TLA+ spec of the controller FSM (MetadataFSM.tla: every Raft operation of fsm.go apply, snapshots that '
                 'hold references and are persisted later, restart = restore + replay with recovered=true + '
                 'finishedRecovery, tombstones, data directories) checked exhaustively by TLC over all valid operation '
                 'sequences; TLC-generated behaviours executed on real never-started Server values (Server.apply, '
                 'Snapshot, fsmSnapshot.Persist, Restore, finishedRecovery, finishRestore); every recorded step judged by TLC',
    'level_text': 'TLC enumerates every valid sequence (leader-side preconditions as guards) of create/delete/pause/'
                  'resume/read-only/ISR shrink/ISR expand/leader change and consumer-group operations within small '
                  'bounds, every snapshot position, every later Persist position and every restart position, and checks '
                  'restart-stability per component, no data loss, no resurrection, no apply error on the specification; '
                  'all transitions of a smaller instance plus seeded simulations of several scenario families are run '
                  'on two real servers (one restarting over its data directory, one never restarting) and TLC '
                  're-evaluates the same predicates plus determinism (A = B) on every recorded state.',
    'level_note': 'Servers are never started (their id is not a replica), so partition leader/follower loops, NATS and '
                  'Raft itself (incl. the replay-range detection inside Server.Apply) are outside; the harness passes '
                  'recovered=true for the suffix exactly as Server.Apply would. Persist happens between two applies '
                  '(op granularity), not in the middle of one. The asynchronous StreamDeleted is waited for after each '
                  'call here (its scheduling is C12). Quick: <= 4 operations exhaustively (2 families), <= 10 simulated.',
    'design_ref': 'DESIGN.md section 6/C06',
}

GROUPS = ['g1']


def conv(v):
    """TLA value (tlaval) -> JSON-friendly: sets become sorted lists"""
    if isinstance(v, dict):
        if '__set__' in v:
            return sorted(conv(x) for x in v['__set__'])
        return {k: conv(x) for k, x in v.items()}
    if isinstance(v, list):
        return [conv(x) for x in v]
    return v


def step_of(last):
    a = last['a']
    if a in ('Apply', 'PersistWith'):
        return {'a': a, 'o': conv(last['o'])}
    return {'a': a}     # Replay / Catchup: the driver takes the operation from its own log


def from_graph(g, first_id):
    """the replay configuration has no VIEW, so `last` of the target state of an edge is the action of that edge"""
    paths, covered, total = graph.cover(g)
    out = []
    cache = {}
    for root, p in paths:
        steps = []
        for i in p:
            dst = g['edges'][i][1]
            if dst not in cache:
                cache[dst] = step_of(core.tlaval.state_var(g['nodes'][dst], 'last'))
            steps.append(cache[dst])
        out.append({'id': first_id + len(out), 'cfg': {'groups': GROUPS}, 'steps': complete(steps), '_edges': list(p)})
    return out, covered, total


def complete(steps):
    """a behaviour that stops in the middle of a recovery / catch-up is continued to the end of it"""
    mode = 'live'
    for s in steps:
        if s['a'] == 'Restart':
            mode = 'rec'
        elif s['a'] == 'Install':
            mode = 'cu'
        elif s['a'] in ('Finish', 'GoLive', 'CaughtUp'):
            mode = 'live'
    # the driver skips what does not apply: Restore when there is no snapshot, Replay / Catchup beyond the log,
    # Finish when nothing was replayed
    if mode == 'rec':
        steps = steps + [{'a': 'Restore'}] + [{'a': 'Replay'}] * 12 + [{'a': 'Finish'}, {'a': 'GoLive'}]
    elif mode == 'cu':
        steps = steps + [{'a': 'Catchup'}] * 12 + [{'a': 'CaughtUp'}]
    return steps


def canon(b):
    """symmetry class of a behaviour: stream, group, consumer and non-leader broker names replaced by their order of
    first appearance, partition counts dropped"""
    m = {}

    def nm(kind, x):
        k = (kind, x)
        if k not in m:
            m[k] = '%s%d' % (kind, sum(1 for q in m if q[0] == kind))
        return m[k]
    out = []
    for s in b['steps']:
        if s['a'] != 'Apply':
            out.append(s['a'])
            continue
        o = s['o']
        r = [o['op']]
        for k in ('s', 'g'):
            if k in o:
                r.append(nm(k, o[k]))
        if o['op'] != 'CreateStream':
            for k in ('r', 'ldr'):
                if k in o:
                    r.append(nm('b', o[k]))
        if 'c' in o:
            r.append(nm('c', o['c']))
        if 'S' in o:
            r.append(sorted(nm('s', x) for x in o['S']))
        for k in ('pids', 'b', 'p'):
            if k in o:
                r.append(o[k])
        out.append(r)
    return core.sha(out)


def one_per_class(behaviours):
    seen, out = set(), []
    for b in behaviours:
        k = canon(b)
        if k not in seen:
            seen.add(k)
            out.append(b)
    return out


def from_sim(sims, first_id):
    out = []
    for beh in sims:
        if len(beh) < 2:
            continue
        steps = complete([step_of(st['last']) for st in beh[1:]])
        out.append({'id': first_id + len(out), 'cfg': {'groups': GROUPS}, 'steps': steps})
    return out


def feats(b):
    """coverage features of a behaviour: operations applied between Snapshot() and a later Persist that a
    restart then restores ('late'), the same kind twice on one target in that window ('late2'), operations in a
    replayed suffix, consecutive pairs of operation kinds"""
    f = set()
    steps = b['steps']
    acts = [s['a'] for s in steps]
    prev = None
    snap_at = None
    window = []
    persisted_window = None
    since_snapshot = []
    flagops = {}     # stream -> pause / resume / read-only operations applied to it so far
    for i, s in enumerate(steps):
        a = s['a']
        if a == 'PersistWith':
            f.add(('persist-with', s['o']['op']))
        if a in ('Apply', 'PersistWith'):
            op = s['o']['op']
            if op in ('Pause', 'Resume', 'SetReadonly'):
                flagops.setdefault(s['o'].get('s'), []).append(op + (':%s' % s['o']['b'] if op == 'SetReadonly' else ''))
            if prev:
                f.add(('pair', prev, op))
            prev = op
            tgt = (op, s['o'].get('s'), s['o'].get('p'), s['o'].get('g'))
            if a == 'PersistWith' and snap_at is not None:
                persisted_window, snap_at = list(window), None    # the snapshot holds what was applied before
            if snap_at is not None:
                window.append(tgt)
            since_snapshot.append(op)
        elif a == 'Snapshot':
            snap_at, window, since_snapshot = i, [], []
        elif a == 'Persist' and snap_at is not None:
            persisted_window, snap_at = list(window), None
        elif a in ('Restart', 'Install'):
            f.add(('recovery', a, 'snap' if persisted_window is not None else 'nosnap', tuple(since_snapshot[-3:])))
            # what a recovery meets: the last flag operations of each stream (read-only -> pause -> resume -> restart ...)
            for q in flagops.values():
                f.add(('flags-before', a, 'snap' if persisted_window is not None else 'nosnap', tuple(q[-3:])))
            if persisted_window is not None:
                for tgt in persisted_window:
                    f.add(('late', tgt[0]))
                    if persisted_window.count(tgt) >= 2:
                        f.add(('late2', tgt[0]))
                kinds = [x[0] for x in persisted_window]
                for x, y in zip(kinds, kinds[1:]):
                    f.add(('latepair', x, y))
            for op in since_snapshot:
                f.add(('replayed', op))
            f.add(('restart', 'snap' if persisted_window is not None else 'nosnap'))
    return f


def select(pool, n, quota=3):
    """coverage-guided choice of n behaviours from a simulated pool: greedily those that add the most features
    not yet seen `quota` times, then the rest in order"""
    seen = {}
    fs = [feats(b) for b in pool]
    chosen, left = [], list(range(len(pool)))
    while left and len(chosen) < n:
        best, gain = None, 0
        for i in left:
            g = sum(1 for x in fs[i] if seen.get(x, 0) < quota)
            if g > gain:
                best, gain = i, g
        if best is None:
            break
        chosen.append(best)
        left.remove(best)
        for x in fs[best]:
            seen[x] = seen.get(x, 0) + 1
    chosen += left[:max(0, n - len(chosen))]
    return [pool[i] for i in sorted(chosen)], len(seen)


def nontrivial(b):
    acts = [s['a'] for s in b['steps']]
    ops = [s['o']['op'] for s in b['steps'] if s['a'] in ('Apply', 'PersistWith')]
    return 'Restart' in acts and len(ops) >= 2 and len(set(ops)) >= 2


def key(b):
    return core.sha(b['steps'])


def features(b, line_action):
    ops = [s['o']['op'] for s in b['steps'] if s['a'] in ('Apply', 'PersistWith')]
    f = []
    if 'DeleteStream' in ops:
        f.append('delete')
    if any(o in ops for o in ('CreateGroup', 'JoinGroup')):
        f.append('groups')
    if any(s['a'] in ('Apply', 'PersistWith') and s['o']['op'] in ('CreateGroup', 'JoinGroup') and len(s['o']['S']) > 1 for s in b['steps']):
        f.append('multi')   # some member consumes more than one stream: assignments depend on the history
    if 'LeaveGroup' in ops:
        f.append('leave')   # a member left: a heap entry without subscribers can exist (it is not rebuilt by Restore)
    return '+'.join(f) or '-'


def _cs(s):
    return {'a': 'Apply', 'o': {'op': 'CreateStream', 's': s, 'n': 1, 'R': ['r1', 'r2', 'r3'], 'ldr': 'r1', 'subj': s,
                                'cfg': 'none', 'ts': 7}}


# directed histories: TLC counterexamples of defective variants of the model that are deeper than the exhaustive
# covers reach (kept as stimuli; each is continued to the end of its recovery by complete())
DIRECTED = [
    # a heap that lost its last subscriber must not decide the group epoch after a restore (A_RS_GroupEpoch at 6
    # operations with the pre-a339921 GRemoveMember): the delete is replayed behind the snapshot ...
    [_cs('sa'), {'a': 'Apply', 'o': {'op': 'CreateGroup', 'g': 'g1', 'c': 'c1', 'S': ['sa'], 'coord': 'A'}}, _cs('sb'),
     {'a': 'Apply', 'o': {'op': 'JoinGroup', 'g': 'g1', 'c': 'c2', 'S': ['sb']}},
     {'a': 'Apply', 'o': {'op': 'LeaveGroup', 'g': 'g1', 'c': 'c1'}}, {'a': 'Snapshot'}, {'a': 'Persist'},
     {'a': 'Apply', 'o': {'op': 'DeleteStream', 's': 'sa'}}, {'a': 'Restart'}],
    # ... or applied live after a restart from the snapshot (server B never restarted: Det_GroupEpoch)
    [_cs('sa'), {'a': 'Apply', 'o': {'op': 'CreateGroup', 'g': 'g1', 'c': 'c1', 'S': ['sa'], 'coord': 'A'}}, _cs('sb'),
     {'a': 'Apply', 'o': {'op': 'JoinGroup', 'g': 'g1', 'c': 'c2', 'S': ['sb']}},
     {'a': 'Apply', 'o': {'op': 'LeaveGroup', 'g': 'g1', 'c': 'c1'}}, {'a': 'Snapshot'}, {'a': 'Persist'}, {'a': 'Restart'},
     {'a': 'Restore'}, {'a': 'GoLive'}, {'a': 'Apply', 'o': {'op': 'DeleteStream', 's': 'sa'}}],
]

REAL_OPS = {'CreateStream', 'DeleteStream', 'Pause', 'Resume', 'SetReadonly', 'CreateGroup', 'JoinGroup', 'LeaveGroup'}


def real_behaviours(behaviours, n, first_id):
    """behaviours for the real one-node server: the operations the metadata leader API offers, real Raft
    snapshots, restarts; everything else is dropped (validity of the rest does not depend on it)"""
    out = []
    for b in behaviours:
        steps = [s for s in b['steps'] if (s['a'] == 'Apply' and s['o']['op'] in REAL_OPS) or s['a'] in ('Snapshot', 'Restart')]
        ops = [s for s in steps if s['a'] == 'Apply']
        if len(ops) < 4 or not any(s['a'] == 'Restart' for s in steps):
            continue
        if steps[-1]['a'] != 'Restart':
            steps.append({'a': 'Restart'})
        out.append({'id': first_id + len(out), 'cfg': {'groups': GROUPS}, 'steps': steps})
        if len(out) >= n:
            break
    return out


def execute(behaviours, d, timeout=1500, real=None):
    stim = os.path.join(d, 'stim.json')
    trace = os.path.join(d, 'trace.ndjson')
    core.write_json(stim, {'behaviours': behaviours})
    if os.environ.get('VERIF_KEEP'):
        core.log('stimuli at', stim)
    env = {'VERIF_STIMULI_FSM06': stim, 'VERIF_TRACE_OUT_FSM06': trace}
    tests = 'TestVerifMetadataFSM'
    if real:
        rstim, rtrace = os.path.join(d, 'stim-real.json'), os.path.join(d, 'trace-real.ndjson')
        core.write_json(rstim, {'behaviours': real})
        env.update({'VERIF_STIMULI_REAL': rstim, 'VERIF_TRACE_OUT_REAL': rtrace})
        tests += '|TestVerifMetadataRealRestart'
    rc, out, wall = core.go_test('server', '^(%s)$' % tests, env, timeout=timeout, subs=['c06'])
    if rc != 0 or not os.path.exists(trace):
        raise core.Inconclusive('harness failed rc=%s: %s' % (rc, out[-3000:]))
    if real:
        # one trace file: the real-server behaviours follow
        with open(trace, 'a') as fh, open(rtrace) as rf:
            fh.write(rf.read())
    return trace


def judge(rep, behaviours, trace):
    res = core.tlc_trace('Trace_MetadataFSM.tla', 'Trace_MetadataFSM.cfg', trace, timeout=2400)
    by_id = {b['id']: b for b in behaviours}
    bad = {}
    drifting = []
    for kind, tid, line, action, name, tag in res['fails']:
        if kind == 'I':
            rep.drift({'behaviour': tid, 'line': line, 'action': action, 'what': name})
            if by_id[tid] not in drifting:
                drifting.append(by_id[tid])
            continue
        bad.setdefault((tid, name), []).append((line, action, tag))
    if drifting:
        core.write_json(os.path.join(core.BUILD, 'drift-C06.json'), {'replay': {'behaviours': drifting[:20]}})
    for (tid, name), fl in sorted(bad.items()):
        fl.sort()
        line, action, tag = fl[0]
        b = by_id[tid]
        sig = 'C06|%s|%s|%s|%s' % (name, action, tag, features(b, action))
        rep.classify(sig, 'first failing step of check %s: line %d action %s' % (name, line, action), {'behaviours': [b]})
    return res


FAMILIES_QUICK = [('MC_MetadataFSM.cfg', 'Sim_MetadataFSM.cfg', 200), ('MC_MetadataFSM_groups.cfg', 'Sim_MetadataFSM_groups.cfg', 200)]
FAMILIES_THOROUGH = [('MC_MetadataFSM_thorough.cfg', 'Sim_MetadataFSM.cfg', 1200),
                     ('MC_MetadataFSM_groups_thorough.cfg', 'Sim_MetadataFSM_groups.cfg', 1200)]


def run(rep, tier, seed, replay):
    import time
    t0 = time.time()

    def lap(what):
        core.log('C06 %-28s %6.1fs' % (what, time.time() - t0))
    if replay:
        behaviours = replay['replay']['behaviours']
        real = [b for b in behaviours if b.get('real')]
        behaviours = [b for b in behaviours if not b.get('real')]
        with core.scratch('c06') as d:
            judge(rep, behaviours + real, execute(behaviours, d, real=real or None))
        rep.cov['rule'] = 'replay of a saved stimulus'
        rep.cov['samples'] = behaviours[:1]
        return
    quick = tier == 'quick'
    behaviours = []
    for mc, sim, num in (FAMILIES_QUICK if quick else FAMILIES_THOROUGH):
        res = core.tlc_check('MC_MetadataFSM.tla', mc, timeout=3000, coverage=not quick)
        rep.add_design(mc[:-4], res)
        if res['violated']:
            raise core.Inconclusive('design check %s reports %s (specification and property disagree on the model): %s'
                                    % (mc, res['violated'], res['out'][-1500:]))
        # a pool four times as large is simulated; the behaviours to execute are chosen by feature coverage
        sims = core.tlc_simulate('MC_MetadataFSM.tla', sim, 4 * num, 16, seed, timeout=1200)
        chosen, nfeat = select(from_sim(sims, 0), num)
        rep.cov.setdefault('simulation_features_covered', {})[sim[:-4]] = nfeat
        for b in chosen:
            b['id'] = len(behaviours) + 1
            behaviours.append(b)
        lap('design + simulation ' + mc[:-4])
    # the open findings must stay reachable in the model (otherwise the model lost them)
    for cfg, prop in (('MC_MetadataFSM_finding2.cfg', 'A_RS_GroupAsg'),):
        fres = core.tlc_check('MC_MetadataFSM.tla', cfg, timeout=600, workers=4)
        rep.cov['design_checks'].append({'config': cfg[:-4], 'violated': fres['violated'],
                                         'note': 'expected: %s violated (open known finding reachable in the model)' % prop})
        if prop not in fres['violated']:
            raise core.Inconclusive('model no longer reproduces the open finding %s: %s' % (prop, fres['out'][-1000:]))
    lap('finding configs')
    covered = total = 0
    # directed exhaustive families besides the full-alphabet one:
    #   _late    one partition, leader changes / ISR shrink+expand incl. retried requests: every Persist position after
    #            the Snapshot, every restart / install position behind it
    #   _install one stream, two consumers; create/delete stream, create/join/leave group, log <= 4: groups with an
    #            idle member, delete + re-create under a living group, restart / install incl. an EMPTY snapshot
    fam = (['MC_MetadataFSM_replay.cfg'] if quick else ['MC_MetadataFSM_replay_streams.cfg', 'MC_MetadataFSM_replay_groups.cfg'])
    executed_classes = 0
    #   _flags   one partition; create, pause, resume, read-only on/off, log <= 4, incl. Persist CONCURRENT with an apply
    #            (PersistWith, also in _late): what a restart / install meets after any flag history
    for cfg in fam + ['MC_MetadataFSM_replay_late.cfg', 'MC_MetadataFSM_replay_install.cfg', 'MC_MetadataFSM_replay_flags.cfg']:
        g = graph.tlc_dump('MC_MetadataFSM.tla', cfg, workers=min(core.NCPU, 8), timeout=1500)
        gb, cv, tt = from_graph(g, 0)
        total += tt
        if quick and cfg == 'MC_MetadataFSM_replay_flags.cfg':
            # budget: the quick tier executes the behaviours of this family that cover every feature (flag history in
            # front of a recovery, operation inside a Persist, ...) three times; the thorough tier executes all
            gb, _ = select(gb, 350)
            cv = len({i for b in gb for i in b['_edges']})
        if quick and (cfg == 'MC_MetadataFSM_replay_install.cfg' or os.environ.get('VERIF_C06_SYMMETRY')):
            # budget: of the largest family the quick tier executes one behaviour per symmetry class (consumer /
            # stream / broker names by order of first appearance); the transitions really executed are counted
            gb = one_per_class(gb)
            cv = len({i for b in gb for i in b['_edges']})
        covered += cv
        for b in gb:
            b.pop('_edges', None)
            b['id'] = len(behaviours) + 1
            behaviours.append(b)
    for steps in DIRECTED:
        behaviours.append({'id': len(behaviours) + 1, 'cfg': {'groups': GROUPS}, 'steps': complete(list(steps))})
    lap('dot dump + cover')
    real = real_behaviours(behaviours, 2 if quick else 12, len(behaviours) + 1)
    for b in real:
        b['real'] = True
    rep.cov['real_server_restart_behaviours'] = len(real)
    with core.scratch('c06') as d:
        trace = execute(behaviours, d, real=real or None)
        lap('execution of %d behaviours (+%d on a real one-node server)' % (len(behaviours), len(real)))
        tr = judge(rep, behaviours + real, trace)
    lap('trace validation')
    rep.cov['transitions_of_replay_model'] = total
    rep.cov['transitions_replayed'] = covered
    rep.cov['exhaustive'] = covered == total
    rep.cov['traces_validated_against_impl'] = len(behaviours) + len(real)
    rep.cov['trace_lines_validated'] = tr['validated']
    rep.cov['evaluations'] = len(behaviours) + len(real)
    rep.cov['distinct_nontrivial'] = len({key(b) for b in behaviours if nontrivial(b)})
    rep.cov['rule'] = ('[simulated behaviours are chosen by feature coverage from a 4x pool] behaviours = seeded TLC simulation of two scenario families of MC_MetadataFSM (stream operations; '
                       'consumer groups with stream deletion/re-creation), each continued to the end of a started '
                       'recovery, + transition cover of the state graph of MC_MetadataFSM_replay; non-trivial = contains a '
                       'restart and at least two different operations; distinct by hash of the step list')
    rep.cov['samples'] = [behaviours[0], behaviours[-1]]
    rep.assumptions += ['servers that are not replicas: partition loops, NATS and Raft are not running',
                        'Persist runs between two applies', 'TLC 1.8.0 evaluates the TLA+ predicates correctly']
