"""C01 - the partition log is a gap-free, ordered, immutable record of what was appended.

spec/CommitLog.tla (+ MC_CommitLog, Trace_CommitLog); harness/commitlog/c01_verif_test.go
"""
import os
import random

from vf import core, graph
from . import _repl

META = {
    'property_id': 'C01',
    'level': 'model_checking',
    'technique': 'TLA+ spec (CommitLog.tla) checked exhaustively by TLC; TLC-generated behaviours replayed on the '
                 'real commit log; every recorded step judged by TLC against the same P_* predicates (trace validation)',
    'level_text': 'TLC enumerates every sequence of append/replicated append/truncate/reopen/HW/epoch/reader steps '
                  'within small bounds and proves the step predicates P_* and invariants on the specification; the same '
                  'behaviours (plus thousands of simulated deeper ones with payload classes nil/empty/large) are executed '
                  'on the real commit log and each recorded real state and transition is re-judged by TLC, including a '
                  'fresh committed and uncommitted reader from every start offset after every step.',
    'level_note': 'Assumes one appender at a time (lock-step driver); byte-level file format trusted only through '
                  'read-back; segment sizes measured from the real log.  Bounds: quick <= 8 records / 12 steps per '
                  'behaviour, thorough <= 10 records / 16 steps.',
    'design_ref': 'DESIGN.md section 6/C01',
}

KEYS = ['nil', 'nil', 'empty', 'a', 'b', 'a', 'big']
VCS = ['short'] * 7 + ['nil', 'empty', 'big']
HCS = ["nil", "nil", "empty", "one", "two", "emptyval", "nilval", "mixed2", "mixed3"]
# index pre-allocation in bytes (20 per entry; 0 = the default 10 MiB, never outgrown by these logs)
IDX = [0, 40, 60, 80, 100]


def decorate(beh, rng, bid, hcs=HCS):
    """TLC behaviour (list of sim steps) -> stimulus for the Go harness"""
    first = core.tlaval.state_var(beh[0]['body'], 'cfg')
    out = {'id': bid, 'cfg': {'maxBytes': first['maxBytes'] * 128, 'occ': first['occ'], 'idx': rng.choice(IDX)}, 'steps': []}
    for st in beh[1:]:
        a = dict(st['last'])
        if a['a'] in ('Append', 'AppendSet'):
            recs = []
            for r in a['recs']:
                recs.append({'ep': r['ep'], 'ts': r['ts'], 'val': r['val'], 'sz': r['sz'],
                             'exp': r.get('exp', -1), 'key': rng.choice(KEYS), 'vc': rng.choice(VCS),
                             'hc': rng.choice(hcs)})
                if 'off' in r:
                    recs[-1]['off'] = r['off']
            a['recs'] = recs
        out['steps'].append(a)
    return out


def cover_behaviours(rng, first_id, cfg):
    """every transition of the small model (no VIEW: `last` is part of the state, so the arguments of each
    transition can be read from its target node) as behaviours: shortest path to the source + the edge"""
    g = graph.tlc_dump('MC_CommitLog.tla', cfg, workers=core.NCPU, timeout=1800)
    paths, covered, total = graph.cover(g)
    out = []
    for root, p in paths:
        beh = [{'body': g['nodes'][root], 'last': {'a': 'Open'}}]
        for i in p:
            node = g['nodes'][g['edges'][i][1]]
            beh.append({'body': node, 'last': core.tlaval.state_var(node, 'last')})
        out.append(decorate(beh, rng, first_id + len(out)))
    return out, covered, total, g


def _segof(segs, x):
    k = 0
    for i, sg in enumerate(segs):
        if sg['base'] <= x:
            k = i
    return k


def sim_features(beh):
    """abstract situations a simulated behaviour goes through, computed from TLC's states (what kind of reader
    meets what kind of step in what kind of layout); used to pick the behaviours that are replayed"""
    S = lambda st, v: core.tlaval.state_var(st['body'], v)
    f, info, prev = set(), {}, None
    for i in range(1, len(beh)):
        st, pre = beh[i], beh[i - 1]
        a = st['last']
        act = a['a']
        log0 = [r['off'] for r in S(pre, 'log')]
        segs0, rd0, hw0 = S(pre, 'segs'), S(pre, 'rd'), S(pre, 'hw')
        rd1, obs = S(st, 'rd'), S(st, 'obs')
        oldest, newest = (log0[0], log0[-1]) if log0 else (-1, -1)
        gap = bool(log0) and log0[0] > 0
        nseg = min(len(segs0), 3)
        alive = sorted(info[r]['c'] for r in info if rd0[r]['alive'])
        f.add(('a', act))
        if prev:
            f.add(('aa', prev, act))
        if act == 'NewReader':
            s_, c = a['s'], a['c']
            rel = ('empty' if not log0 else 'below' if s_ < oldest else 'end' if s_ == newest + 1 else
                   'beyond' if s_ > newest + 1 else 'abovehw' if c and s_ > hw0 else 'in')
            f.add(('nr', c, rel, nseg))
            info[a['r']] = {'below': rel == 'below', 'deliv': False, 'surv': False, 'c': c}
        elif act in ('Drain', 'Tail', 'Read'):
            inf = info.get(a['r'])
            if inf and rd0[a['r']]['alive']:
                got = len(obs['ret']) > 0
                f.add(('dr', act, inf['c'], inf['below'], inf['surv'], inf['deliv'], got))
                inf['deliv'] = inf['deliv'] or got
        elif act == 'Truncate':
            o = a['o']
            relo = 'none' if not log0 else 'le-oldest' if o <= oldest else 'past' if o > newest else 'mid'
            f.add(('tr', relo, gap, nseg))
            for r, inf in info.items():
                if rd0[r]['alive']:
                    if rd1[r]['alive']:
                        same = _segof(segs0, rd0[r]['next']) == _segof(segs0, o)
                        f.add(('tr-surv', inf['c'], inf['below'], inf['deliv'], same))
                        inf['surv'] = True
                    else:
                        f.add(('tr-kill', inf['c']))
        elif act == 'Reopen':
            f.add(('ro', gap, nseg, bool(log0)))
            info = {}
        elif act in ('Append', 'AppendSet'):
            rolled = len(S(st, 'segs')) > len(segs0)
            f.add(('ap', act, len(a['recs']), rolled, tuple(alive), obs['err']))
            if act == 'AppendSet' and a['recs'][0]['off'] > newest + 1:
                f.add(('ap-gap', len(a['recs'])))
        elif act == 'SetHW':
            f.add(('hw', tuple(alive), _segof(segs0, a['h']) == len(segs0) - 1))
        prev = act
    return f


def select(pool, n, rng, k=3):
    """greedy: repeatedly take the behaviour that adds the most situations covered fewer than k times so far,
    then fill up at random"""
    cand = [(b, sim_features(b)) for b in pool if len(b) > 1]
    count, chosen = {}, []
    while cand and len(chosen) < n:
        best, gain = None, 0
        for i, (b, f) in enumerate(cand):
            g = sum(1 for x in f if count.get(x, 0) < k)
            if g > gain:
                best, gain = i, g
        if best is None:
            break
        b, f = cand.pop(best)
        for x in f:
            count[x] = count.get(x, 0) + 1
        chosen.append(b)
    guided = len(chosen)
    rng.shuffle(cand)
    chosen += [b for b, _ in cand[:max(0, n - len(chosen))]]
    return chosen, len(count), guided


def features(beh):
    f = set()
    for s in beh['steps']:
        if s['a'] in ('Append', 'AppendSet'):
            for r in s['recs']:
                if r['hc'] == 'nilval':
                    f.add('hdr-nil-value')
    return ','.join(sorted(f)) or '-'


def nontrivial(beh):
    acts = {s['a'] for s in beh['steps']}
    return bool(acts & {'Truncate', 'Reopen', 'AppendSet'}) and bool(acts & {'Append', 'AppendSet'})


def execute(behaviours, d, timeout=900):
    stim = os.path.join(d, 'stim.json')
    trace = os.path.join(d, 'trace.ndjson')
    core.write_json(stim, {'behaviours': behaviours})
    if os.environ.get('VERIF_KEEP'):
        core.log('stimuli at', stim)
    rc, out, wall = core.go_test('server/commitlog', '^TestVerifCommitLog$',
                                 {'VERIF_STIMULI': stim, 'VERIF_TRACE_OUT': trace}, timeout=timeout, subs=['c01'])
    if rc != 0 or not os.path.exists(trace):
        raise core.Inconclusive('harness failed rc=%s: %s' % (rc, out[-3000:]))
    return trace


def judge(rep, behaviours, trace, prop='C01', names=None):
    res = core.tlc_trace('Trace_CommitLog.tla', 'Trace_CommitLog.cfg', trace)
    by_id = {b['id']: b for b in behaviours}
    bad = {}
    drifting = []
    for kind, tid, line, action, name in res['fails']:
        if kind == 'I':
            rep.drift({'behaviour': tid, 'line': line, 'action': action, 'what': name})
            if by_id[tid] not in drifting:
                drifting.append(by_id[tid])
            continue
        if names is not None and name not in names and name != 'step':
            continue
        bad.setdefault(tid, []).append((line, action, name))
    if drifting:
        core.write_json(os.path.join(core.BUILD, 'drift-%s.json' % prop), {'replay': {'behaviours': drifting[:20]}})
    for tid, fl in bad.items():
        fl.sort()
        line, action, name = fl[0]
        b = by_id[tid]
        sig = '%s|%s|%s|%s' % (prop, name, action, features(b))
        rep.classify(sig, 'first failing step: line %d action %s check %s' % (line, action, name),
                     {'behaviours': [b]})
    return res


def run(rep, tier, seed, replay):
    rng = random.Random(seed)
    if replay:
        behaviours = replay['replay']['behaviours']
        with core.scratch('c01') as d:
            trace = execute(behaviours, d)
            judge(rep, behaviours, trace)
        rep.cov['rule'] = 'replay of a saved stimulus'
        rep.cov['samples'] = behaviours[:1]
        return
    # 1. design check
    res = core.tlc_check('MC_CommitLog.tla', 'MC_CommitLog.cfg' if tier == 'quick' else 'MC_CommitLog_thorough.cfg',
                         timeout=3000, coverage=(tier == 'thorough'))
    rep.add_design('MC_CommitLog', res)
    # 2. behaviours from the specification
    num = 700 if tier == "quick" else 20000
    depth = 12 if tier == 'quick' else 16
    # a pool several times larger is simulated (cheap); the behaviours replayed are picked by the abstract
    # situations they cover (sim_features), the rest at random
    pool = core.tlc_simulate('MC_CommitLog.tla', 'Sim_CommitLog.cfg' if tier == 'quick' else 'Sim_CommitLog_thorough.cfg',
                             num * (6 if tier == 'quick' else 2), depth, seed, timeout=3000)
    # + the scenario family "a reader lives through changes of the log" (MC_CommitLogFam.tla)
    pool += core.tlc_simulate('MC_CommitLogFam.tla', 'Sim_CommitLogFam.cfg' if tier == 'quick' else 'Sim_CommitLogFam_thorough.cfg',
                              num * (3 if tier == 'quick' else 1), max(depth, 14), seed + 7, timeout=3000)
    sims, nfeat, guided = select(pool, num, rng)
    rep.cov['selection'] = {'pool': len(pool), 'selected': len(sims), 'picked_for_coverage': guided,
                            'situations_covered': nfeat}
    behaviours = [decorate(b, rng, i + 1) for i, b in enumerate(sims) if len(b) > 1]
    if True:
        ccfg = 'MC_CommitLog_cover.cfg' if tier == 'quick' else 'MC_CommitLog_cover_thorough.cfg'
        cov, covered, total, g = cover_behaviours(rng, 100001, ccfg)
        behaviours += cov
        rep.cov['transition_cover'] = {'config': ccfg, 'states': g['distinct'],
                                       'transitions': total, 'transitions_replayed': covered, 'behaviours': len(cov)}
        rep.cov['exhaustive'] = covered == total
    # 3. execute on the real code, 4. judge with TLC
    # in chunks: one harness process and one TLC trace validation per 12 000 behaviours
    lines = 0
    for i in range(0, len(behaviours), 12000):
        chunk = behaviours[i:i + 12000]
        with core.scratch('c01') as d:
            trace = execute(chunk, d, timeout=2400)
            tr = judge(rep, chunk, trace)
        lines += tr['validated']
    # the replicated path end to end: a leader packs its log into replication responses (records of two sizes,
    # so that responses are cut at different places), followers append what they receive; the offsets every
    # replica stores must be the consecutive run 0, 1, 2, ... (replica kit and Replication.tla of C02)
    b3, l3 = _repl.sizes_stage(rep, tier, seed, rng, 'C01', {'C01_ReplicaGapFree'}, quick_n=25)
    rep.cov['replicated_path_behaviours'] = len(b3)
    lines += l3
    rep.cov['traces_validated_against_impl'] = len(behaviours) + len(b3)
    rep.cov['trace_lines_validated'] = lines
    rep.cov['evaluations'] = len(behaviours)
    rep.cov['distinct_nontrivial'] = len({core.sha(b['steps']) for b in behaviours if nontrivial(b)})
    rep.cov['rule'] = ('behaviours = every transition of the small cover model (spanning tree + one path per edge) + TLC '
                       'simulation of MC_CommitLog (seeded), all decorated with payload classes; '
                       'non-trivial = contains an append and at least one of truncate/reopen/replicated append; '
                       'distinct by hash of the step list')
    rep.cov['samples'] = behaviours[:2]
    rep.assumptions += ['single appender (lock-step driver)', 'TLC 1.8.0 evaluates the TLA+ predicates correctly']
