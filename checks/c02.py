"""C02 - committed messages survive leader changes; replicas never diverge below the HW.

spec/Replication.tla (+ MC_Replication, Probe_Replication_*, Trace_Replication); harness/server/c02/kit_verif_test.go
"""
import random

from vf import core
from . import _repl

META = {
    'property_id': 'C02',
    'confirm_by_replay': True,   # bin/check re-executes the stimulus of every violation before it is reported
    'level': 'model_checking',
    'technique': 'TLA+ spec (Replication.tla) of publish/fetch/commit/ISR change/crash/restart/election checked exhaustively '
                 'by TLC with ghost taints for known defects; TLC behaviours and counterexamples replayed on three real '
                 'liftbridge servers (replica kit: harness plays the Raft log, follower fetches gated); recorded replica '
                 'states judged by TLC (trace validation)',
    'level_text': 'TLC enumerates every interleaving of publish, follower fetch (1-2 records), commit, lag expiry, ISR shrink/'
                  'expand, process crash, restart with log reconciliation (leader answer or HW fallback) and election '
                  '(candidate up or down) for 3 replicas within small bounds; the invariants CommittedSurvives and '
                  'NoDivergence hold in every state not tainted by one of the recorded defects, and each defect is shown '
                  'reachable. The same behaviours (TLC counterexamples for every known defect plus seeded simulations) are '
                  'executed on three real servers over real commit logs and NATS, and TLC re-evaluates the same invariants '
                  'on every recorded real state while comparing each recorded variable with the specified action (drift).',
    'level_note': 'Controller decisions (which op is committed when) are played by the harness; Raft itself is trusted; NATS '
                  'delivery is trusted except for replication responses (lost: FetchLost; delivered late - after a leader '
                  'change, a crash, pause/resume: FetchHold / Deliver); a leader change may reach followers later than the '
                  'new leader (StaleFetch / ApplyMeta), other metadata ops are applied to all live replicas in one step; '
                  'process-crash model (HW file = last checkpoint, log data kept); health timers replaced by '
                  'explicit steps. Bounds: design check 2 messages x 2 elections x 2 crashes x 2 ISR ops (quick), deeper in '
                  'thorough; behaviours <= 16 steps.',
    'design_ref': 'DESIGN.md section 6/C02',
}

NAMES = {'C02_CommittedSurvives', 'C02_NoDivergence', 'C02_HWBacked', 'HWMonotoneWhileUp', 'C01_ReplicaGapFree'}


def relevant(b):
    acts = [s['a'] for s in b['steps']]
    return ('Elect' in acts or 'Restart' in acts) and 'Publish' in acts


def run(rep, tier, seed, replay):
    _repl.run(rep, tier, seed, replay, 'C02', NAMES, relevant,
              'non-trivial = contains a publish and at least one election or restart (log reconciliation)')
