"""C11 - a cursor fetch returns the last cursor that was stored.

spec/Cursors.tla (+ MC_Cursors, Trace_Cursors); harness/server/c11/c11_verif_test.go
"""
import os
import random

from vf import core

META = {
    'property_id': 'C11',
    'level': 'model_checking',
    'technique': 'TLA+ spec (Cursors.tla: compacted cursor log + LRU cache + lock/scan/fill steps of SetCursor and '
                 'FetchCursor) checked exhaustively by TLC; TLC-generated behaviours replayed on the real cursor '
                 'manager of a one-node server; every recorded call judged by TLC against a register per key '
                 '(trace validation)',
    'level_text': 'TLC enumerates every interleaving of SetCursor, complete FetchCursor and FetchCursor split at the '
                  'point between its log scan and its cache fill (two clients), over three cursor keys with a 2-entry '
                  'LRU or the cache switched off, with segment rolls and cleans of the cursors partition, pause/resume '
                  'and restart, SetCursor calls that fail with their record left uncommitted in the log, and cleans split in '
                  'their two steps (compaction on a snapshot, then the segment swap) with sets and segment rolls in between, '
                  'and proves that every fetch returns the last successful set (or a set that overlapped '
                  'it). Simulated deeper behaviours of the same specification are executed on the real server '
                  '(apiServer.SetCursor/FetchCursor, __cursors with 2-entry segments and compaction, LRU shrunk to 2, '
                  'log.Clean(), the partition\'s own requestPause(), Server.Stop()/restart over the same data '
                  'directory) and every recorded result and projected state is re-judged by TLC.',
    'level_note': 'One-node server: the cursors-partition leader change on a 3-node cluster is not exercised; the '
                  'purge on becoming leader is exercised through pause/resume (conformance level). Overlap of calls is '
                  'driven through the verif gate cursors.fetch.scanned (SetCursor calls never overlap each other). '
                  'Bounds: design quick <= 4 sets (2 failed) / 6 steps / 2 faults, thorough <= 4 sets / 7 steps, two splitting clients; '
                  'replayed behaviours <= 16 steps.',
    'design_ref': 'DESIGN.md section 6/C11',
}


def decorate(beh, bid):
    cache_on = core.tlaval.state_var(beh[0]['body'], 'cacheOn')
    steps = []
    for st in beh[1:]:
        a = dict(st['last'])
        steps.append(a)
    return {'id': bid, 'cfg': {'cap': 2, 'segCap': 2, 'cacheOn': bool(cache_on)}, 'steps': steps}


def limit_restarts(behaviours, keep):
    """restarting the server costs ~3 s: keep the Restart steps of the first `keep` behaviours that have one"""
    n = 0
    for b in behaviours:
        if any(s['a'] == 'Restart' for s in b['steps']):
            n += 1
            if n > keep:
                b['steps'] = [s for s in b['steps'] if s['a'] != 'Restart']
    return behaviours


def overlap(b):
    """a SetCursor runs while a FetchCursor is between its scan and its cache fill"""
    open_ = set()
    for s in b['steps']:
        if s['a'] == 'FetchBegin':
            open_.add(s['c'])
        elif s['a'] == 'FetchEnd':
            open_.discard(s['c'])
        elif s['a'] == 'Set' and open_:
            return True
    return False


def clean_window_sets(b):
    """SetCursor calls (appends, possibly segment rolls) between the two steps of a clean"""
    n, inside = 0, False
    for s in b['steps']:
        if s['a'] == 'CleanBegin':
            inside = True
        elif s['a'] == 'CleanEnd':
            inside = False
        elif inside and s['a'] in ('Set', 'SetFail'):
            n += 1
    return n


def nontrivial(b):
    acts = [s['a'] for s in b['steps']]
    return 'Set' in acts and any(a.startswith('Fetch') for a in acts) and \
        (overlap(b) or any(a in ('Clean', 'CleanBegin', 'SetFail', 'Pause', 'Restart') for a in acts))


def execute(behaviours, d, timeout=2400):
    stim = os.path.join(d, 'stim.json')
    trace = os.path.join(d, 'trace.ndjson')
    core.write_json(stim, {'behaviours': behaviours})
    rc, out, wall = core.go_test('server', '^TestVerifCursors$',
                                 {'VERIF_STIMULI': stim, 'VERIF_TRACE_OUT': trace}, timeout=timeout, subs=['c11'])
    if rc != 0 or not os.path.exists(trace):
        raise core.Inconclusive('harness failed rc=%s: %s' % (rc, out[-3000:]))
    return trace


def judge(rep, behaviours, trace):
    events = core.read_ndjson(trace)
    for e in events:
        if e['a'] == 'Pause' and e['obs']['err'] != '':
            raise core.Inconclusive('%s failed in behaviour %s: %s' % (e['a'], e['t'], e['obs']['err']))
        # (a SetCursor that fails is judged: its record may stay uncommitted in the log - "SetFail")
    res = core.tlc_trace('Trace_Cursors.tla', 'Trace_Cursors.cfg', trace, timeout=1800)
    by_id = {b['id']: b for b in behaviours}
    first_line = {}
    for i, e in enumerate(events):
        first_line.setdefault(e['t'], i + 1)
    seen = set()
    for kind, tid, line, action, name in sorted(res['fails'], key=lambda f: (f[1], f[2])):
        ev = events[line - 1]
        if kind == 'I':
            rep.drift({'behaviour': tid, 'line': line, 'action': action, 'what': name,
                       'event': {k: ev[k] for k in ('a', 'args', 'obs')}})
            continue
        b = by_id[tid]
        idx = line - first_line[tid] - 1          # index of the failing step
        # is a clean of the cursors partition between its two steps at that moment?
        inside = False
        for s in b['steps'][:idx]:
            if s['a'] == 'CleanBegin':
                inside = True
            elif s['a'] == 'CleanEnd':
                inside = False
        cls = 'cleaning' if inside else ('overlap' if overlap(b) else 'seq')
        what = 'err=' + ev['obs']['err'] if ev['obs']['err'] not in ('', 'done', 'pending') else 'value'
        sig = 'C11|%s|%s|%s|%s' % (name, action, cls, what)
        if (tid, sig) in seen:
            continue
        seen.add((tid, sig))
        # replay = the behaviour up to and including the failing step
        rep.classify(sig, 'failing step: line %d %s args %s returned %s' % (line, action, ev['args'], ev['obs']),
                     {'behaviours': [dict(b, steps=b['steps'][:idx + 1])]})
    return res


def run(rep, tier, seed, replay):
    if replay:
        behaviours = replay['replay']['behaviours']
        with core.scratch('c11') as d:
            trace = execute(behaviours, d)
            judge(rep, behaviours, trace)
        rep.cov['rule'] = 'replay of a saved stimulus'
        rep.cov['samples'] = behaviours[:1]
        return
    res = core.tlc_check('MC_Cursors.tla', 'MC_Cursors.cfg' if tier == 'quick' else 'MC_Cursors_thorough.cfg',
                         timeout=3000, coverage=(tier == 'thorough'))
    rep.add_design('MC_Cursors', res)
    num = 260 if tier == 'quick' else 4000
    sims = core.tlc_simulate('MC_Cursors.tla', 'Sim_Cursors.cfg', num, 16, seed)
    behaviours = [decorate(b, i + 1) for i, b in enumerate(sims) if len(b) > 1]
    behaviours = limit_restarts(behaviours, 10 if tier == 'quick' else 150)
    with core.scratch('c11') as d:
        trace = execute(behaviours, d)
        tr = judge(rep, behaviours, trace)
    rep.cov['traces_validated_against_impl'] = len(behaviours)
    rep.cov['trace_lines_validated'] = tr['validated']
    rep.cov['evaluations'] = len(behaviours)
    rep.cov['distinct_nontrivial'] = len({core.sha([b['cfg'], b['steps']]) for b in behaviours if nontrivial(b)})
    rep.cov['overlapping_histories'] = len({core.sha(b['steps']) for b in behaviours if overlap(b)})
    rep.cov['rolls_during_clean'] = sum(1 for b in behaviours if clean_window_sets(b))
    rep.cov['failed_sets'] = sum(1 for b in behaviours for s in b['steps'] if s['a'] == 'SetFail')
    rep.cov['fetches_judged'] = sum(1 for b in behaviours for s in b['steps'] if s['a'] in ('Fetch', 'FetchEnd', 'FetchBegin'))
    rep.cov['rule'] = ('behaviours = TLC simulation of MC_Cursors (seeded, <= 16 steps, 3 keys, 2 clients, cache on/off); '
                       'non-trivial = has a set and a fetch and (a set overlapping a split fetch, or a clean / pause / '
                       'restart); distinct by hash of (cache mode, step list)')
    rep.cov['samples'] = behaviours[:2]
    rep.assumptions += ['SetCursor calls do not overlap each other', 'one-node server (no cursors-partition leader change)',
                        'TLC evaluates the TLA+ predicates correctly']
