"""C11 - a cursor fetch returns the last cursor that was stored.

spec/Cursors.tla (+ MC_Cursors, Trace_Cursors); harness/server/c11/c11_verif_test.go
"""
import os
import random

from vf import core

META = {
    'property_id': 'C11',
    'confirm_by_replay': True,   # bin/check re-executes the stimulus of every violation before it is reported
    'level': 'model_checking',
    'technique': 'TLA+ spec (Cursors.tla: compacted cursor log + LRU cache + lock/scan/fill steps of SetCursor and '
                 'FetchCursor) checked exhaustively by TLC; TLC-generated behaviours replayed on the real cursor '
                 'manager of a one-node server; every recorded call judged by TLC against a register per key '
                 '(trace validation)',
    'level_text': 'TLC enumerates every interleaving of SetCursor, complete FetchCursor and FetchCursor split at the '
                  'point between its log scan and its cache fill (two clients), over three cursor keys with a 2-entry '
                  'LRU or the cache switched off, with segment rolls and cleans of the cursors partition, pause/resume '
                  'and restart, SetCursor calls that fail with their record left uncommitted in the log, and cleans split in '
                  'their two steps (compaction on a snapshot, then the segment swap) with sets and segment rolls in between, '
                  'segment rolls by the cleaner tick (empty active segment), 1-3 entries per segment, and - in a second '
                  'configuration - leader changes of the cursors partition between two servers that each keep their own cache, '
                  'and proves that every fetch returns the last successful set (or a set that overlapped '
                  'it). Simulated deeper behaviours of the same specification are executed on the real server '
                  '(apiServer.SetCursor/FetchCursor, __cursors with 2-entry segments and compaction, LRU shrunk to 2, '
                  'log.Clean(), the partition\'s own requestPause(), Server.Stop()/restart over the same data '
                  'directory) and every recorded result and projected state is re-judged by TLC.',
    'level_note': 'One-node server plus a two-server cluster (the second server a Raft non-voter) in which the cursors '
                  'partition is replicated and changes its leader between live servers with a caught-up follower and '
                  'nothing in flight; a leader change with an uncommitted tail, inside a clean window or with a split '
                  'fetch pending is not exercised. Overlap of calls is '
                  'driven through the verif gate cursors.fetch.scanned (SetCursor calls never overlap each other). '
                  'Bounds: design quick <= 4 sets (2 failed) / 6 steps / 2 faults, thorough <= 4 sets / 7 steps, two splitting clients; '
                  'replayed behaviours <= 16 steps.',
    'design_ref': 'DESIGN.md section 6/C11',
}


GOROUTINES = (1, 2, 3, 4, 10)


def decorate(beh, bid, rng):
    """a simulated behaviour as a stimulus; the per-behaviour configuration is what TLC chose in Init (cache on/off,
    entries per segment) plus parameters the specification does not depend on, so they must not matter: the
    number of goroutines a compaction scans the keys with"""
    cache_on = core.tlaval.state_var(beh[0]['body'], 'cacheOn')
    seg_cap = core.tlaval.state_var(beh[0]['body'], 'segCap')
    steps = []
    for st in beh[1:]:
        a = dict(st['last'])
        steps.append(a)
    return {'id': bid, 'cfg': {'cap': 2, 'segCap': int(seg_cap), 'cacheOn': bool(cache_on), 'g': rng.choice(GOROUTINES)},
            'steps': steps}


def situations(beh, b):
    """situation features of a simulated behaviour, computed from TLC's states: which layout of the cursors log a
    cache-miss fetch scans (where the HW lies, whether that segment was compacted and how, where the key is found,
    clean window open) and what a clean finds (segments vs scanning goroutines, something to remove)"""
    sv = core.tlaval.state_var
    feats = set()
    paused_before, stale_keys, hands = False, set(), 0
    for i, st in enumerate(b['steps']):
        pre = beh[i]['body']
        a = st['a']
        if a == 'Pause':
            paused_before = True
        if a == 'Handover':
            # what the server that takes over still has in its cache from an earlier term
            cur = sv(pre, 'cur')
            stale_keys = {e['key'] for e in (sv(pre, 'ocache') or []) if cur[e['key']] != e['val']}
            hands += 1
            feats.add(('handover', min(hands, 3), 'stale' if stale_keys else 'fresh', 'paused-before' if paused_before else '-',
                       'cache' if b['cfg']['cacheOn'] else 'nocache'))
        if a == 'Set':
            stale_keys.discard(st['k'])
        if a in ('Fetch', 'FetchBegin') and hands:
            feats.add(('fetch-after-handover', 'stale-key' if st['k'] in stale_keys else '-',
                       'paused-before' if paused_before else '-', 'cache' if b['cfg']['cacheOn'] else 'nocache'))
        if a == 'FetchOther':
            feats.add(('fetch-other', min(hands, 2)))
        if a in ('Fetch', 'FetchBegin'):
            cache = sv(pre, 'cache') or []
            if b['cfg']['cacheOn'] and any(e['key'] == st['k'] for e in cache):
                continue
            clog, segs, hw = sv(pre, 'clog') or [], sv(pre, 'segs'), sv(pre, 'hw')
            cln, paused = sv(pre, 'cln'), sv(pre, 'paused')
            if hw < 0:
                feats.add(('scan', 'empty'))
                continue
            si = max(j for j in range(len(segs)) if segs[j] <= hw)
            lo, hi = segs[si], (segs[si + 1] if si + 1 < len(segs) else 1 << 30)
            offs = [e['off'] for e in clog if lo <= e['off'] < hi and e['off'] <= hw]
            holes = len(offs) < hw - lo + 1
            shape = 'dense' if not holes else ('head' if lo in offs else 'nohead')
            where = [e['off'] for e in clog if e['key'] == st['k'] and e['off'] <= hw]
            found = 'none' if not where else ('same' if max(where) >= lo else 'below')
            feats.add(('scan', 'active' if si == len(segs) - 1 else 'sealed', shape, found,
                       'window' if cln['on'] else '-', 'paused' if paused else '-'))
        elif a in ('Clean', 'CleanBegin'):
            segs, g = sv(pre, 'segs'), b['cfg']['g']
            n = len(segs)
            feats.add(('clean', 'more' if n > g else 'fewer', n % g if n > g else 0))
        elif a == 'Roll':
            feats.add(('roll', 'window' if sv(pre, 'cln')['on'] else '-'))
    return feats


def select(pool, sims, budget, per_feature, rng):
    """the subset of the simulated pool that is replayed: every situation feature `per_feature` times (greedy, in
    pool order), filled up to the budget in pool order"""
    count, chosen, rest, feats_of = {}, [], [], {}
    for beh, b in zip(sims, pool):
        fs = situations(beh, b)
        feats_of[b['id']] = fs
        if any(count.get(f, 0) < per_feature for f in fs):
            chosen.append(b)
            for f in fs:
                count[f] = count.get(f, 0) + 1
        else:
            rest.append(b)
    chosen += rest[:max(0, budget - len(chosen))]
    chosen.sort(key=lambda b: b['id'])
    covered = {}
    for b in chosen:
        for f in feats_of[b['id']]:
            covered[f] = covered.get(f, 0) + 1
    return chosen, covered


def limit_restarts(behaviours, keep):
    """restarting the server costs ~3 s: keep the Restart steps of the first `keep` behaviours that have one"""
    n = 0
    for b in behaviours:
        if any(s['a'] == 'Restart' for s in b['steps']):
            n += 1
            if n > keep:
                b['steps'] = [s for s in b['steps'] if s['a'] != 'Restart']
    return behaviours


def overlap(b):
    """a SetCursor runs while a FetchCursor is between its scan and its cache fill"""
    open_ = set()
    for s in b['steps']:
        if s['a'] == 'FetchBegin':
            open_.add(s['c'])
        elif s['a'] == 'FetchEnd':
            open_.discard(s['c'])
        elif s['a'] == 'Set' and open_:
            return True
    return False


def clean_window_sets(b):
    """SetCursor calls (appends, possibly segment rolls) between the two steps of a clean"""
    n, inside = 0, False
    for s in b['steps']:
        if s['a'] == 'CleanBegin':
            inside = True
        elif s['a'] == 'CleanEnd':
            inside = False
        elif inside and s['a'] in ('Set', 'SetFail'):
            n += 1
    return n


def nontrivial(b):
    acts = [s['a'] for s in b['steps']]
    return 'Set' in acts and any(a.startswith('Fetch') for a in acts) and \
        (overlap(b) or any(a in ('Clean', 'CleanBegin', 'SetFail', 'Pause', 'Restart') for a in acts))


def go_test(env_extra, d, timeout):
    """core.go_test for package server with one more file in the overlay: a harness-only export in package
    commitlog (the split check of the cleaner loop, which package server cannot reach otherwise)"""
    import json
    ov = core.make_overlay(d, 'server', ['c11'])
    with open(ov) as fh:
        rep = json.load(fh)
    rep['Replace'][os.path.join(core.REPO, 'server', 'commitlog', 'zz_c11_export_verif.go')] = \
        os.path.join(core.HARNESS, 'server', 'c11', 'export', 'commitlog_tick.go')
    with open(ov, 'w') as fh:
        json.dump(rep, fh)
    env = core.go_env()
    tmp = os.path.join(d, 'tmp')
    os.makedirs(tmp, exist_ok=True)
    env['TMPDIR'] = tmp
    env.update(env_extra)
    cmd = ['go', 'test', '-tags', 'verif', '-overlay', ov, '-vet=off', '-count=1', '-timeout', '%ds' % timeout,
           '-run', '^TestVerifCursors$', './server']
    return core._run(cmd, core.REPO, env, timeout + 60)


def execute(behaviours, d, timeout=900, servers=1):
    stim = os.path.join(d, 'stim%d.json' % servers)
    trace = os.path.join(d, 'trace%d.ndjson' % servers)
    core.write_json(stim, {'behaviours': behaviours})
    rc, out, wall = go_test({'VERIF_STIMULI': stim, 'VERIF_TRACE_OUT': trace, 'VERIF_C11_SERVERS': str(servers)}, d, timeout)
    if rc != 0 or not os.path.exists(trace):
        raise core.Inconclusive('harness failed rc=%s: %s' % (rc, out[-3000:]))
    return trace


def judge(rep, behaviours, trace, servers=1):
    events = core.read_ndjson(trace)
    for e in events:
        if e['a'] == 'Pause' and e['obs']['err'] != '':
            raise core.Inconclusive('%s failed in behaviour %s: %s' % (e['a'], e['t'], e['obs']['err']))
        # (a SetCursor that fails is judged: its record may stay uncommitted in the log - "SetFail")
    res = core.tlc_trace('Trace_Cursors.tla', 'Trace_Cursors.cfg', trace, timeout=1800)
    by_id = {b['id']: b for b in behaviours}
    first_line = {}
    for i, e in enumerate(events):
        first_line.setdefault(e['t'], i + 1)
    seen = set()
    for kind, tid, line, action, name in sorted(res['fails'], key=lambda f: (f[1], f[2])):
        ev = events[line - 1]
        if kind == 'I':
            rep.drift({'behaviour': tid, 'line': line, 'action': action, 'what': name,
                       'event': {k: ev[k] for k in ('a', 'args', 'obs')}})
            continue
        b = by_id[tid]
        idx = line - first_line[tid] - 1          # index of the failing step
        # is a clean of the cursors partition between its two steps at that moment?
        inside = False
        for s in b['steps'][:idx]:
            if s['a'] == 'CleanBegin':
                inside = True
            elif s['a'] == 'CleanEnd':
                inside = False
        cls = 'cleaning' if inside else ('overlap' if overlap(b) else 'seq')
        what = 'err=' + ev['obs']['err'] if ev['obs']['err'] not in ('', 'done', 'pending') else 'value'
        if servers > 1 and any(s['a'] == 'Handover' for s in b['steps'][:idx]):
            cls = 'handover' if cls == 'seq' else cls
        sig = 'C11|%s|%s|%s|%s' % (name, action, cls, what)
        if (tid, sig) in seen:
            continue
        seen.add((tid, sig))
        # replay = the behaviour up to and including the failing step
        rep.classify(sig, 'failing step: line %d %s args %s returned %s' % (line, action, ev['args'], ev['obs']),
                     {'behaviours': [dict(b, steps=b['steps'][:idx + 1])], 'servers': servers})
    return res


def run(rep, tier, seed, replay):
    if replay:
        behaviours = replay['replay']['behaviours']
        servers = replay['replay'].get('servers', 1)
        with core.scratch('c11') as d:
            trace = execute(behaviours, d, servers=servers)
            judge(rep, behaviours, trace, servers)
        rep.cov['rule'] = 'replay of a saved stimulus'
        rep.cov['samples'] = behaviours[:1]
        return
    if not os.environ.get('VERIF_C11_NODESIGN'):       # (development only: skip the design check)
        res = core.tlc_check('MC_Cursors.tla', 'MC_Cursors.cfg' if tier == 'quick' else 'MC_Cursors_thorough.cfg',
                             timeout=3000, coverage=(tier == 'thorough'))
        rep.add_design('MC_Cursors', res)
    num, budget = (1200, 280) if tier == 'quick' else (4000, 1500)
    # pool: free random walks plus the phase-scheduled family (writes, then a clean, then anything)
    free = [b for b in core.tlc_simulate('MC_Cursors.tla', 'Sim_Cursors.cfg', num, 16, seed) if len(b) > 1]
    fam = [b for b in core.tlc_simulate('MC_Cursors.tla', 'Sim_Cursors_fam.cfg', num, 16, seed) if len(b) > 6]
    sims = [b for pair in zip(free, fam) for b in pair] + free[len(fam):] + fam[len(free):]
    rng = random.Random(seed)
    pool = [decorate(b, i + 1, rng) for i, b in enumerate(sims)]
    behaviours, covered = select(pool, sims, budget, 3, rng)
    rep.cov['situations_covered'] = len(covered)
    rep.cov['situations'] = {' '.join(str(x) for x in f): n for f, n in sorted(covered.items(), key=str)}
    behaviours = limit_restarts(behaviours, 10 if tier == 'quick' else 150)
    with core.scratch('c11') as d:
        trace = execute(behaviours, d, timeout=900 if tier == 'quick' else 2700)
        tr = judge(rep, behaviours, trace)
    # two servers replicating the cursors partition: leader changes between live servers
    if not os.environ.get('VERIF_C11_NODESIGN'):
        res = core.tlc_check('MC_Cursors.tla', 'MC_Cursors_two.cfg' if tier == 'quick' else 'MC_Cursors_two_thorough.cfg',
                             timeout=1500, coverage=(tier == 'thorough'))
        rep.add_design('MC_Cursors_two', res)
        # an action is "never taken" only when neither configuration takes it (leader changes belong to the two-server
        # configuration, restarts to the one-server configuration)
        zero = {}
        for z in rep.cov['coverage_zero_actions']:
            cfg, name = z.split(':', 1)
            zero.setdefault(name, set()).add(cfg)
        rep.cov['coverage_zero_actions'] = sorted(n for n, c in zero.items() if len(c) == 2)
    num2, budget2 = (500, 90) if tier == 'quick' else (2000, 400)
    free2 = [b for b in core.tlc_simulate('MC_Cursors.tla', 'Sim_Cursors_two.cfg', num2, 16, seed) if len(b) > 1]
    fam2 = [b for b in core.tlc_simulate('MC_Cursors.tla', 'Sim_Cursors_hand.cfg', num2, 16, seed) if len(b) > 7]
    sims2 = [b for pair in zip(free2, fam2) for b in pair] + free2[len(fam2):] + fam2[len(free2):]
    pool2 = [decorate(b, 100001 + i, rng) for i, b in enumerate(sims2)]
    pool2 = [b for b in pool2 if any(s['a'] == 'Handover' for s in b['steps'])]
    ids2 = {b['id'] for b in pool2}
    sims2 = [s_ for i, s_ in enumerate(sims2) if 100001 + i in ids2]
    behaviours2, covered2 = select(pool2, sims2, budget2, 3, rng)
    with core.scratch('c11') as d:
        trace2 = execute(behaviours2, d, timeout=900 if tier == 'quick' else 2700, servers=2)
        tr2 = judge(rep, behaviours2, trace2, 2)
    rep.cov['situations'].update({' '.join(str(x) for x in f): n for f, n in sorted(covered2.items(), key=str)})
    rep.cov['situations_covered'] = len(rep.cov['situations'])
    rep.cov['two_server_behaviours'] = len(behaviours2)
    rep.cov['leader_changes'] = sum(1 for b in behaviours2 for s in b['steps'] if s['a'] == 'Handover')
    behaviours = behaviours + behaviours2
    rep.cov['traces_validated_against_impl'] = len(behaviours)
    rep.cov['trace_lines_validated'] = tr['validated'] + tr2['validated']
    rep.cov['evaluations'] = len(behaviours)
    rep.cov['distinct_nontrivial'] = len({core.sha([b['cfg'], b['steps']]) for b in behaviours if nontrivial(b)})
    rep.cov['overlapping_histories'] = len({core.sha(b['steps']) for b in behaviours if overlap(b)})
    rep.cov['rolls_during_clean'] = sum(1 for b in behaviours if clean_window_sets(b))
    rep.cov['failed_sets'] = sum(1 for b in behaviours for s in b['steps'] if s['a'] == 'SetFail')
    rep.cov['fetches_judged'] = sum(1 for b in behaviours for s in b['steps'] if s['a'] in ('Fetch', 'FetchEnd', 'FetchBegin'))
    rep.cov['rule'] = ('behaviours = TLC simulation of MC_Cursors (seeded, <= 16 steps, 3 keys, 2 clients, cache on/off); '
                       'non-trivial = has a set and a fetch and (a set overlapping a split fetch, or a clean / pause / '
                       'restart); distinct by hash of (cache mode, step list)')
    rep.cov['samples'] = behaviours[:2]
    rep.assumptions += ['SetCursor calls do not overlap each other',
                        'leader changes of the cursors partition happen with a caught-up follower and nothing in flight',
                        'TLC evaluates the TLA+ predicates correctly']
