"""C04 - acknowledgements mean what the ack policy says.

spec/Replication.tla (C04_AcksOK, C04_NackedNeverStored); shares the replica kit and trace spec with C02.
"""
from . import _repl

META = {
    'property_id': 'C04',
    'confirm_by_replay': True,   # bin/check re-executes the stimulus of every violation before it is reported
    'level': 'model_checking',
    'technique': 'TLA+ spec (Replication.tla) with the ack rules as action property C04_AcksOK, checked exhaustively by TLC; '
                 'TLC behaviours with mixed ack policies replayed on three real servers (replica kit) and on a '
                 'replication-factor-1 server; acks received over NATS and replica logs judged by TLC (trace validation)',
    'level_text': 'TLC enumerates publishes with ALL/LEADER/NONE policies, follower progress reports in any order, ISR '
                  'shrink/expand, crashes and elections for 3 replicas (min ISR 2) and proves on the specification that an '
                  'ALL ack is only emitted when every in-sync member holds the record and the set is large enough (in '
                  'states untainted by recorded defects). The same behaviours run on real servers; every ack that arrives '
                  'on the publisher inbox is checked by TLC against the recorded logs of all replicas at that step: '
                  'offset holds exactly that record, ALL => every ISR member has it and |ISR| >= minISR, NONE => no ack, '
                  'rejected (too large) => negative ack and never stored.',
    'level_note': 'Acks are observed after the step has quiesced (the commit loop and NATS delivery are asynchronous); ISR '
                  'changes only happen as separate harness steps, so the ISR at observation equals the ISR at emission. '
                  'Encryption-failure nacks are not driven (no failing codec available); too-large nacks are. '
                  'Batches of one or two messages. The minimum ISR reaches the partition through the server setting, a '
                  'hand-built stream override or the override as the API translates a CreateStream request (incl. a '
                  'minimum above the replication factor on the RF=1 path).',
    'design_ref': 'DESIGN.md section 6/C04',
}

NAMES = {'C04_AcksOK', 'C04_NackedNeverStored', 'C04_NoSpuriousNack'}


def relevant(b):
    pols = {r['pol'] for s in b['steps'] if s['a'] == 'Publish' for r in s['recs']}
    acts = {s['a'] for s in b['steps']}
    return len(pols) >= 2 or ('ALL' in pols and bool(acts & {'Shrink', 'Expand', 'Elect'}))


def run(rep, tier, seed, replay):
    _repl.run(rep, tier, seed, replay, 'C04', NAMES, relevant,
              'non-trivial = publishes with at least two different ack policies, or an ALL publish together with an ISR change or election',
              rf1=True, mc_quick='MC_Replication_acks.cfg')
