"""X03 (additional check, not a listed property) - the replication loop makes progress and detects a dead leader.

spec/ReplLoop.tla (+ MC_ReplLoop, Trace_ReplLoop); harness/server/x03/x03_verif_test.go on the replica kit of C02
"""
import concurrent.futures
import json
import os
import random
import re

from vf import core, graph

META = {
    'property_id': 'X03',
    'level': 'model_checking',
    'technique': 'pc-level TLA+ spec of the replication loop of one partition (follower request loop, leader request '
                 'handler / request channel / replicator, data waiter + notifier goroutine, partition notification, '
                 'idle wait, fetch timeout, leader-failure detection and ReportLeader, leader epoch change at the '
                 'leader and - later - at each follower, leader death / silence) checked exhaustively by TLC: safety, '
                 'and liveness under fairness of the protocol steps only (no lost wake-up: no timer is needed) resp. '
                 'with time passing (a dead leader is reported).  TLC behaviours (simulated pool selected by situation '
                 'features, transition cover of a small instance, counterexample of a defective variant) are replayed '
                 'gate to gate on three real servers of the replica kit; every recorded step is judged by TLC',
    'level_text': 'TLC enumerates every interleaving of the pc-level steps of the follower loops, the replicators, the '
                  'notifier goroutines, appends, epoch changes, timeouts, ticks, leader death / silence within the '
                  'bounds and proves: followers store the leader\'s records once and in order; a response of another '
                  'epoch is dropped; a registered waiter waits for the current log end; an idle follower is only parked '
                  'caught up with a waiter registered (no lost wake-up); every record reaches every follower and the HW '
                  'follows without any timer firing; a dead or silent leader is reported with exactly the epoch the '
                  'follower follows, and only after an unanswered request with the timeout expired.  The same '
                  'behaviours run on the real servers, parked and released at gates in TLC\'s order, and every real '
                  'state is re-judged by TLC.',
    'level_note': 'One partition, leader a, followers b and c (replication factor 3, so that a single report never '
                  'triggers an election); records of one size, one record per response.  The commit loop is folded '
                  'into the step that signals it (the driver lets it settle).  ReplicaFetchTimeout 500 ms and '
                  'ReplicaMaxLeaderTimeout 300 ms are real: the clock decides what the loop must / may have seen '
                  '(yes / no / maybe), a request that times out because the machine is slow is recorded as the step it '
                  'is.  ReplicaMaxIdleWait is hours; its end is played by a token on the channel the same select reads.',
    'design_ref': 'design_notes/X03.md',
}

FOLLOWERS = ['b', 'c']


def label_step(last):
    a = dict(last)
    return a


def cost(steps):
    c = 0.25
    up, mute = True, False
    for s in steps:
        if s['a'] == 'Tick':
            c += 0.35
        elif s['a'] == 'FTimeout':
            c += 0.5
        elif s['a'] in ('Kill',):
            up = False
            c += 0.05
        elif s['a'] == 'Mute':
            mute = True
        elif s['a'] == 'Append':
            c += 0.03
        else:
            c += 0.01
    if mute and up:
        c += 1.0      # the drain waits for the timeouts of unanswered requests
    return c


_state_re = re.compile(r'^State \d+: <(.*?)>\n(.*?)(?=^State \d+:|^\d+ states generated|^Back to state|\Z)', re.S | re.M)


def counterexample(out):
    steps = []
    for m in _state_re.finditer(out):
        last = core.tlaval.state_var(m.group(2), 'last')
        if last and last.get('a') != 'Open':
            steps.append(last)
    return steps


def features(beh):
    """situation features of a simulated behaviour: which step meets which situation (computed from TLC's
    states), and which steps follow each other at one follower"""
    feats = set()
    prev = None
    lastf = {}
    for st in beh:
        cur = core.tlaval.state_var(st['body'], 'st')
        a = st['last']
        if prev is not None and a and a.get('a') != 'Open':
            k = a['a']
            f = a.get('f')
            s = prev
            if k == 'FSend':
                ft = (k, s['up'], s['mute'], s['lp'][f]['e'] == s['ep'], s['rep'][f]['pc'], len(s['chq'][f]),
                      s['lp'][f]['late'], s['wtr'][f])
            elif k == 'LResp':
                r = s['rep'][f]
                caught = r['off'] >= r['lat']
                tgt = s['lp'][f] if r['w'] == 'cur' else s['zl'][f]
                ft = (k, caught, s['wtr'][f], r['lat'] == s['leo'], tgt['pc'] == 'await' and tgt['n'] == r['n'],
                      len(s['chq'][f]), s['leo'] - r['off'] if not caught else 0)
            elif k == 'FRecv':
                lp = s['lp'][f] if a['w'] == 'cur' else s['zl'][f]
                r = lp['resp']
                ft = (k, a['w'], r['e'] == s['fep'][f], r['to'] >= r['from'], r['hw'] > s['fhw'][f], s['tok'][f],
                      s['lp'][f]['pc'], cur['lp'][f]['pc'] if a['w'] == 'cur' else '-')
            elif k == 'FTimeout':
                ft = (k, s['lp'][f]['lost'], s['lp'][f]['late'], s['rep'][f]['pc'], len(s['chq'][f]), s['up'],
                      s['mute'])
            elif k == 'FIdle':
                ft = (k, s['tok'][f], s['wtr'][f], s['zn'][f], s['lp'][f]['tmo'], len(s['flog'][f]) - 1 == s['leo'])
            elif k in ('LNotify', 'LNotifyOld'):
                ft = (k, s['lp'][f]['pc'], s['tok'][f], s['fep'][f] == s['ep'], s['zl'][f]['pc'])
            elif k == 'IdleTimeout':
                ft = (k, s['wtr'][f], s['up'], s['mute'], len(s['flog'][f]) - 1 == s['leo'])
            elif k == 'Append':
                ft = (k, tuple(sorted((s['wtr'][x], s['lp'][x]['pc'], s['rep'][x]['pc']) for x in FOLLOWERS)), s['mute'])
            elif k == 'NewEpochL':
                ft = (k, tuple(sorted((s['wtr'][x], s['lp'][x]['pc'], s['zn'][x]) for x in FOLLOWERS)))
            elif k == 'NewEpochF':
                ft = (k, s['lp'][f]['pc'], s['tok'][f], s['ep'] - s['fep'][f], s['wtr'][f], s['zn'][f])
            elif k in ('Kill', 'Mute'):
                ft = (k, tuple(sorted((s['lp'][x]['pc'], s['rep'][x]['pc'], s['wtr'][x]) for x in FOLLOWERS)))
            elif k == 'Tick':
                ft = (k, s['lp'][f]['pc'], s['up'], s['mute'])
            else:
                ft = (k,)
            feats.add(ft)
            rp = cur['rp']
            if (rp.get('__set__') if isinstance(rp, dict) else rp):
                feats.add(('report', k, s['up'], s['mute'], s['lp'][f]['e'] == s['ep']))
            if f:
                feats.add(('2gram', lastf.get(f, 'Open'), k, a.get('w', 'cur')))
                lastf[f] = k
        prev = cur
    return feats


def select(pool, budget, rng, per_feature=2):
    pool = [beh for beh in pool if len(beh) > 1]
    try:
        with concurrent.futures.ProcessPoolExecutor(4) as ex:
            fsets = list(ex.map(features, pool, chunksize=50))
    except Exception:
        fsets = [features(beh) for beh in pool]
    items = [([s['last'] for s in beh[1:]], fs) for beh, fs in zip(pool, fsets)]
    rng.shuffle(items)
    allf = set()
    for steps, fs in items:
        allf |= fs
    seen, cand = {}, []
    for steps, fs in items:
        if any(seen.get(f, 0) < per_feature + 2 for f in fs):
            cand.append((steps, fs))
            for f in fs:
                seen[f] = seen.get(f, 0) + 1
    items = cand
    count, chosen, spent = {}, [], 0.0
    while True:
        best, bi = 0, None
        for i, (steps, fs) in enumerate(items):
            if steps is None:
                continue
            gain = sum(1 for f in fs if count.get(f, 0) < per_feature)
            score = gain / (0.3 + cost(steps))
            if gain and score > best:
                best, bi = score, i
        if bi is None:
            break
        steps, fs = items[bi]
        items[bi] = (None, fs)
        if spent + cost(steps) > budget:
            continue
        chosen.append(steps)
        spent += cost(steps)
        for f in fs:
            count[f] = count.get(f, 0) + 1
    covered = sum(1 for f in allf if count.get(f, 0) > 0)
    return chosen, covered, len(allf)


def to_stimulus(steps, bid, fm=1, we=0):
    return {'id': bid, 'cfg': {'drain': True, 'fetchMax': fm, 'wideEvery': we}, 'steps': [dict(s) for s in steps]}


def _go_run(args):
    behs, d, n, timeout = args
    stim = os.path.join(d, 'stim-%d.json' % n)
    trace = os.path.join(d, 'trace-%d.ndjson' % n)
    core.write_json(stim, {'behaviours': behs})
    rc, out, wall = core.go_test('server', '^TestVerifReplLoop$', {'VERIF_STIMULI': stim, 'VERIF_TRACE_OUT': trace},
                                 timeout=timeout, subs=['c02', 'x03'], extra_args=['-v'])
    lines = []
    if os.path.exists(trace):
        with open(trace) as fh:
            for raw in fh:
                if raw.endswith('\n') and raw.strip():
                    try:
                        lines.append(json.loads(raw))
                    except ValueError:
                        break
    return rc, out, wall, lines


def execute(behaviours, d, workers=4, timeout=900):
    """runs the behaviours on real replica kits (several processes).  A behaviour in which a step did not
    complete before its deadline is executed once more on its own: only if it stops at a step again, the
    missing progress stays in the trace as an observation (TLC judges it)."""
    execute.wall = 0
    execute.stuck_first = 0
    execute.dropped = 0
    chunks = [behaviours[i::workers] for i in range(workers)]
    chunks = [c for c in chunks if c]
    by_t = {}
    with concurrent.futures.ThreadPoolExecutor(len(chunks) or 1) as ex:
        results = list(ex.map(_go_run, [(c, d, i, timeout) for i, c in enumerate(chunks)]))
    stuck = []
    for n, ((rc, out, wall, lines), chunk) in enumerate(zip(results, chunks)):
        execute.wall = max(execute.wall, wall)
        if rc != 0 or 'VERIF-X03 behaviours=' not in out:
            # a process that died of the machine's load (connection timeouts ...): the behaviours it did not
            # finish are run once more, on their own
            core.log('harness process failed (rc=%s), repeating its unfinished behaviours: %s' % (rc, out[-300:]))
            done = {ln['t'] for ln in lines if ln['a'] == 'Quiet'}
            lines = [ln for ln in lines if ln['t'] in done]
            rest = [b for b in chunk if b['id'] not in done]
            rc, out, wall, more = _go_run((rest, d, 50 + n, timeout))
            execute.wall += wall
            if rc != 0 or 'VERIF-X03 behaviours=' not in out:
                raise core.Inconclusive('harness failed rc=%s: %s' % (rc, out[-3000:]))
            lines += more
        for ln in lines:
            by_t.setdefault(ln['t'], []).append(ln)
        stuck += [int(x) for x in re.findall(r'VERIF-X03-STUCK behaviour=(\d+)', out)]
    execute.stuck_first = len(stuck)
    again = 0
    for n, t in enumerate(stuck):
        if n >= 10:
            # more than ten: the rest is left out (their fate is decided by the ten that are repeated)
            by_t.pop(t, None)
            execute.dropped += 1
            continue
        b = [x for x in behaviours if x['id'] == t]
        rc, out, wall, lines = _go_run((b, d, 100 + n, timeout))
        execute.wall += wall
        if rc != 0 or 'VERIF-X03 behaviours=' not in out:
            raise core.Inconclusive('harness failed rc=%s: %s' % (rc, out[-3000:]))
        by_t[t] = lines
        again += 1 if 'VERIF-X03-STUCK' in out else 0
    if len(stuck) > max(3, len(behaviours) // 20) and again == 0:
        raise core.Inconclusive('%d of %d behaviours did not progress before a deadline, none of them when repeated'
                                % (len(stuck), len(behaviours)))
    trace = os.path.join(d, 'trace.ndjson')
    with open(trace, 'w') as fh:
        for b in behaviours:
            for ln in by_t.get(b['id'], []):
                fh.write(json.dumps(ln) + '\n')
    return trace


execute.wall = 0
execute.stuck_first = 0
execute.dropped = 0


def timed_behaviours(rng, n, first_id):
    """call sequences of the timed part: appends with pauses (followers go idle: the next record needs the
    notification), epoch changes, then the leader dies / falls silent / lives on"""
    out = []
    for i in range(n):
        fm, we = rng.choice([(1, 0), (2, 0), (2, 2), (3, 2), (3, 3)])
        cfg = {'fetchMax': fm, 'wideEvery': we, 'idleMs': rng.choice([2300, 2600]),
               'timeoutMs': rng.choice([400, 700]), 'fetchMs': 150}
        steps = []
        for r in range(rng.randint(2, 4)):
            if rng.random() < 0.3:
                steps.append({'a': 'NewEpoch'})
            steps.append({'a': 'Append', 'n': rng.randint(1, 4)})
            steps.append({'a': 'AwaitStored'})
            steps.append({'a': 'Sleep', 'ms': rng.choice([0, 50, 400, 900])})
        end = i % 3
        if end == 0:
            steps += [{'a': 'Kill'}, {'a': 'AwaitReports'}]
        elif end == 1:
            steps += [{'a': 'Mute'}, {'a': 'Append', 'n': 1}, {'a': 'AwaitReports'}, {'a': 'Sleep', 'ms': 200}]
        else:
            steps += [{'a': 'Sleep', 'ms': 1200}, {'a': 'Append', 'n': 1}, {'a': 'AwaitStored'}]
        out.append({'id': first_id + i, 'cfg': cfg, 'steps': steps})
    return out


def _go_timed(behs, d, n, timeout=900):
    stim = os.path.join(d, 'tstim-%d.json' % n)
    trace = os.path.join(d, 'ttrace-%d.ndjson' % n)
    core.write_json(stim, {'behaviours': behs})
    rc, out, wall = core.go_test('server', '^TestVerifReplLoopTimed$', {'VERIF_STIMULI': stim, 'VERIF_TRACE_OUT': trace},
                                 timeout=timeout, subs=['c02', 'x03'], extra_args=['-v'])
    if rc != 0 or 'VERIF-X03T behaviours=' not in out:
        raise core.Inconclusive('timed harness failed rc=%s: %s' % (rc, out[-2000:]))
    return core.read_ndjson(trace), wall


def timed_part(rep, behs, d):
    """free-running servers with real timers; TLC judges the recorded history.  What did not happen before a
    deadline (only possible cause on a correct tree: load) is repeated once and then makes the run inconclusive"""
    lines, wall = _go_timed(behs, d, 0)
    by_t = {}
    for ln in lines:
        by_t.setdefault(ln['t'], []).append(ln)
    miss = sorted({ln['t'] for ln in lines if ln['res']})
    for n, t in enumerate(miss[:4]):
        again, w2 = _go_timed([b for b in behs if b['id'] == t], d, 1 + n)
        wall += w2
        by_t[t] = again
    trace = os.path.join(d, 'ttrace.ndjson')
    flat = []
    with open(trace, 'w') as fh:
        for b in behs:
            for ln in by_t.get(b['id'], []):
                fh.write(json.dumps(ln) + '\n')
                flat.append(ln)
    res = core.tlc_trace('Trace_ReplTimed.tla', 'Trace_ReplTimed.cfg', trace)
    by_id = {b['id']: b for b in behs}
    missing = []
    for kind, tid, line, action, name in res['fails']:
        if kind == 'M':
            missing.append((tid, action, name))
            continue
        ev = flat[line - 1] if 0 < line <= len(flat) else {}
        rep.classify('X03|%s|%s|timed' % (name, action), 'timed part, line %d action %s check %s reports %s state %s' % (
            line, action, name, ev.get('rp'), ev.get('st')), {'timed': [by_id[tid]]})
    # how fast a record reached both followers after a pause that let them go idle: below the lower bound of
    # the idle wait it was the notification that woke them (clock proof); a statistic, not a verdict
    fast = slow = 0
    for i, ev in enumerate(flat):
        if ev['a'] == 'AwaitStored' and not ev['res'] and i >= 2 and flat[i - 1]['a'] == 'Append' and \
                flat[i - 2]['a'] == 'Sleep' and flat[i - 2]['args'].get('ms', 0) >= 400:
            b = by_id[ev['t']]
            if flat[i - 1]['ms'] + ev['ms'] < b['cfg']['idleMs'] - 2000:
                fast += 1
            else:
                slow += 1
    rep.cov['timed_behaviours'] = len(behs)
    rep.cov['timed_lines_validated'] = res['validated']
    rep.cov['timed_reports_observed'] = sum(len(ev['rp']) for ev in flat)
    rep.cov['timed_wakeups_proven_by_clock'] = fast
    rep.cov['timed_wakeups_not_provable'] = slow
    rep.cov['timed_wall_s'] = round(wall, 1)
    return missing


def step_class(lines, line):
    ev = lines.get(line)
    if not ev:
        return '-'
    st = ev['st']
    f = ev['args'].get('f')
    if ev['a'] in ('FIdle', 'Quiet', 'FRecv', 'NewEpochF') and f:
        return 'tok=%d,wtr=%s' % (st['tok'][f], st['wtr'][f])
    if ev['a'] in ('FTimeout', 'FSend'):
        return 'late=%s,up=%s' % (ev['obs'].get('late'), st['up'])
    return '-'


def judge(rep, behaviours, trace):
    res = core.tlc_trace('Trace_ReplLoop.tla', 'Trace_ReplLoop.cfg', trace)
    by_id = {b['id']: b for b in behaviours}
    lines = {}
    for i, ev in enumerate(core.read_ndjson(trace)):
        lines[i + 1] = ev
    bad, drifting = {}, []
    for kind, tid, line, action, name in res['fails']:
        if kind == 'I':
            rep.drift({'behaviour': tid, 'line': line, 'action': action, 'what': name,
                       'obs': lines.get(line, {}).get('obs'), 'args': lines.get(line, {}).get('args')})
            if by_id[tid] not in drifting:
                drifting.append(by_id[tid])
            continue
        bad.setdefault(tid, []).append((line, action, name))
    if drifting:
        core.write_json(os.path.join(core.BUILD, 'drift-X03.json'), {'replay': {'behaviours': drifting[:20]}})
    for tid, fl in sorted(bad.items()):
        fl.sort()
        line, action, name = fl[0]
        ev = lines.get(line, {})
        sig = 'X03|%s|%s|%s' % (name, action, step_class(lines, line))
        rep.classify(sig, 'first failing step: line %d action %s check %s args %s res %s obs %s' % (
            line, action, name, ev.get('args'), ev.get('res'), ev.get('obs')), {'behaviours': [by_id[tid]]})
    judge.lines = lines
    return res


def run(rep, tier, seed, replay):
    rng = random.Random(seed)
    if replay and 'timed' in replay['replay']:
        with core.scratch('x03') as d:
            missing = timed_part(rep, replay['replay']['timed'], d)
        rep.cov['rule'] = 'replay of a saved call sequence of the timed part'
        rep.cov['samples'] = replay['replay']['timed'][:1]
        if missing:
            raise core.Inconclusive('timed part: awaited effects did not show before their deadlines: %s' % missing[:3])
        return
    if replay:
        behaviours = replay['replay']['behaviours']
        with core.scratch('x03') as d:
            trace = execute(behaviours, d, workers=1)
            judge(rep, behaviours, trace)
        rep.cov['rule'] = 'replay of a saved stimulus'
        rep.cov['samples'] = behaviours[:1]
        return
    quick = tier == 'quick'
    suf = '' if quick else '_thorough'
    w = 4 if quick else 6
    # 1. design checks (run side by side): safety with one and with two followers, liveness without timers
    #    (no lost wake-up) and with time passing (failure detection), the defective variant, the graph of
    #    a small instance
    jobs = {
        'safety': ('MC_ReplLoop%s.cfg' % suf, dict(workers=w, timeout=2400, coverage=not quick)),
        'safety_two': ('MC_ReplLoop_two%s.cfg' % suf, dict(workers=w, timeout=2400)),
        'live1': ('MC_ReplLoop_live1.cfg', dict(workers=2, timeout=1200)),
        'live1_two': ('MC_ReplLoop_live1_two%s.cfg' % suf, dict(workers=w if not quick else 2, timeout=2400)),
        'live2': ('MC_ReplLoop_live2%s.cfg' % suf, dict(workers=w, timeout=2400)),
        'steal': ('MC_ReplLoop_steal.cfg', dict(workers=1, timeout=600)),
    }
    ex = concurrent.futures.ThreadPoolExecutor(8)
    futs = {k: ex.submit(core.tlc_check, 'MC_ReplLoop.tla', cfg, **kw) for k, (cfg, kw) in jobs.items()}
    fut_g = ex.submit(graph.tlc_dump, 'MC_ReplLoop.tla', 'MC_ReplLoop_paths.cfg', 2, 900)
    fut_p = ex.submit(core.tlc_simulate, 'MC_ReplLoop.tla', 'Sim_ReplLoop.cfg', 2000 if quick else 12000,
                      34 if quick else 40, seed, 'last', 900)
    # the same without the leader's death or silence (the judgement of the quiescent state at the end of a
    # behaviour says nothing once the leader is gone), with more records
    fut_q = ex.submit(core.tlc_simulate, 'MC_ReplLoop.tla', 'Sim_ReplLoop_live.cfg', 2000 if quick else 12000,
                      34 if quick else 44, seed + 1000, 'last', 900)
    try:
        _run2(rep, quick, rng, jobs, futs, fut_g, fut_p, fut_q)
    finally:
        ex.shutdown(wait=True)


def _design(rep, quick, jobs, futs):
    """the design checks of the specification of today's code run while the behaviours are executed"""
    res = {k: futs[k].result() for k in ('safety', 'safety_two', 'live1', 'live1_two', 'live2')}
    for k in ('safety', 'safety_two', 'live1', 'live1_two', 'live2'):
        rep.add_design(jobs[k][0], res[k])
        if res[k]['violated']:
            raise core.Inconclusive('the specification of today\'s code fails its own design check %s: %s'
                                    % (jobs[k][0], res[k]['violated']))
    if not quick:
        rep.cov['coverage_zero_actions'] = [z for z in rep.cov['coverage_zero_actions'] if 'Steal' not in z]


def _run2(rep, quick, rng, jobs, futs, fut_g, fut_p, fut_q):
    res = {'steal': futs['steal'].result()}
    gp = fut_g.result()
    pool = fut_p.result()
    pool_live = fut_q.result()
    r = res['steal']
    rep.cov['design_checks'].append({'config': 'MC_ReplLoop_steal.cfg (a stopped loop may swallow the notification; '
                                               'expected to fail)', 'violated': r['violated'],
                                     'distinct_states': r['distinct'], 'states_generated': r['generated'],
                                     'depth': r['depth'], 'complete': r['complete'], 'wall_s': round(r['wall'], 1)})
    steal = counterexample(r['out'])
    if not steal or 'Temporal propert' not in r['out']:
        raise core.Inconclusive('no counterexample from MC_ReplLoop_steal.cfg: %s' % r['out'][-1500:])
    # 2. directed: the counterexample of the defective variant, several times (the select that decides is random)
    directed = [steal] * (6 if quick else 12)
    # 3. transition cover of the small instance
    ppaths, pcov, pedges = graph.cover(gp)
    pathb = []
    for root, p in ppaths:
        steps = []
        for i in p:
            name, args = graph.parse_label(gp['edges'][i][2])
            a = {'a': name[2:]}
            if args:
                a['f'] = args[0]
            if len(args) > 1:
                a['w'] = args[1]
            steps.append(a)
        pathb.append(steps)
    rep.cov['transition_cover_paths_total'] = len(pathb)
    rng.shuffle(pathb)
    keep, spent = [], 0.0
    for p in pathb:
        if spent + cost(p) <= (60 if quick else 600):
            keep.append(p)
            spent += cost(p)
    pathb = keep
    # 4. the simulated pool, reduced to the behaviours that cover the situation features
    simb, fcov, ftot = select(pool, 90 if quick else 900, rng, per_feature=1 if quick else 3)
    simq, qcov, qtot = select(pool_live, 50 if quick else 500, rng, per_feature=1 if quick else 3)
    rep.cov['situation_features_in_pool_live_leader'] = qtot
    rep.cov['situation_features_replayed_live_leader'] = qcov
    nlive = len(simq)
    simb += simq
    pool = pool + pool_live
    rep.cov['situation_features_in_pool'] = ftot
    rep.cov['situation_features_replayed'] = fcov
    # response packing as a dimension: the directed behaviours and the first pool run with one record per
    # response; the live-leader pool was generated with FetchMax = 2 units, every third record wide (2 units);
    # the transition cover is replayed with seeded (limit, wide) pairs (the steps are intents)
    behaviours = []
    for i, s in enumerate(directed + pathb + simb):
        fm, we = 1, 0
        if i >= len(directed + pathb + simb) - nlive:
            fm, we = 2, 3
        elif len(directed) <= i < len(directed) + len(pathb):
            fm, we = rng.choice([(1, 0), (2, 0), (2, 2), (3, 2), (3, 3)])
        behaviours.append(to_stimulus(s, i + 1, fm, we))
    # 5. execute on the real servers, 6. TLC judges
    timed = timed_behaviours(rng, 6 if quick else 30, 100000)
    with core.scratch('x03') as d:
        with concurrent.futures.ThreadPoolExecutor(1) as tex:
            fut_t = tex.submit(timed_part, rep, timed, d)
            trace = execute(behaviours, d, workers=4 if quick else 8, timeout=900 if quick else 2400)
            tr = judge(rep, behaviours, trace)
            missing = fut_t.result()
    _design(rep, quick, jobs, futs)
    lines = judge.lines
    rep.cov['traces_validated_against_impl'] = len(behaviours) - execute.dropped
    rep.cov['behaviours_left_out_after_deadline'] = execute.dropped
    rep.cov['trace_lines_validated'] = tr['validated']
    rep.cov['evaluations'] = len(behaviours)
    rep.cov['behaviours_directed'] = len(directed)
    rep.cov['behaviours_transition_cover'] = len(pathb)
    rep.cov['behaviours_simulated_selected'] = len(simb)
    rep.cov['behaviours_reexecuted_after_deadline'] = execute.stuck_first
    rep.cov['harness_wall_s'] = round(execute.wall, 1)
    acts = {}
    for ev in lines.values():
        acts[ev['a']] = acts.get(ev['a'], 0) + 1
    rep.cov['recorded_steps_by_action'] = acts
    multi = wide = 0
    for n, ev in lines.items():
        pv = lines.get(n - 1)
        if ev['a'] == 'FRecv' and pv and pv['t'] == ev['t']:
            f = ev['args']['f']
            grew = len(ev['st']['flog'][f]) - len(pv['st']['flog'][f])
            multi += 1 if grew > 1 else 0
    rep.cov['responses_with_several_records'] = multi
    rep.cov['behaviours_with_wide_records'] = sum(1 for b in behaviours if b['cfg'].get('wideEvery'))
    rep.cov['reports_observed'] = sum(len(ev['obs']['rp']) for ev in lines.values())
    rep.cov['late_classes'] = {c: sum(1 for ev in lines.values() if ev['obs'].get('late') == c) for c in ('yes', 'no', 'maybe')}

    def nontrivial(b):
        ks = [s['a'] for s in b['steps']]
        return 'Append' in ks and ('LNotify' in ks or 'NewEpochF' in ks or 'FTimeout' in ks or 'Kill' in ks
                                   or 'IdleTimeout' in ks)
    rep.cov['distinct_nontrivial'] = len({core.sha(b['steps']) for b in behaviours if nontrivial(b)})
    rep.cov['exhaustive'] = False
    rep.cov['rule'] = ('behaviours = (a) the counterexample of the defective variant "a stopped loop may swallow the '
                       'notification" x %d; (b) a transition cover of MC_ReplLoop_paths (%d of %d paths replayed, '
                       'seeded choice); (c) from a pool of %d simulated behaviours those that cover the situation '
                       'features (which step meets which state of the other side: %d of %d features); every behaviour '
                       'is followed by a drain: every protocol step that needs no timer is taken until none is left, '
                       'then the quiescent state is judged; non-trivial = an append together with a notification, an '
                       'epoch change at a follower, a timeout, an idle-wait end or the leader\'s death; distinct by hash'
                       % (len(directed), len(pathb), rep.cov['transition_cover_paths_total'], len(pool), fcov, ftot))
    rep.cov['samples'] = [behaviours[0], behaviours[len(directed)], behaviours[-1], timed[0]]
    rep.cov['rule'] += ('; (d) timed part: %d seeded call sequences (appends with pauses, epoch changes, then the leader '
                        'dies / falls silent / lives on) on free-running servers with real timers' % len(timed))
    if missing:
        rep.cov['timed_missing'] = [list(m) for m in missing[:10]]
        if not rep.violations:
            raise core.Inconclusive('timed part: awaited effects did not show before their deadlines (also when '
                                    'repeated): %s' % missing[:3])
    rep.assumptions += ['leader a, followers b and c of one partition; the metadata log is played by the driver '
                        '(CREATE_STREAM, CHANGE_LEADER naming the same leader = a new leader epoch), applied to each '
                        'server through the real Server.apply',
                        'the commit loop runs to completion before the replicator answers (the driver waits for it)',
                        'a follower applies a leader change only between two requests',
                        'the end of the (hours long) idle wait is played by a token on p.notify',
                        'goroutine positions (pc of loops, replicators, notifier goroutines) are known from the gates',
                        'TLC evaluates the TLA+ predicates correctly']
