"""C16 - a conditional publish lands only at the offset it expected.

Two levels, both judged by TLC on behaviour recorded from the real code:
  1. commit log: spec/CommitLog.tla restricted to logs with concurrency control (MC_CommitLog_occ*.cfg,
     Sim_CommitLog_occ*.cfg), behaviours replayed lock-step by C01's driver, judged by Trace_CommitLog (P_Append
     carries the C16 iff-rule);
  2. server: spec/OccPublish.tla (publishers, NATS arrival order, leader loop, acks; exhaustive design check of the
     C16_* history predicates over every interleaving) and rounds of 2-3 publishers publishing concurrently against
     a real one-node server (harness/server/c16), acks per publisher + final partition log judged by
     Trace_OccPublish with the same C16_* predicates.
"""
import json
import os
import random
import re

from vf import core
from checks import c01

META = {
    'property_id': 'C16',
    'confirm_by_replay': True,   # bin/check re-executes the stimulus of every violation before it is reported
    'level': 'model_checking',
    'technique': 'TLA+ specs (CommitLog.tla with concurrency control; OccPublish.tla = publish path of a partition '
                 'leader) checked exhaustively by TLC; TLC-generated behaviours replayed on the real commit log and '
                 'as rounds of concurrent publishers on a real one-node server; every recorded step / round judged '
                 'by TLC with the predicates of the design check (trace validation)',
    'level_text': 'TLC enumerates every sequence of conditional appends (expected offset -1 / stale / equal / future) '
                  'mixed with truncate, reopen, roll, HW and epoch steps on a commit log with concurrency control, and '
                  'every interleaving of sends, arrivals at the leader loop, loop iterations and ack deliveries of 2-3 '
                  'publishers with every expectation kind, and proves the C16 step predicate and the C16 history '
                  'predicates (stored <=> expected offset assigned, reject => not stored and justified, success ack = '
                  'position in the log, one winner per expectation, -1 always accepted, dense log).  The same '
                  'behaviours are executed on the real commit log (lock-step) and as rounds of concurrently '
                  'publishing gRPC clients against a real server with different batching settings; TLC re-judges '
                  'every recorded step and every recorded round.  Dimensions of the publish-path model beyond the '
                  'schedule: who publishes (gRPC Publish / PublishAsync, PublishToSubject, the publisher\'s own NATS '
                  'connection with / without ack inbox, plain NATS message), ack policy, partition paused / resumed by a '
                  'publish, the PublishAsync session as a two-step actor (publish, then count - bound with a gate), where '
                  'the stream\'s setting comes from (per-stream option / server-wide setting / option against it), a '
                  'deleted predecessor with the opposite setting, and how the server comes back (Raft snapshot taken at '
                  'any of five points x restart / snapshot install on the running server).',
    'level_note': 'Server level: the schedule of a round is whatever the Go scheduler/NATS produce (no gates), the '
                  'verdict uses only what publishers sent/received (one logical clock) and the final log, so a refusal '
                  'is refuted only when the window of possible log ends is exactly the expected offset.  One node, '
                  'replication factor 1, one appender per partition.  Bounds: design check 3 publishers x 3 publishes '
                  '(quick) / + 2 publishers x 4 publishes (thorough); rounds <= 3 publishers x 4 publishes.  Messages '
                  'without an expected-offset field (plain NATS message, PublishToSubject) are outside the statement '
                  '(handled as "expected offset 0" by the code: implementation level only).  Raw NATS publishes are not '
                  'sent to a paused partition (a lost message cannot be told from slowness).',
    'design_ref': 'DESIGN.md section 6/C16',
}

PUBS = ['p1', 'p2', 'p3']
LIFE = {'restart_p': 0.02}     # server restarts cost 2-4 s each
MUTS = ['after_write', 'newest', 'batch', 'none_paused', 'neg_waives', 'nack_leader_only',
        'drop_idle_ack', 'noinbox_exp', 'snap_drops']
# actions a design-check configuration switches off by its budgets (not counted as "never taken")
OFF = {'MC_OccPublish': {'MCPause', 'MCRestart', 'MCSnapshot', 'MCInstall', 'MCCount'},
       'MC_OccPublish_small': {'MCRestart', 'MCSnapshot', 'MCInstall', 'MCCount'},
       'MC_OccPublish_thorough': {'MCPause', 'MCRestart', 'MCSnapshot', 'MCInstall', 'MCCount'},
       'MC_OccPublish_thorough2': {'MCPause', 'MCRestart', 'MCSnapshot', 'MCInstall', 'MCCount'},
       'MC_OccPublish_who': {'MCPause', 'MCRestart', 'MCSnapshot', 'MCInstall', 'MCCount', 'MCRead', 'MCBarrier'},
       'MC_OccPublish_who_thorough': {'MCPause', 'MCRestart', 'MCSnapshot', 'MCInstall', 'MCCount', 'MCRead'},
       'MC_OccPublish_hold': {'MCPause', 'MCRestart', 'MCSnapshot', 'MCInstall', 'MCRead'},
       'MC_OccPublish_hold_thorough': {'MCPause', 'MCRestart', 'MCSnapshot', 'MCInstall', 'MCRead'},
       'MC_OccPublish_life': {'MCPause', 'MCCount', 'MCRead'},
       'MC_OccPublish_life_thorough': {'MCCount', 'MCRead'}}
RAW = ('nats', 'natsq', 'plain')


# VERIF_C16_SKIP_DESIGN=1: the model-only design checks are skipped (their result does not depend on the Go tree; used
# for re-runs against seeded / mutated trees when the machine cannot hold the TLC runs); never set for evidence runs
SKIP_DESIGN = bool(os.environ.get('VERIF_C16_SKIP_DESIGN'))


def tlc_check(module, cfg, **kw):
    """design check; a TLC/JVM that did not come up or was killed (loaded machine, rc 143/137) is retried once -
    if it fails again add_design turns it into Inconclusive, never into a result"""
    res = core.tlc_check(module, cfg, **kw)
    if not res['ok'] and not res['violated'] and not res.get('timeout'):
        core.log('TLC run of %s did not complete (rc=%s), retrying once' % (cfg, res['rc']))
        res = core.tlc_check(module, cfg, **kw)
    return res


# ------------------------------------------------------------------ commit-log level

def cl_judge(rep, behaviours, trace):
    res = core.tlc_trace('Trace_CommitLog.tla', 'Trace_CommitLog.cfg', trace)
    by_id = {b['id']: b for b in behaviours}
    bad = {}
    other = 0
    for kind, tid, line, action, name in res['fails']:
        if kind == 'I':
            rep.drift({'level': 'commitlog', 'behaviour': tid, 'line': line, 'action': action, 'what': name})
            continue
        if name == 'step' and action == 'Append':
            bad.setdefault(tid, []).append((line, action, name))
        else:
            other += 1     # C01's business (read-back, other actions); reported by bin/check C01
    for tid, fl in bad.items():
        fl.sort()
        line, action, name = fl[0]
        b = by_id[tid]
        sig = 'C16|%s|%s|commitlog,%s' % (name, action, c01.features(b))
        rep.classify(sig, 'commit log: first failing step: line %d action %s check %s' % (line, action, name),
                     {'level': 'commitlog', 'behaviours': [b]})
    rep.cov['commitlog_other_property_failures'] = other
    return res


def cl_stats(trace):
    """per behaviour, as observed: refused / accepted conditional appends"""
    ref, acc = {}, {}
    for e in core.read_ndjson(trace):
        if e.get('a') != 'Append' or not e['st']['cfg']['occ']:
            continue
        recs = e['args'].get('recs') or []
        if not recs or recs[0]['exp'] == -1:
            continue
        if e['obs']['err'] == 'incorrect_offset':
            ref[e['t']] = ref.get(e['t'], 0) + 1
        elif e['obs']['err'] == '':
            acc[e['t']] = acc.get(e['t'], 0) + 1
    return ref, acc


def run_commitlog(rep, tier, seed, rng, keepdir):
    thorough = tier == 'thorough'
    if SKIP_DESIGN:
        core.log('VERIF_C16_SKIP_DESIGN: design checks skipped')
    else:
        res = tlc_check('MC_CommitLog.tla', 'MC_CommitLog_occ_thorough.cfg' if thorough else 'MC_CommitLog_occ.cfg',
                        timeout=3000, coverage=thorough)
        rep.add_design('MC_CommitLog_occ', res)
        core.log('design check MC_CommitLog_occ: %d distinct states, %.0f s' % (res['distinct'], res['wall']))
    # the OCC-focused configs switch the reader actions off (UseReaders = FALSE; readers are C01/C03's business)
    rep.cov['coverage_zero_actions'] = [z for z in rep.cov['coverage_zero_actions']
                                        if z.split(':')[1] not in ('MCNewReader', 'MCDrain')]
    num, depth = (5000, 16) if thorough else (700, 12)
    sims = core.tlc_simulate('MC_CommitLog.tla', 'Sim_CommitLog_occ_thorough.cfg' if thorough else 'Sim_CommitLog_occ.cfg',
                             num, depth, seed, timeout=1500)
    behaviours = [c01.decorate(b, rng, i + 1) for i, b in enumerate(sims) if len(b) > 1]
    with core.scratch('c16cl') as d:
        trace = c01.execute(behaviours, d, timeout=1500)
        tr = cl_judge(rep, behaviours, trace)
        core.log('commit log: %d behaviours executed and judged (%d lines, TLC %.0f s)' % (
            len(behaviours), tr['validated'], tr['wall']))
        ref, acc = cl_stats(trace)
        keep = os.path.join(keepdir, 'cl-trace.ndjson')
        with open(keep, 'w') as fh:      # a prefix is enough for the corrupted-trace self-test
            for i, line in enumerate(open(trace)):
                if i >= 400:
                    break
                fh.write(line)
    nt = [b for b in behaviours if ref.get(b['id']) and acc.get(b['id'])]
    return {'behaviours': behaviours, 'nontrivial': nt, 'lines': tr['validated'], 'trace': keep,
            'refused': sum(ref.values()), 'accepted': sum(acc.values())}


# ------------------------------------------------------------------ server level

def sim_to_round(beh, rng, rid):
    """TLC behaviour of MC_OccPublish -> round stimulus: the Send/Read steps of every publisher, cut into waves at
    the Barrier steps (the arrival/processing/ack steps of the behaviour are the real system's business)."""
    waves, cur = [], {}
    for st in beh[1:]:
        a = st['last']
        if a['a'] == 'Send':
            st_ = {'a': 'Send', 'kind': a['kind'], 'pol': a['pol']}
            if a.get('via', 'api') != 'api':
                st_['via'] = a['via']
            if a.get('hold') is True:
                st_['hold'] = True
            cur.setdefault(a['p'], []).append(st_)
        elif a['a'] == 'Read':
            cur.setdefault(a['p'], []).append({'a': 'Read'})
        elif a['a'] == 'Barrier':
            if cur:
                waves.append(cur)
            cur = {p: [{'a': 'Read'}] for p in PUBS}
        elif a['a'] in ('Restart', 'Snapshot', 'Install'):
            # server restart / Raft snapshot / snapshot install between two waves (driver steps '#')
            if cur and set(cur) != {'#'}:
                waves.append(cur)
                cur = {}
            cur.setdefault('#', []).append({'a': a['a']})
        elif a['a'] == 'Pause':
            # PauseStream needs quiescence: it starts a new wave (driver step '#')
            if cur:
                waves.append(cur)
            cur = {'#': [{'a': 'Pause'}]}
    if any(s['a'] == 'Send' for steps in cur.values() for s in steps):
        waves.append(cur)
    first = core.tlaval.state_var(beh[0]['body'], 'cfg')
    snap0 = core.tlaval.state_var(beh[0]['body'], 'snap')
    r = decorate_round(rid, first['occ'], waves, rng, path=first['path'])
    if first.get('src', 'request') != 'request':
        r['cfg']['src'] = first['src']
    set_snap0(r, snap0)
    return r


def set_snap0(r, snap0):
    """where the newest Raft snapshot was taken while the stream of the round was set up: 'pred' = while the deleted
    predecessor (opposite setting) existed, 'gap' = between its deletion and the creation, 'cur' = after the creation"""
    if snap0 in ('pred', 'gap'):
        r['cfg']['recreate'] = True
    if snap0 != 'none':
        r['cfg']['snap0'] = snap0


def random_round(rng, rid):
    """seeded random round: waves of racing publishers; most waves start with every publisher reading the log end"""
    npub = rng.choice([2, 3, 3])
    pubs = PUBS[:npub]
    waves = []
    for _ in range(rng.randint(1, 4)):
        wave = {}
        shape = rng.choice(['race', 'race', 'allbad', 'mixed', 'one'])
        for p in pubs:
            if shape == 'one' and p != pubs[0] and rng.random() < 0.7:
                continue
            steps = [{'a': 'Read'}] if rng.random() < 0.7 else []
            for _ in range(rng.choice([1, 1, 1, 2, 3])):
                if shape == 'race':
                    kind = rng.choice(['equal', 'equal', 'equal', 'future', 'waive'])
                elif shape == 'allbad':
                    kind = rng.choice(['stale', 'future', 'far', 'future', 'neg', 'negbig'])
                else:
                    kind = rng.choice(['waive', 'stale', 'equal', 'future', 'far', 'neg', 'negbig'])
                st_ = {'a': 'Send', 'kind': kind, 'pol': 'leader'}
                # who publishes: mostly the gRPC API; PublishToSubject, the publisher's own NATS connection with /
                # without ack inbox, a plain NATS message
                x = rng.random()
                if x < 0.30:
                    st_['via'] = rng.choice(['nats', 'nats', 'natsq', 'natsq', 'plain', 'subj'])
                elif x < 0.42:
                    st_['hold'] = True      # the session counts this publish after its answer
                steps.append(st_)
            wave[p] = steps
        if wave:
            waves.append(wave)
    if rng.random() < 0.12:
        p = rng.choice(pubs)
        waves[-1].setdefault(p, []).insert(0, {'a': 'Send', 'kind': rng.choice(['equal', 'far', 'waive', 'stale']), 'pol': 'none'})
    # partition state: some waves find the partition paused (the first publish that passes the API resumes it)
    for w in waves:
        if rng.random() < 0.2:
            w['#'] = [{'a': 'Pause'}]
    # life cycle: a server restart / a Raft snapshot / a snapshot install before a wave
    if rng.random() < LIFE['restart_p']:
        w = rng.choice(waves)
        w['#'] = w.get('#', []) + ([{'a': 'Snapshot'}] if rng.random() < 0.5 else []) + [{'a': 'Restart'}]
    if rng.random() < 0.03:
        w = rng.choice(waves)
        w['#'] = w.get('#', []) + [{'a': rng.choice(['Snapshot', 'Install'])}]
    r = decorate_round(rid, rng.random() < 0.92, waves, rng)
    # a deleted predecessor with the opposite setting; where the newest snapshot was taken during the set-up
    if rng.random() < 0.06:
        r['cfg']['recreate'] = True
    if rng.random() < 0.08:
        set_snap0(r, rng.choice(['pred', 'gap', 'cur', 'cur']))
    # where the setting comes from: mostly the per-stream option; the server-wide setting; option against the setting
    x = rng.random()
    if x < 0.2:
        r['cfg']['src'] = 'server' if x < 0.1 else 'override'
    return r


def decorate_round(rid, occ, waves, rng, path=None):
    pubs = sorted({p for w in waves for p in w if p != '#'}) or PUBS[:2]
    path = path or rng.choice(['async', 'async', 'async', 'sync'])
    has_none = False
    maybe_paused = False
    for w in waves:
        if any(x['a'] == 'Pause' for x in w.get('#', [])):
            maybe_paused = True
        resumes = False
        for who, steps in w.items():
            if who == '#':
                continue
            for s in steps:
                if s['a'] != 'Send':
                    continue
                # only the gRPC Publish / PublishAsync calls resume a paused partition: while it may be paused
                # everybody uses them (a message written to the subject of a paused partition is lost: no answer,
                # which cannot be told from slowness)
                if maybe_paused:
                    s.pop('via', None)
                via = s.get('via', 'api')
                if via != 'api' or path != 'async' or s['pol'] == 'none':
                    s.pop('hold', None)
                if via in ('plain', 'subj'):
                    s['kind'] = 'waive'       # no expected-offset field
                if via != 'api' and s['pol'] == 'none':
                    s['pol'] = 'leader'
                if via == 'api' and s['pol'] != 'none':
                    resumes = True
                if s['pol'] == 'none':
                    if occ:
                        has_none = True
                    else:
                        s['pol'] = 'leader'   # no answer by design without concurrency control: nothing to observe
                if s['pol'] == 'leader' and s.get('via', 'api') not in ('natsq', 'plain') and rng.random() < 0.3:
                    s['pol'] = 'all'
        if resumes:
            maybe_paused = False
    if has_none:
        # a publish with ack policy NONE is followed by an acknowledged one of every publisher before the log is read
        waves.append({p: [{'a': 'Send', 'kind': 'waive', 'pol': 'leader'}] for p in pubs})
    batch, ms = rng.choice([(1, 0), (2, 0), (8, 0), (1024, 0), (2, 2), (8, 3), (1024, 1)])
    cfg = {'occ': occ, 'batch': batch, 'batchMs': ms,
           'path': path, 'pubs': pubs}
    return {'id': rid, 'cfg': cfg, 'steps': waves}


def none_case(rid, path, kind, paused):
    """ack policy NONE on a stream with concurrency control, on a running and on a paused partition: one publisher;
    a stored message, [PauseStream,] the NONE publish (with a wrong or the right expectation), an acknowledged
    publish, then the log is read"""
    mid = {'p1': [{'a': 'Send', 'kind': kind, 'pol': 'none'}]}
    if paused:
        mid['#'] = [{'a': 'Pause'}]
    return {'id': rid, 'cfg': {'occ': True, 'batch': 8, 'batchMs': 0, 'path': path, 'pubs': ['p1']},
            'steps': [{'p1': [{'a': 'Send', 'kind': 'waive', 'pol': 'leader'}, {'a': 'Send', 'kind': 'waive', 'pol': 'leader'}]},
                      mid,
                      {'p1': [{'a': 'Send', 'kind': 'waive', 'pol': 'leader'}]}]}


def life_case(rid, path, recreate, restart_at):
    """stream life cycle: [deleted predecessor with the opposite setting,] conditional publishes, server restart
    (Raft log replay / snapshot, commit logs reopened), conditional publishes again (stale, equal, racing)"""
    w1 = {'p1': [{'a': 'Send', 'kind': 'equal', 'pol': 'leader'}, {'a': 'Send', 'kind': 'stale', 'pol': 'leader'}],
          'p2': [{'a': 'Send', 'kind': 'equal', 'pol': 'all'}]}
    w2 = {'p1': [{'a': 'Read'}, {'a': 'Send', 'kind': 'stale', 'pol': 'leader'}, {'a': 'Send', 'kind': 'equal', 'pol': 'leader'}],
          'p2': [{'a': 'Read'}, {'a': 'Send', 'kind': 'equal', 'pol': 'leader'}, {'a': 'Send', 'kind': 'neg', 'pol': 'all'}]}
    w3 = {'p1': [{'a': 'Read'}, {'a': 'Send', 'kind': 'equal', 'pol': 'leader'}],
          'p2': [{'a': 'Read'}, {'a': 'Send', 'kind': 'equal', 'pol': 'leader'}, {'a': 'Send', 'kind': 'far', 'pol': 'leader'}]}
    waves = [w1, w2, w3]
    waves[restart_at]['#'] = [{'a': 'Restart'}]
    cfg = {'occ': True, 'batch': 8, 'batchMs': 0, 'path': path, 'pubs': ['p1', 'p2']}
    if recreate:
        cfg['recreate'] = True
    return {'id': rid, 'cfg': cfg, 'steps': waves}


def comeback_case(rid, path, snap0, how, occ=True, src='request'):
    """how the server comes back, for a stream with concurrency control: where the newest Raft snapshot was taken
    (snap0: none / pred / gap / cur, or 'late' = between two waves) x how the metadata is rebuilt (restart = from the
    snapshot + log tail or by replaying the whole Raft log; install = Server.Restore on the running server), then
    stale / equal / racing conditional publishes by every kind of publisher"""
    w1 = {'p1': [{'a': 'Send', 'kind': 'equal', 'pol': 'leader'}, {'a': 'Send', 'kind': 'stale', 'pol': 'leader'}],
          'p2': [{'a': 'Send', 'kind': 'equal', 'pol': 'all'}]}
    w2 = {'p1': [{'a': 'Read'}, {'a': 'Send', 'kind': 'stale', 'pol': 'leader'}, {'a': 'Send', 'kind': 'equal', 'pol': 'leader'}],
          'p2': [{'a': 'Read'}, {'a': 'Send', 'kind': 'equal', 'pol': 'leader'}, {'a': 'Send', 'kind': 'far', 'pol': 'all'}]}
    w3 = {'p1': [{'a': 'Read'}, {'a': 'Send', 'kind': 'stale', 'pol': 'leader', 'via': 'nats'},
                 {'a': 'Send', 'kind': 'equal', 'pol': 'leader', 'via': 'natsq'}],
          'p2': [{'a': 'Read'}, {'a': 'Send', 'kind': 'equal', 'pol': 'leader'}]}
    ctl = []
    if snap0 == 'late':
        ctl.append({'a': 'Snapshot'})
    ctl.append({'a': 'Restart' if how == 'restart' else 'Install'})
    w2['#'] = ctl
    r = {'id': rid, 'cfg': {'occ': occ, 'batch': 8, 'batchMs': 0, 'path': path, 'pubs': ['p1', 'p2']}, 'steps': [w1, w2, w3]}
    if src != 'request':
        r['cfg']['src'] = src
    if snap0 != 'late':
        set_snap0(r, snap0)
    return r


def hold_case(rid, kind, pol, racer):
    """a PublishAsync session that is idle (nothing counted as in flight) publishes once; the session is parked
    between its NATS publish and its in-flight count until the answer has come (gate api.publish_async.published);
    racer: a second publisher races with the same expectation"""
    w1 = {'p1': [{'a': 'Send', 'kind': 'waive', 'pol': 'leader'}], 'p2': [{'a': 'Send', 'kind': 'waive', 'pol': 'leader'}]}
    w2 = {'p1': [{'a': 'Read'}, {'a': 'Send', 'kind': kind, 'pol': pol, 'hold': True}]}
    if racer:
        w2['p2'] = [{'a': 'Read'}, {'a': 'Send', 'kind': kind, 'pol': 'leader', 'hold': True}]
    w3 = {'p1': [{'a': 'Send', 'kind': 'equal', 'pol': 'leader'}, {'a': 'Send', 'kind': 'future', 'pol': pol, 'hold': True}]}
    return {'id': rid, 'cfg': {'occ': True, 'batch': 8, 'batchMs': 0, 'path': 'async', 'pubs': ['p1', 'p2']},
            'steps': [w1, w2, w3]}


def who_case(rid, via, path, first):
    """who publishes: p1 over `via` (PublishToSubject, own NATS connection with / without ack inbox, plain NATS
    message), p2 over the gRPC API; first = what p1 sends into the empty log; then p2 stores one, p1 waives, p1 is
    stale, p1 has the right expectation, p2 again"""
    def s(kind, **kw):
        return dict({'a': 'Send', 'kind': kind, 'pol': 'leader'}, **kw)
    waves = [{'p1': [s(first, via=via)]},
             {'p2': [{'a': 'Read'}, s('equal')]},
             {'p1': [s('waive', via=via)]},
             {'p1': [s('stale', via=via)], 'p2': [{'a': 'Read'}, s('far')]},
             {'p1': [{'a': 'Read'}, s('equal', via=via)]},
             {'p2': [{'a': 'Read'}, s('equal')], 'p1': [{'a': 'Read'}, s('equal', via=via)]}]
    for w in waves:
        for steps in w.values():
            for st_ in steps:
                if st_.get('via') in ('plain', 'subj'):
                    st_['kind'] = 'waive'
    return {'id': rid, 'cfg': {'occ': True, 'batch': 8, 'batchMs': 0, 'path': path, 'pubs': ['p1', 'p2']}, 'steps': waves}


_panic_re = re.compile(r'^panic: (.*)$', re.M)


def sv_execute(rounds, d, timeout=1200):
    """runs the rounds on a real server; returns (trace path, died) - died = (round id, text) when the server
    process died with a panic in the publish path"""
    stim = os.path.join(d, 'stim.json')
    trace = os.path.join(d, 'trace.ndjson')
    core.write_json(stim, {'behaviours': rounds})
    if os.environ.get('VERIF_KEEP'):
        core.log('stimuli at', stim)
    rc, out, wall = core.go_test('server', '^TestVerifC16Server$', {'VERIF_STIMULI': stim, 'VERIF_TRACE_OUT': trace},
                                 timeout=timeout, subs=['c16'])
    if rc == 0 and os.path.exists(trace):
        return trace, None
    # the process died: a panic of the leader loop / commit log while a round was publishing is behaviour of the
    # code under test; anything else is infrastructure
    m = _panic_re.search(out or '')
    events = core.read_ndjson(trace) if os.path.exists(trace) else []
    open_round = None
    for e in events:
        if e['a'] == 'Begin':
            open_round = e['t']
        elif e['a'] in ('Round', 'Unreadable'):
            open_round = None
    # only the stack of the panicking goroutine counts (a test time-out dumps every goroutine)
    in_publish_path = False
    if m and not m.group(1).startswith('test timed out'):
        g = re.search(r'^goroutine \d+ \[running\]:\n(.*?)(?:\n\n|\Z)', (out or '')[m.end():], re.S | re.M)
        stack = g.group(1) if g else ''
        in_publish_path = any(k in stack for k in ('messageProcessingLoop', 'commitlog.(*commitLog).Append',
                                                   'newMessageSetFromProto'))
    if rc is not None and m and open_round is not None and in_publish_path:
        with open(trace, 'a') as fh:
            fh.write(json.dumps({'t': open_round, 'a': 'Died', 'note': m.group(1)[:300]}) + '\n')
        return trace, (open_round, m.group(1)[:300])
    raise core.Inconclusive('server harness failed rc=%s: %s' % (rc, (out or '')[-3000:]))


def sv_features(rnd):
    c = rnd['cfg']
    sends = [s for w in rnd['steps'] for who, steps in w.items() if who != '#' for s in steps if s['a'] == 'Send']
    ctl = {x['a'] for w in rnd['steps'] for x in w.get('#', [])}
    f = 'server,path=%s,batch%s' % (c['path'], '=1' if c['batch'] == 1 else '>1')
    vias = sorted({s.get('via', 'api') for s in sends} - {'api'})
    if vias:
        f += ',via=' + '+'.join(vias)
    if any(s.get('hold') for s in sends):
        f += ',hold'
    if c.get('src', 'request') != 'request':
        f += ',src=' + c['src']
    if ctl & {'Restart', 'Install', 'Snapshot'} or c.get('snap0'):
        f += ',comeback=' + '+'.join(sorted(ctl & {'Restart', 'Install', 'Snapshot'})) + '/' + c.get('snap0', 'none')
    return f


def sv_judge(rep, rounds, trace, confirm=True):
    res = core.tlc_trace('Trace_OccPublish.tla', 'Trace_OccPublish.cfg', trace)
    by_id = {r['id']: r for r in rounds}
    bad = {}
    for kind, tid, line, action, name in res['fails']:
        if kind == 'I':
            rep.drift({'level': 'server', 'round': tid, 'line': line, 'what': name})
            continue
        bad.setdefault(tid, []).append((line, action, name))
    events = core.read_ndjson(trace)
    recorded = {e['t']: e for e in events if e['a'] in ('Round', 'Died', 'Unreadable')}
    for tid, fl in bad.items():
        fl.sort()
        names = sorted({n for _, _, n in fl})
        r = by_id[tid]
        sig = 'C16|%s|%s|%s' % (names[0], fl[0][1], sv_features(r))
        rep.classify(sig, 'server round %d: failed checks %s; recorded: %s' % (
            tid, ','.join(names), json.dumps(recorded.get(tid))[:1500]), {'level': 'server', 'behaviours': [r]})
    unreadable = [e['t'] for e in events if e['a'] == 'Unreadable']
    if unreadable:
        raise core.Inconclusive('final log unreadable in rounds %s' % unreadable[:5])
    return res, events


def sv_stats(events):
    st = {'rounds': 0, 'msgs': 0, 'ok': 0, 'refused': 0, 'timeouts': 0, 'nontrivial_ids': [], 'exact_refusals': 0,
          'races_same_exp': 0, 'aborted': 0, 'other_answers': 0, 'pauses': 0, 'rounds_with_pause': 0,
          'none_on_occ': 0, 'none_refused': 0, 'sync_rounds': 0, 'noanswer': 0, 'fences': 0, 'restarts': 0, 'recreated_streams': 0,
          'conditional_all': 0, 'via': {}, 'holds_counted_after_answer': 0, 'holds_expired': 0, 'snapshots': 0,
          'installs': 0, 'comebacks': {}, 'src': {}, 'silent_conditional_stored': 0, 'silent_conditional_unstored': 0}
    for e in events:
        if e['a'] == 'Aborted':
            st['aborted'] += 1
        if e['a'] != 'Round':
            continue
        st['rounds'] += 1
        st['pauses'] += e.get('pauses', 0)
        st['restarts'] += e.get('restarts', 0)
        st['snapshots'] += e.get('snaps', 0)
        k = '%s/%s' % (e['cfg'].get('src', 'request'), 'on' if e['cfg']['occ'] else 'off')
        st['src'][k] = st['src'].get(k, 0) + 1
        st['installs'] += e.get('installs', 0)
        if e.get('restarts', 0) or e.get('installs', 0):
            k = '%s%s from snapshot=%s' % ('restart' if e.get('restarts', 0) else '', '+install' if e.get('installs', 0) else '',
                                           e.get('snap', 'none'))
            st['comebacks'][k] = st['comebacks'].get(k, 0) + 1
        stored = {x['id'] for x in e['log']}
        for i, m in enumerate(e['msgs']):
            st['via'][m.get('via', 'api')] = st['via'].get(m.get('via', 'api'), 0) + 1
            if m.get('hold') == 'counted after the answer':
                st['holds_counted_after_answer'] += 1
            elif m.get('hold'):
                st['holds_expired'] += 1
            if m.get('via') == 'natsq' and m['exp'] != -1 and e['cfg']['occ']:
                st['silent_conditional_stored' if i + 1 in stored else 'silent_conditional_unstored'] += 1
        st['recreated_streams'] += 1 if e.get('recreate') else 0
        st['rounds_with_pause'] += 1 if e.get('pauses', 0) else 0
        st['sync_rounds'] += 1 if e['cfg']['path'] == 'sync' else 0
        st['none_on_occ'] += sum(1 for m in e['msgs'] if m['pol'] == 'none' and e['cfg']['occ'])
        st['none_refused'] += sum(1 for m in e['msgs'] if m['pol'] == 'none' and m['res'] == 'bad_request')
        st['msgs'] += len(e['msgs'])
        st['timeouts'] += e.get('timeouts', 0)
        st['noanswer'] += e.get('noanswer', 0)
        st['fences'] += sum(1 for m in e['msgs'] if m.get('kind') == 'fence')
        st['conditional_all'] += sum(1 for m in e['msgs'] if m['pol'] == 'all' and m['exp'] != -1)
        st['other_answers'] += sum(1 for m in e['msgs'] if m['res'] == 'other')
        ok = [m for m in e['msgs'] if m['res'] == 'ok']
        rej = [m for m in e['msgs'] if m['res'] == 'incorrect_offset']
        st['ok'] += len(ok)
        st['refused'] += len(rej)
        if e['cfg']['occ'] and rej and any(m['exp'] != -1 for m in ok):
            st['nontrivial_ids'].append(e['t'])
        # information only (the verdict is TLC's): refusals whose window of possible log ends is a single value,
        # i.e. refusals that C16_RejectJustified decides exactly
        off = {x['id']: x['off'] for x in e['log']}
        for i, m in enumerate(e['msgs']):
            if m['res'] != 'incorrect_offset':
                continue
            lo = max([0] + [off[j + 1] + 1 for j, y in enumerate(e['msgs'])
                            if j + 1 in off and y['res'] == 'ok' and y['ackT'] < m['sendT']])
            hi = min([len(e['log'])] + [off[j + 1] for j, y in enumerate(e['msgs'])
                                        if j + 1 in off and y['sendT'] > m['ackT']])
            if lo == hi:
                st['exact_refusals'] += 1
        # overlapping publishes with the same expectation
        ms = [m for m in e['msgs'] if m['exp'] != -1]
        for i, a in enumerate(ms):
            if any(b['exp'] == a['exp'] and b['sendT'] < a['ackT'] and a['sendT'] < b['ackT'] for b in ms[i + 1:]):
                st['races_same_exp'] += 1
    return st


def run_server(rep, tier, seed, rng):
    thorough = tier == 'thorough'
    # design check of the publish path
    # (the thorough configurations contain the quick ones)
    # (_small carries the partition-state / API-path / negative-expectation dimensions: run in both tiers)
    # (_who: who publishes; _hold: PublishAsync session that counts after the answer; _life: how the server comes back)
    for cfgname in (['MC_OccPublish_thorough.cfg', 'MC_OccPublish_thorough2.cfg', 'MC_OccPublish_small.cfg',
                     'MC_OccPublish_who_thorough.cfg', 'MC_OccPublish_hold_thorough.cfg', 'MC_OccPublish_life_thorough.cfg']
                    if thorough else ['MC_OccPublish.cfg', 'MC_OccPublish_small.cfg', 'MC_OccPublish_who.cfg',
                                      'MC_OccPublish_hold.cfg', 'MC_OccPublish_life.cfg']) if not SKIP_DESIGN else []:
        res = tlc_check('MC_OccPublish.tla', cfgname, timeout=3000,
                        coverage=thorough and cfgname != 'MC_OccPublish_small.cfg')
        rep.add_design(cfgname[:-4], res)
        core.log('design check %s: %d distinct states, %.0f s' % (cfgname, res['distinct'], res['wall']))
        # actions the configuration switches off (budget 0) are exercised by another configuration
        skip = OFF.get(cfgname[:-4], set())
        # TLC reports a disjunct of MCNext that is never enabled under the NAME OF THE ENCLOSING DEFINITION (`<MCNext line ..>: 0:0`)
        # next to the zero count of the action itself; the named entries decide, the `MCNext` echoes are dropped
        zero = [z for z in res.get('zero_cov', []) if z not in skip and z != 'MCNext']
        rep.cov['coverage_zero_actions'] = [z for z in rep.cov['coverage_zero_actions']
                                            if not (z.split(':')[0] == cfgname[:-4] and (z.split(':')[1] in skip or z.split(':')[1] == 'MCNext'))]
        if zero:
            raise core.Inconclusive('actions never taken in the design check %s: %s' % (cfgname, zero))
    # design-level self-test: the broken loops must violate the C16 predicates in the model
    if thorough and not SKIP_DESIGN:
        killed = []
        for mut in MUTS:
            res = tlc_check('MC_OccPublish.tla', 'MC_OccPublish_mut_%s.cfg' % mut, timeout=600)
            if res['violated']:
                killed.append(mut)
        rep.cov['design_mutants_killed'] = killed
        if len(killed) != len(MUTS):
            raise core.Inconclusive('design-level self-test: broken leader loops not all detected: %s' % killed)
    # rounds: TLC simulation of the publish path + seeded random waves + the ack-policy-NONE cases
    nsim, nrand = (800, 2200) if thorough else (120, 200)
    sims = core.tlc_simulate('MC_OccPublish.tla', 'Sim_OccPublish.cfg', nsim, 45, seed, timeout=900)
    rounds = []
    for b in sims:
        if len(b) > 1:
            r = sim_to_round(b, rng, len(rounds) + 1)
            if r['steps']:
                rounds.append(r)
    for _ in range(nrand):
        rounds.append(random_round(rng, len(rounds) + 1))
    for path in ('async', 'sync'):
        for paused in (False, True):
            for kind in ('equal', 'far', 'stale'):
                rounds.append(none_case(len(rounds) + 1, path, kind, paused))
    # how the server comes back: (where the newest snapshot was taken) x (restart / install)
    combos = [(s0, how) for s0 in ('none', 'pred', 'gap', 'cur', 'late') for how in ('restart', 'install')]
    for i, (s0, how) in enumerate(combos):
        for path in (('async', 'sync') if thorough else (('async', 'sync')[i % 2],)):
            rounds.append(comeback_case(len(rounds) + 1, path, s0, how))
    rounds.append(comeback_case(len(rounds) + 1, 'async', 'cur', 'restart', occ=False))
    # where the setting comes from (server-wide setting / per-stream option against it) x how the server comes back
    for i, (src, occ, s0, how) in enumerate([('server', True, 'none', 'restart'), ('server', True, 'cur', 'install'),
                                             ('override', True, 'cur', 'restart'), ('override', False, 'none', 'restart'),
                                             ('override', False, 'cur', 'install'), ('server', True, 'late', 'restart')]):
        rounds.append(comeback_case(len(rounds) + 1, ('async', 'sync')[i % 2], s0, how, occ=occ, src=src))
    # an idle PublishAsync session whose publish is answered before it is counted
    for kind in ('stale', 'future', 'equal', 'waive', 'neg'):
        for pol in (('leader', 'all') if thorough or kind in ('stale', 'equal') else ('leader',)):
            rounds.append(hold_case(len(rounds) + 1, kind, pol, racer=kind == 'equal'))
    # who publishes
    for via in ('nats', 'natsq', 'plain', 'subj'):
        for first in (('far', 'equal') if via in ('nats', 'natsq') else ('waive',)):
            for path in (('async', 'sync') if thorough else ('async',)):
                rounds.append(who_case(len(rounds) + 1, via, path, first))
    # stream life cycle x server restart
    for path, recreate, at in (('async', True, 0), ('sync', True, 1), ('async', False, 1)) + (
            (('sync', False, 0), ('async', True, 2), ('sync', True, 2)) if thorough else ()):
        rounds.append(life_case(len(rounds) + 1, path, recreate, at))
    with core.scratch('c16sv') as d:
        trace, died = sv_execute(rounds, d)
        tr, events = sv_judge(rep, rounds, trace)
        core.log('server: %d rounds executed and judged (TLC %.0f s)' % (len(rounds), tr['wall']))
    st = sv_stats(events)
    if died:
        core.log('server process died in round %s: %s' % died)
    return {'rounds': rounds, 'stats': st, 'lines': tr['validated'], 'events': events}


# ------------------------------------------------------------------ self-test of the binding

def selftest_corrupted(rep, cl_trace, sv_events, d):
    """corrupt one recorded field and see TLC reject the trace (both levels); a corruption that is accepted means
    the machinery decides nothing: inconclusive"""
    out = {}
    # commit log: an accepted conditional append is made to claim a different expectation
    lines = core.read_ndjson(cl_trace)
    pick = None
    for i, e in enumerate(lines):
        if (e['a'] == 'Append' and e['st']['cfg']['occ'] and e['obs']['err'] == '' and e['args'].get('recs')
                and e['args']['recs'][0]['exp'] != -1):
            pick = i
            break
    if pick is not None:
        lo = max(j for j in range(pick + 1) if lines[j]['a'] == 'Open')
        hi = next((j for j in range(pick + 1, len(lines)) if lines[j]['a'] == 'Open'), len(lines))
        seg = json.loads(json.dumps(lines[lo:hi]))
        seg[pick - lo]['args']['recs'][0]['exp'] += 1
        f = os.path.join(d, 'corrupt-cl.ndjson')
        with open(f, 'w') as fh:
            for e in seg:
                fh.write(json.dumps(e) + '\n')
        res = core.tlc_trace('Trace_CommitLog.tla', 'Trace_CommitLog.cfg', f)
        hit = [x for x in res['fails'] if x[0] == 'P' and x[3] == 'Append' and x[4] == 'step']
        out['commitlog_expected_offset_changed'] = 'rejected' if hit else 'ACCEPTED'
    # server: (i) an accepted conditional publish claims another expectation, (ii) a refused publish is put into
    # the log, (iii) a success ack names another offset
    rounds = [e for e in sv_events if e['a'] == 'Round' and e['cfg']['occ']]
    cases = []     # (name, corrupted round, the check that must fail)
    for e in rounds:
        i = next((i for i, m in enumerate(e['msgs']) if m['res'] == 'ok' and m['exp'] != -1), None)
        if i is not None:
            ev = json.loads(json.dumps(e))
            ev['msgs'][i]['exp'] += 1
            cases.append(('expected_offset_changed', ev, 'C16_StoredAtExpected'))
            ev = json.loads(json.dumps(e))
            ev['msgs'][i]['off'] += 1
            cases.append(('ack_offset_changed', ev, 'C16_AckOffset'))
            break
    for e in rounds:
        i = next((i for i, m in enumerate(e['msgs']) if m['res'] == 'incorrect_offset'), None)
        if i is not None:
            ev = json.loads(json.dumps(e))
            ev['log'].append({'off': len(ev['log']), 'id': i + 1})
            cases.append(('refused_message_in_log', ev, 'C16_RejectNotStored'))
            break
    # (iv) who publishes: a stored message of a publisher without ack inbox is taken out of the log - one that waived
    # the check, and a conditional one with the right expectation followed directly by its publisher's fence
    def without(e, pos):
        ev = json.loads(json.dumps(e))
        del ev['log'][pos]
        for k, x in enumerate(ev['log']):
            x['off'] = k
        return ev
    for want, name, cond in (('C16_WaivedAccepted', 'silent_waived_taken_out', lambda m: m['exp'] == -1),
                             ('C16_UnstoredJustified', 'silent_conditional_taken_out', lambda m: m['exp'] != -1)):
        found = False
        for e in rounds:
            if found:
                break
            for pos, x in enumerate(e['log']):
                m = e['msgs'][x['id'] - 1] if 0 < x['id'] <= len(e['msgs']) else None
                if not m or m.get('via') != 'natsq' or not cond(m):
                    continue
                if m['exp'] != -1:
                    nxt = e['log'][pos + 1] if pos + 1 < len(e['log']) else None
                    f = e['msgs'][nxt['id'] - 1] if nxt and 0 < nxt['id'] <= len(e['msgs']) else None
                    prev = e['msgs'][e['log'][pos - 1]['id'] - 1] if pos > 0 and e['log'][pos - 1]['id'] > 0 else None
                    if not (f and f.get('kind') == 'fence' and f['p'] == m['p'] and f.get('via') == 'nats'):
                        continue
                    if pos > 0 and not (prev and prev['res'] == 'ok' and prev['ackT'] < m['sendT']):
                        continue
                cases.append((name, without(e, pos), want))
                found = True
                break
    if cases:
        f = os.path.join(d, 'corrupt-sv.ndjson')
        with open(f, 'w') as fh:
            fh.write(json.dumps({'t': 0, 'a': 'Open'}) + '\n')
            for k, (name, ev, want) in enumerate(cases):
                ev['t'] = k + 1
                fh.write(json.dumps(ev) + '\n')
        res = core.tlc_trace('Trace_OccPublish.tla', 'Trace_OccPublish.cfg', f)
        for k, (name, ev, want) in enumerate(cases):
            hit = [x for x in res['fails'] if x[0] == 'P' and x[1] == k + 1 and x[4] == want]
            out['server_' + name] = 'rejected' if hit else 'ACCEPTED'
    rep.cov['selftest_corrupted_trace'] = out
    if not out or 'ACCEPTED' in out.values():
        raise core.Inconclusive('self-test: a corrupted trace was accepted: %s' % out)


# ------------------------------------------------------------------ entry

def run(rep, tier, seed, replay):
    rng = random.Random(seed)
    if replay:
        obj = replay['replay']
        behaviours = obj['behaviours']
        if obj.get('level') == 'server':
            # the schedule of a round is not controlled: execute the saved round many times
            rounds = []
            for i in range(40):
                r = json.loads(json.dumps(behaviours[0]))
                r['id'] = i + 1
                rounds.append(r)
            with core.scratch('c16sv') as d:
                trace, died = sv_execute(rounds, d)
                sv_judge(rep, rounds, trace)
            rep.cov['traces_validated_against_impl'] = len(rounds)
            rep.cov['evaluations'] = len(rounds)
        else:
            with core.scratch('c16cl') as d:
                trace = c01.execute(behaviours, d)
                cl_judge(rep, behaviours, trace)
            rep.cov['traces_validated_against_impl'] = len(behaviours)
            rep.cov['evaluations'] = len(behaviours)
        rep.cov['rule'] = 'replay of a saved stimulus (a server round is executed 40 times: its schedule is free)'
        rep.cov['samples'] = behaviours[:1]
        return
    with core.scratch('c16keep') as keepdir:
        cl = run_commitlog(rep, tier, seed, rng, keepdir)
        sv = run_server(rep, tier, seed, rng)
        if not rep.violations:
            selftest_corrupted(rep, cl['trace'], sv['events'], keepdir)
    st = sv['stats']
    nt_rounds = [r for r in sv['rounds'] if r['id'] in set(st['nontrivial_ids'])]
    rep.cov['traces_validated_against_impl'] = len(cl['behaviours']) + st['rounds']
    rep.cov['trace_lines_validated'] = cl['lines'] + sv['lines']
    rep.cov['evaluations'] = len(cl['behaviours']) + len(sv['rounds'])
    rep.cov['distinct_nontrivial'] = (len({core.sha(b['steps']) for b in cl['nontrivial']}) +
                                      len({core.sha([r['cfg'], r['steps']]) for r in nt_rounds}))
    rep.cov['commitlog'] = {'behaviours': len(cl['behaviours']), 'nontrivial': len(cl['nontrivial']),
                            'conditional_appends_refused': cl['refused'], 'conditional_appends_accepted': cl['accepted']}
    rep.cov['server'] = {k: v for k, v in st.items() if k != 'nontrivial_ids'}
    rep.cov['server']['nontrivial_rounds'] = len(nt_rounds)
    rep.cov['rule'] = ('commit log: behaviours = TLC simulation of MC_CommitLog with concurrency control (expected offset '
                       '-1/stale/equal/future, truncate, reopen, roll) executed lock-step; server: rounds = TLC simulation '
                       'of MC_OccPublish (send/read/barrier steps) + seeded random waves, 2-3 publishers publishing '
                       'concurrently over gRPC with batch.max.messages in {1,2,8,1024} and batch.max.time in {0,1-3ms}; '
                       'non-trivial = as observed in the recorded trace, at least one refused and one accepted '
                       'conditional publish/append; distinct by hash of the stimulus')
    rep.cov['samples'] = cl['behaviours'][:1] + (nt_rounds[:2] or sv['rounds'][:2])
    rep.assumptions += ['one node, replication factor 1; one appender per commit log',
                        'a publisher\'s logical send/answer stamps are taken in one process (sound real-time order)',
                        'TLC 1.8.0 evaluates the TLA+ predicates correctly']
    if (st['timeouts'] or st['aborted'] or st['other_answers']) and not rep.violations:
        raise core.Inconclusive('%d publishes got no answer before the deadline, %d a transport-level error%s' % (
            st['timeouts'], st['other_answers'], ' (remaining rounds not executed)' if st['aborted'] else ''))
