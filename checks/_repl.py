"""Shared machinery of C02 and C04: spec/Replication.tla, the three-replica kit
(harness/server/c02/kit_verif_test.go) and Trace_Replication.tla."""
import os

from vf import core

PROBES = ['EpochConvention', 'EpochGap', 'HWFallback', 'ExpandLagging', 'HWFallbackReported']
# defects repaired in /repo: the probe must be unreachable in the model (thorough tier) and the
# stimulus that used to fail is replayed on the real code in every run (spec/scenarios)
FIXED_PROBES = ['StaleIsrOffset']


def design_check(module, cfg, **kw):
    """core.tlc_check; with VERIF_DESIGN_CACHE=<dir> (used when the same check is run against many patched trees of
    /repo: the design check does not read /repo) the result for identical specification files + config is reused."""
    import json
    cache = os.environ.get('VERIF_DESIGN_CACHE')
    path = None
    if cache:
        texts = []
        for f in sorted(os.listdir(core.SPEC)):
            if f == cfg or (f.endswith('.tla') and ('Replication' in f or f == 'LogDefs.tla')):
                with open(os.path.join(core.SPEC, f)) as fh:
                    texts.append(fh.read())
        path = os.path.join(cache, 'design-%s-%s.json' % (cfg, core.sha(texts)))
        if os.path.exists(path):
            with open(path) as fh:
                return json.load(fh)
    res = core.tlc_check(module, cfg, **kw)
    if path and res.get('ok'):
        os.makedirs(cache, exist_ok=True)
        with open(path + '.tmp%d' % os.getpid(), 'w') as fh:
            json.dump(dict(res, out=res['out'][-2000:], cached=True), fh)
        os.replace(path + '.tmp%d' % os.getpid(), path)
    return res


def to_stimulus(beh, bid, cfg=None):
    steps = []
    for st in beh[1:]:
        a = dict(st['last'])
        if 'lag' in a:
            a['lag'] = sorted(a['lag']['__set__']) if isinstance(a['lag'], dict) else list(a['lag'])
        steps.append(a)
    return {'id': bid, 'cfg': cfg or {'minISR': 2, 'fetchMax': 2, 'rf': 3}, 'steps': steps}


def _role(state, x):
    meta = state['meta']
    if x == meta['leader']:
        return 'L'
    return 'F' if x in meta['isr']['__set__'] else 'O'


def features(beh):
    """abstract features of a TLC behaviour (list of sim steps with parsed state) used for
    coverage-guided selection: what happened, in which abstract situation, after what"""
    feats = set()
    spanned = set()
    held, late_ok = {}, set()
    # replicas that led, lost leadership while up (the same partition object goes on as a follower) and
    # how many records were waiting in their commit queue at that moment
    led = {}
    again = set()
    prev = 'Init'
    prev2 = '-'
    fell = {}
    for idx, st in enumerate(beh[1:]):
        a = st['last']
        # log reconciliation through the HW fallback (the leader epoch offset requests go unanswered): who
        # reconciles, with which HW (-1: the whole log goes), how much it holds above its HW, whether that
        # tail is an orphan (not what the new leader holds there), whether a leader is serving meanwhile
        if a['a'] in ('Restart', 'ApplyMeta', 'Elect') and not a.get('reach', True):
            try:
                pre = beh[idx]['body']
                lg0, hw0 = core.tlaval.state_var(pre, 'log'), core.tlaval.state_var(pre, 'hw')
                up0, role0 = core.tlaval.state_var(pre, 'up'), core.tlaval.state_var(pre, 'role')
                m0 = core.tlaval.state_var(pre, 'meta')
                if a['a'] == 'Elect':
                    ld, who = a['n'], [x for x in up0 if up0[x] and x != a['n']]
                else:
                    ld, who = m0['leader'], [a.get('r', a.get('f'))]
                for x in who:
                    if x == ld:
                        continue
                    tail = lg0[x][hw0[x] + 1:]
                    orphan = tail != lg0[ld][hw0[x] + 1:hw0[x] + 1 + len(tail)]
                    serving = bool(up0[ld] and role0[ld] == 'leader')
                    feats.add(('x', 'fallback', a['a'], hw0[x] < 0, min(len(tail), 2), orphan, serving,
                               x in m0['isr']['__set__']))
                    fell[x] = (hw0[x] < 0, orphan)
            except Exception:
                pass
        elif a['a'] in ('Fetch', 'Deliver') and a.get('f') in fell:
            # ... and the first time afterwards that replica adopts a HW from the leader (what it kept is
            # below a HW from then on)
            try:
                f = a['f']
                if core.tlaval.state_var(st['body'], 'hw')[f] > core.tlaval.state_var(beh[idx]['body'], 'hw')[f]:
                    feats.add(('x', 'hw-after-fallback', a['a']) + fell.pop(f))
            except Exception:
                pass
        elif a['a'] in ('Crash', 'FetchLost') and a.get('r', a.get('f')) in fell:
            fell.pop(a.get('r', a.get('f')), None)
        try:
            state = {k: core.tlaval.state_var(st['body'], k) for k in ('meta', 'up', 'pend', 'taint', 'role', 'isrOff', 'log', 'inflight', 'lagging')}
        except Exception:
            state = None
        kind = a['a']
        if kind == 'Fetch':
            # how the replication response was packed and what it did to the commit point: backlog of the
            # follower before the round trip, records delivered, whether the response was cut, HW moved
            try:
                pre, post = beh[idx]['body'], st['body']
                lg0, lg1 = core.tlaval.state_var(pre, 'log'), core.tlaval.state_var(post, 'log')
                hw0, hw1 = core.tlaval.state_var(pre, 'hw'), core.tlaval.state_var(post, 'hw')
                ld = core.tlaval.state_var(pre, 'meta')['leader']
                back = len(lg0[ld]) - len(lg0[a['f']])
                got = len(lg1[a['f']]) - len(lg0[a['f']])
                feats.add(('x', 'fetch', min(back, 4), got, hw1[ld] > hw0[ld], a.get('late')))
                if len({r['e'] for r in lg1[a['f']][len(lg0[a['f']]):]}) > 1:
                    # one response carried the end of one leader epoch and the start of the next
                    feats.add(('x', 'fetch-spans-epochs'))
                    spanned.add(a['f'])
            except Exception:
                pass
        det = ''
        if state:
            meta = state['meta']
            isr = meta['isr']['__set__']
            if kind == 'Publish':
                det = '/'.join(r['pol'] for r in a['recs'])
            elif kind in ('Fetch', 'Shrink', 'Expand', 'LagExpire'):
                det = _role(state, a['f'])
            elif kind in ('Crash', 'Restart', 'Checkpoint'):
                det = _role(state, a['r']) + ('r' if a.get('reach', True) else 'n')
                if kind == 'Restart' and a['r'] in spanned:
                    feats.add(('x', 'restart-after-span', a.get('reach', True)))
            elif kind == 'FetchLost':
                det = _role(state, a['f'])
                feats.add(('x', 'fetch-lost', det, bool(state['pend'][meta['leader']])))
            elif kind == 'Elect':
                try:
                    pre_meta = core.tlaval.state_var(beh[idx]['body'], 'meta')
                    pre_up = core.tlaval.state_var(beh[idx]['body'], 'up')
                    pre_pend = core.tlaval.state_var(beh[idx]['body'], 'pend')
                    old = pre_meta['leader']
                    if a['n'] in led:
                        # the same partition object leads again after it followed somebody else
                        feats.add(('x', 'leads-again', min(led[a['n']], 2), len(state['log'][a['n']]) > 0))
                        again.add(a['n'])
                    if pre_up[old]:
                        led[old] = len(pre_pend[old])
                except Exception:
                    pass
                det = ('u' if state['up'][a['n']] else 'd') + ('r' if a['reach'] else 'n') + ('L%d' % len(a['lag']['__set__']))
            elif kind in ('StaleFetch', 'ApplyMeta'):
                det = _role(state, a['f'])
            elif kind == 'FetchHold':
                det = _role(state, a['f'])
                held[a['f']] = idx
            elif kind == 'Deliver':
                # a response delivered late: what happened to the follower and the leader in between, whether
                # it carried records, whether the follower (still / again) follows, lagging or not
                det = _role(state, a['f'])
                try:
                    pre = core.tlaval.state_var(beh[idx]['body'], 'inflight')[a['f']][0]
                    between = tuple(sorted({x['last']['a'] for x in beh[held.get(a['f'], idx) + 2:idx + 1]}
                                           & {'Elect', 'PauseResume', 'Crash', 'Restart', 'ApplyMeta', 'Publish', 'Shrink', 'Expand'}))
                    lg = core.tlaval.state_var(beh[idx]['body'], 'log')[a['f']]
                    feats.add(('x', 'deliver', pre['ok'], bool(pre['data']), between,
                               (pre['base'] > len(lg)) - (pre['base'] < len(lg)),
                               state['role'][a['f']], a['f'] in state['lagging']['__set__']))
                    if not pre['ok'] and pre['data'] and pre['base'] == len(lg) and state['role'][a['f']] == 'follower':
                        late_ok.add(a['f'])
                except Exception:
                    pass
            if kind in ('Crash', 'FetchLost', 'Restart'):
                led.pop(a.get('r', a.get('f')), None)
                again.discard(a.get('r', a.get('f')))
            if kind == 'PauseResume':
                led.clear()
                again.clear()
            if meta['leader'] in again and kind in ('Fetch', 'Publish', 'Shrink'):
                try:
                    hw0 = core.tlaval.state_var(beh[idx]['body'], 'hw')
                    hw1 = core.tlaval.state_var(st['body'], 'hw')
                    if hw1[meta['leader']] > hw0[meta['leader']]:
                        feats.add(('x', 'commit-in-second-term', kind, min(led.get(meta['leader'], 0), 2)))
                except Exception:
                    pass
            if kind in ('Fetch', 'Publish') and late_ok:
                # ... and the commit point moves on after a stale response that would have fitted the log
                feats.add(('x', 'after-stale-deliver', kind, kind == 'Fetch' and a['f'] in late_ok))
            # the commit of the leader's oldest pending record is held up only by in-sync members whose
            # offset the leader does not know (-1: re-admitted to the ISR, reset at the start of the term,
            # partition object rebuilt): whoever credits them with anything commits without them
            try:
                ld = meta['leader']
                q = state['pend'][ld]
                if q and state['role'][ld] == 'leader':
                    io = state['isrOff'][ld]
                    unknown = [x for x in io if x != ld and io[x] == -1]
                    known = [io[x] for x in io if x not in unknown]
                    if unknown and known and min(known) >= q[0]['off']:
                        feats.add(('x', 'commit-waits-for-unknown', kind, len(unknown),
                                   any(len(state['log'][x]) <= q[0]['off'] for x in unknown)))
            except Exception:
                pass
            ctx = 'isr%d' % len(isr)
            ctx += 'p' if any(state['pend'][r] for r in state['pend']) else ''
            ctx += 'T' if state['taint']['__set__'] else ''
        else:
            ctx = ''
        k = kind + ':' + det
        feats.add(('s', k, ctx))
        feats.add(('b', prev, k))
        feats.add(('t', prev2, prev, k))
        prev2, prev = prev, k
    return feats


# results of a step that mean "the driver's deadline passed"
TIMING_RES = {'not-parked', 'no-return', 'not-appended', 'no-response', 'no-tick'}


def select(sims, n, rng):
    """greedy selection of at most n behaviours covering as many distinct features as possible"""
    pool = [(b, features(b)) for b in sims if len(b) > 1]
    chosen, covered = [], set()
    while pool and len(chosen) < n:
        best, gain = None, -1
        for i, (b, f) in enumerate(pool):
            # 'x' features (rare situations looked for on purpose) weigh more than action n-grams
            g = sum(8 if x[0] == 'x' else 1 for x in f - covered)
            if g > gain:
                best, gain = i, g
        if gain <= 0:
            break
        b, f = pool.pop(best)
        chosen.append(b)
        covered |= f
    rng.shuffle(pool)
    while pool and len(chosen) < n:
        chosen.append(pool.pop()[0])
    return chosen, len(covered)


def execute(behaviours, d, timeout=1500):
    for b in behaviours:
        # the minimum ISR reaches the partition either through the server setting or through the stream's
        # own override; both routes are exercised (alternating by behaviour id)
        b['cfg'] = dict(b['cfg'])
        # - or through the stream override of a CreateStream request as the API translates it
        b['cfg'].setdefault('minVia', ('server', 'stream', 'api')[b['id'] % 3])
        # a restarted replica gets the metadata by replaying the operations or from a snapshot of a live one
        b['cfg'].setdefault('restartVia', 'snapshot' if b['id'] % 4 >= 2 else 'replay')
    stim = os.path.join(d, 'stim.json')
    trace = os.path.join(d, 'trace.ndjson')
    core.write_json(stim, {'behaviours': behaviours})
    if os.environ.get('VERIF_KEEP'):
        core.log('stimuli at', stim)
    rc, out, wall = core.go_test('server', '^TestVerifReplication$',
                                 {'VERIF_STIMULI': stim, 'VERIF_TRACE_OUT': trace}, timeout=timeout, subs=['c02'])
    if rc != 0 or not os.path.exists(trace):
        raise core.Inconclusive('harness failed rc=%s: %s' % (rc, out[-3000:]))
    return trace


def judge(rep, behaviours, trace, prop, names, trace_cfg='Trace_Replication.cfg'):
    """names: the P-level checks that belong to this property"""
    res = core.tlc_trace('Trace_Replication.tla', trace_cfg, trace, timeout=1800)
    by_id = {b['id']: b for b in behaviours}
    bad, drifting, drift_lines = {}, [], {}
    # drift on variables that are part of the replicated state (not internal bookkeeping)
    material = {'log', 'hw', 'ec', 'role', 'up', 'meta', 'acks', 'guard', 'skipped', 'tick-guard'}
    for f in res['fails']:
        kind, tid, line, action, name, taint = f
        if kind == 'I':
            rep.drift({'behaviour': tid, 'line': line, 'action': action, 'what': name})
            if name in material:
                drift_lines.setdefault(tid, []).append(line)
            if by_id[tid] not in drifting:
                drifting.append(by_id[tid])
            continue
        if name not in names:
            continue
        bad.setdefault(tid, []).append((line, action, name, taint))
    if drifting:
        core.write_json(os.path.join(core.BUILD, 'drift-%s.json' % prop), {'replay': {'behaviours': drifting[:20]}})
    # a step the DRIVER gave up on after a deadline (goroutine not back at its gate, record not appended, no
    # response, no health tick in time) is machine load or a hang - the two cannot be told apart here - and the
    # rest of that behaviour is not the history the stimulus describes: property failures at or after such a
    # step are not classified; the run ends inconclusive (exit 2) instead, never as a violation
    timed = {}
    try:
        for i, e in enumerate(core.read_ndjson(trace)):
            if e.get('res') in TIMING_RES:
                timed.setdefault(e.get('t'), i + 1)
    except Exception:
        timed = {}
    for tid, fl in bad.items():
        fl.sort()
        line, action, name, taint = fl[0]
        if tid in timed and timed[tid] <= line:
            rep.cov['failures_after_a_timed_out_step'] = rep.cov.get('failures_after_a_timed_out_step', 0) + 1
            core.log('behaviour %s: %s fails at line %d after the driver timed out at line %d - not classified' % (tid, name, line, timed[tid]))
            continue
        # a known finding is only credited when the real code followed the specified (code-faithful)
        # actions exactly up to the failing step; otherwise the history is not the recorded one
        conform = 'yes' if not [x for x in drift_lines.get(tid, []) if x <= line] else 'no'
        sig = '%s|%s|taint=%s|conform=%s' % (prop, name, taint.rstrip(','), conform)
        rep.classify(sig, 'first failing step: line %d action %s check %s (known-defect tags so far: %s; real code '
                          'conformed to the specification up to this step: %s)' % (line, action, name, taint, conform),
                     {'behaviours': [by_id[tid]]})
    return res


def probe_stimuli(rep, first_id=9001):
    """TLC counterexamples for every known-defect tag, as stimuli"""
    out = []
    for i, tag in enumerate(PROBES):
        names, beh = core.tlc_counterexample('MC_Replication.tla', 'Probe_Replication_%s.cfg' % tag)
        rep.cov.setdefault('defect_probes', []).append({'tag': tag, 'reachable': bool(names),
                                                        'steps': len(beh) - 1 if beh else 0})
        if beh:
            st = to_stimulus(beh, first_id + i)
            if st['steps'][-1]['a'] == 'Fetch':
                # the response may carry the HW from before the commit ran: one more round trip
                # lets the follower adopt the leader's HW, as the counterexample assumes
                st['steps'].append(dict(st['steps'][-1]))
            out.append(st)
    return out


def sizes_stage(rep, tier, seed, rng, prop, names, quick_n=40):
    """records of two sizes: a replication response is packed by size, the record that does not fit leads
    the next response (WideEvery = 2: every second message takes two units)"""
    res = design_check('MC_Replication.tla', 'MC_Replication_sizes.cfg', timeout=1800)
    rep.add_design('MC_Replication_sizes.cfg', res)
    pool = core.tlc_simulate('MC_Replication.tla', 'Sim_Replication_sizes.cfg', 500 if tier == 'quick' else 5000, 18, seed + 3, timeout=2400)
    sims, _ = select(pool, quick_n if tier == 'quick' else 400, rng)
    b3 = [to_stimulus(b, 8000 + i, {'minISR': 2, 'fetchMax': 2, 'rf': 3, 'wideEvery': 2})
          for i, b in enumerate(sims) if len(b) > 1]
    with core.scratch(prop.lower()) as d:
        trace = execute(b3, d, timeout=3000)
        tr3 = judge(rep, b3, trace, prop, names, 'Trace_Replication_sizes.cfg')
    return b3, tr3['validated']


# defective variants of single decisions of the MODEL (Mutant_Replication_<name>.cfg): TLC's counterexample of
# each is a directed scenario in which exactly that decision matters; the real code must pass it
MODEL_MUTANTS = ['OffsetsNone', 'OffsetsAhead', 'LateAccept']


def mutant_stimuli(rep, first_id=9301):
    out = []
    for i, name in enumerate(MODEL_MUTANTS):
        names, beh = core.tlc_counterexample('MC_Replication.tla', 'Mutant_Replication_%s.cfg' % name, workers=1)
        rep.cov.setdefault('model_mutants', []).append({'variant': name, 'counterexample_steps': len(beh) - 1 if beh else 0})
        if not beh:
            raise core.Inconclusive('model variant %s has no counterexample any more' % name)
        st = to_stimulus(beh, first_id + i)
        if st['steps'][-1]['a'] == 'Fetch':
            st['steps'].append(dict(st['steps'][-1]))
        out.append(st)
    return out


def run(rep, tier, seed, replay, prop, names, relevant, rule, rf1=False, mc_quick='MC_Replication.cfg'):
    if replay:
        behaviours = replay['replay']['behaviours']
        def trace_cfg(b):
            c = b['cfg']
            if c.get('wideEvery'):
                return 'Trace_Replication_sizes.cfg'
            if c.get('rf', 3) == 1:
                return 'Trace_Replication_rf1min2.cfg' if c.get('minISR', 1) == 2 else 'Trace_Replication_rf1.cfg'
            return 'Trace_Replication.cfg'
        for tcfg in sorted({trace_cfg(b) for b in behaviours}):
            bs = [b for b in behaviours if trace_cfg(b) == tcfg]
            with core.scratch(prop.lower()) as d:
                trace = execute(bs, d)
                judge(rep, bs, trace, prop, names, tcfg)
        if rep.cov.get('failures_after_a_timed_out_step') and not rep.violations:
            raise core.Inconclusive('a property failed after a step on which the driver had timed out (machine load?)')
        rep.cov['rule'] = 'replay of a saved stimulus'
        rep.cov['samples'] = behaviours[:1]
        rep.cov['evaluations'] = len(behaviours)
        return
    designs = [mc_quick, 'MC_Replication_late.cfg', 'MC_Replication_fallback_quick.cfg'] if tier == 'quick' else ['MC_Replication_late_thorough.cfg', 'MC_Replication_thorough.cfg', 'MC_Replication_alive.cfg',
                                                   'MC_Replication_acks.cfg', 'MC_Replication_fallback.cfg']
    for cfg in designs:
        res = design_check('MC_Replication.tla', cfg, timeout=3 * 3600, coverage=False, heap='4g' if tier == 'quick' else None)
        rep.add_design(cfg, res)
    behaviours = probe_stimuli(rep) + mutant_stimuli(rep)
    import json
    for fn in ('replication_regressions.json', 'replication_defects.json', 'replication_directed.json'):
        # fixed stimuli: histories that exposed repaired defects, and one TLC counterexample per open
        # defect (so that every run replays the same histories and prints the same KNOWN-FINDING lines)
        with open(os.path.join(core.SPEC, 'scenarios', fn)) as fh:
            behaviours += [dict(b, cfg=b.get('cfg') or {'minISR': 2, 'fetchMax': 2, 'rf': 3}) for b in json.load(fh)['behaviours']]
    if tier == 'thorough':
        for tag in FIXED_PROBES:
            names_, beh = core.tlc_counterexample('MC_Replication.tla', 'Probe_Replication_%s.cfg' % tag, timeout=3600)
            rep.cov.setdefault('defect_probes', []).append({'tag': tag, 'reachable': bool(names_), 'fixed': True})
            if beh:
                # the repaired defect is reachable again in the model: replay on the real code decides
                behaviours.append(to_stimulus(beh, 9200))
    import random
    rng = random.Random(seed)
    # coverage-guided selection: simulate a large pool (cheap), replay the subset that covers the
    # most distinct (action, abstract situation) / action-pair / action-triple features
    pool = core.tlc_simulate('MC_Replication.tla', 'Sim_Replication.cfg', 1500 if tier == 'quick' else 20000, 18, seed, timeout=2400)
    # + the scenario family "a replica catches up across a leader change and is then restarted / elected"
    pool += core.tlc_simulate('MC_ReplicationFam.tla', 'Sim_ReplicationFam.cfg', 700 if tier == 'quick' else 7000, 18, seed + 5, timeout=2400)
    # + "the in-sync set changes while records are in flight", "a replication response is delivered late" and
    # "a replica that led and then followed leads again"
    # + (round 5) "a replica with an un-replicated tail rejoins while its leader epoch offset requests go
    # unanswered (HW fallback; HW -1 = the log is emptied)"
    for i, fam in enumerate(('isr', 'late', 'again', 'fallback')):
        pool += core.tlc_simulate('MC_ReplicationFam2.tla', 'Sim_ReplicationFam2_%s.cfg' % fam,
                                  (300 if fam == 'fallback' else 500) if tier == 'quick' else 2000,
                                  18, seed + 7 + i, timeout=2400)
    sims, nfeat = select(pool, 165 if tier == 'quick' else 1500, rng)
    rep.cov['selection'] = {'pool': len(pool), 'selected': len(sims), 'features_covered': nfeat}
    behaviours += [to_stimulus(b, i + 1) for i, b in enumerate(sims) if len(b) > 1]
    with core.scratch(prop.lower()) as d:
        trace = execute(behaviours, d, timeout=6000)
        tr = judge(rep, behaviours, trace, prop, names)
    lines = tr['validated']
    if rf1:
        # replication factor 1 (fast path): one replica, min ISR 1
        res = design_check('MC_Replication.tla', 'MC_Replication_rf1.cfg', timeout=1800)
        rep.add_design('MC_Replication_rf1.cfg', res)
        sims = core.tlc_simulate('MC_Replication.tla', 'Sim_Replication_rf1.cfg', 40 if tier == 'quick' else 400, 14, seed + 1, timeout=2400)
        b1 = [to_stimulus(b, 5000 + i, {'minISR': 1, 'fetchMax': 2, 'rf': 1}) for i, b in enumerate(sims) if len(b) > 1]
        with core.scratch(prop.lower()) as d:
            trace = execute(b1, d, timeout=3000)
            tr1 = judge(rep, b1, trace, prop, names, 'Trace_Replication_rf1.cfg')
        behaviours += b1
        lines += tr1['validated']
        # ... and a minimum ISR the single replica can never reach (min ISR 2, via the server setting or the
        # stream override): LEADER / NONE publishes go on, ALL publishes are stored but never acknowledged
        res = design_check('MC_Replication.tla', 'MC_Replication_rf1min2.cfg', timeout=1800)
        rep.add_design('MC_Replication_rf1min2.cfg', res)
        sims = core.tlc_simulate('MC_Replication.tla', 'Sim_Replication_rf1min2.cfg', 20 if tier == 'quick' else 200, 12, seed + 4, timeout=2400)
        b1m = [to_stimulus(b, 5500 + i, {'minISR': 2, 'fetchMax': 2, 'rf': 1}) for i, b in enumerate(sims) if len(b) > 1]
        with core.scratch(prop.lower()) as d:
            trace = execute(b1m, d, timeout=3000)
            tr1m = judge(rep, b1m, trace, prop, names, 'Trace_Replication_rf1min2.cfg')
        behaviours += b1m
        lines += tr1m['validated']
    if rf1:
        # batches of up to two messages with mixed ack policies (BatchMaxMessages = 2)
        res = design_check('MC_Replication.tla', 'MC_Replication_batch.cfg', timeout=1800)
        rep.add_design('MC_Replication_batch.cfg', res)
        sims = core.tlc_simulate('MC_Replication.tla', 'Sim_Replication_batch.cfg', 25 if tier == 'quick' else 300, 14, seed + 2, timeout=2400)
        # every other behaviour sends the members of a batch 25 ms apart, so that the later ones
        # arrive while the leader is waiting for the batch to fill (a different code path)
        b2 = [to_stimulus(b, 7000 + i, {'minISR': 2, 'fetchMax': 2, 'rf': 3, 'batch': 2, 'gapMs': 25 * (i % 2)})
              for i, b in enumerate(sims) if len(b) > 1]
        with core.scratch(prop.lower()) as d:
            trace = execute(b2, d, timeout=3000)
            tr2 = judge(rep, b2, trace, prop, names)
        behaviours += b2
        lines += tr2['validated']
    b3, l3 = sizes_stage(rep, tier, seed, rng, prop, names)
    behaviours += b3
    lines += l3
    if rep.cov.get('failures_after_a_timed_out_step') and not rep.violations:
        raise core.Inconclusive('%d behaviour(s) failed a property after a step on which the driver had timed out (machine load?)'
                                % rep.cov['failures_after_a_timed_out_step'])
    rep.cov['traces_validated_against_impl'] = len(behaviours)
    rep.cov['trace_lines_validated'] = lines
    rep.cov['evaluations'] = len(behaviours)
    rep.cov['distinct_nontrivial'] = len({core.sha(b['steps']) for b in behaviours if relevant(b)})
    rep.cov['rule'] = ('behaviours = TLC counterexamples of the known-defect probes + regression scenarios of fixed defects + '
                       'seeded TLC simulation of MC_Replication (Sim_Replication*.cfg); ' + rule + '; distinct by hash of the step list')
    rep.cov['samples'] = behaviours[:2]
    rep.assumptions += ['controller decisions played by the harness (Raft trusted)', 'NATS delivery trusted',
                        'metadata ops applied to all live replicas in one step']
