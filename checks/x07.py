"""X07 (additional check, not a listed property) - configuration precedence: what the operator (configuration
file) and the stream creator (CreateStream overrides) configured is what the partition's log runs with.

spec/ConfigPrec.tla (+ MC_ConfigPrec, Gen_ConfigPrec.cfg, Sim_ConfigPrec.cfg, Trace_ConfigPrec);
harness/server/x07/x07_verif_test.go
"""
import concurrent.futures
import os
import random
import re
import shutil

from vf import core, graph, tlaval

META = {
    'property_id': 'X07',
    'confirm_by_replay': True,
    'level': 'model_checking',
    'technique': 'decision-table transcription in TLA+ (ConfigPrec.tla): 13 per-stream settings x (configuration file '
                 'value | absent) x (CreateStream override | absent) -> what the partition, its commit log and its '
                 'cleaners run with, one action per stage of the plumbing (defaults, file parse, stored stream '
                 'configuration, ApplyOverrides / commitlog.Options / commitlog.New, restart from the Raft log or a '
                 'snapshot, file edited between restarts, pause + resume); TLC enumerates the table and its state graph '
                 'is the test generator; every generated path is executed through the real NewConfig (harness-written '
                 'YAML), getStreamConfig, the protobuf encoding of the stored stream and Server.newPartition / '
                 'replacePartition, a covering subset on a live one-node server started from the file alone; TLC judges '
                 'every recorded step (trace validation)',
    'level_text': 'TLC enumerates, for every focus of one or two of the 13 settings (91 foci), every combination of their '
                  'file values and override values (absent, zero / false, a positive value distinct per setting, a '
                  'negative value for retention.max.bytes and auto.pause.time), with and without a configuration file, '
                  'two streams created one after the other, and restart (log / snapshot), edited file + restart, pause + '
                  'resume; the design check proves on the model: override wins, else the file, else the documented '
                  'default; restart-stable; the second stream and the server-wide object are untouched by a stream\'s '
                  'overrides.  The transition graph of the one-stream instance is covered by paths that are replayed on '
                  'the real code (quick: every create transition + a seeded sample of the rest; thorough: every '
                  'transition), plus seeded combinations over all 13 settings at once, plus TLC-simulated two-stream life '
                  'cycles on a live server (CreateStream / PauseStream / resume through the API object, real restarts).',
    'level_note': 'A case analysis turned into an exhaustive table and every table row into an implementation test; the '
                  'settings are independent in the code (except segment.max.age <- retention.max.age), so pairs of '
                  'settings cover the interactions the model has, and cross-wiring between any two fields of one type shows '
                  'because the representative values are pairwise distinct.  What a limit *does* once it has arrived is '
                  'the business of C08 / C09 / C16 / C17 / X02.',
    'design_ref': 'design_notes/X07.md',
}

GO_RUN = '^TestVerifX07$'
QUICK_CREATES = 3500
ABS = -9
KEYS = ['rbytes', 'rmsgs', 'rage', 'clean', 'sbytes', 'sage', 'compact', 'cgor', 'apause', 'adis', 'minisr', 'occ', 'enc']
# MC_ConfigPrec!FV / OV
FV = {'rbytes': [0, 1024, -1], 'rmsgs': [0, 100], 'rage': [0, 3600000], 'clean': [0, 60000], 'sbytes': [0, 4096],
      'sage': [0, 120000], 'compact': [0, 1], 'cgor': [0, 3], 'apause': [0, 7200000, -1000], 'adis': [0, 1],
      'minisr': [1, 2], 'occ': [0, 1], 'enc': [0, 1]}
OV = {'rbytes': [0, 2048], 'rmsgs': [0, 7], 'rage': [0, 61000], 'clean': [0, 31000], 'sbytes': [0, 8192],
      'sage': [0, 45000], 'compact': [0, 1], 'cgor': [0, 2], 'apause': [0, 3601000], 'adis': [0, 1],
      'minisr': [1, 3], 'occ': [0, 1], 'enc': [0, 1]}


def sparse(m):
    """{setting: value} without the absent ones"""
    return {k: v for k, v in (m or {}).items() if v != ABS}


# ---------------------------------------------------------------- TLC state graph -> unit behaviours
_var_cache = {}


def node_var(g, nid, var):
    key = (nid, var)
    if key not in _var_cache:
        _var_cache[key] = tlaval.state_var(g['nodes'][nid], var)
    return _var_cache[key]


def edge_step(g, i):
    """the stimulus step of edge i (None for the stages that the driver performs as part of a call)"""
    src, dst, label = g['edges'][i]
    name, args = graph.parse_label(label)
    if name in ('MCDefault', 'MCParseFile', 'MCOpen'):
        return None
    if name == 'MCRestart':
        return {'a': 'Restart', 'snap': bool(args[0])}
    if name == 'MCPauseResume':
        return {'a': 'PauseResume', 's': int(args[0])}
    # TLC labels actions with record arguments "MCNext": the arguments are read off the two states
    ex0, ex1 = node_var(g, src, 'ex'), node_var(g, dst, 'ex')
    for s in range(len(ex1)):
        if ex1[s] == 'created' and ex0[s] == 'no':
            return {'a': 'Create', 's': s + 1, 'ovr': sparse(node_var(g, dst, 'req')[s])}
    f0, f1 = node_var(g, src, 'file'), node_var(g, dst, 'file')
    if f0 != f1:
        return {'a': 'Change', 'file': sparse(f1)}
    raise core.Inconclusive('edge %r of the generator graph cannot be read' % (g['edges'][i],))


def unit_behaviours(g, paths, rng):
    out = []
    for root, p in paths:
        steps = [s for s in (edge_step(g, i) for i in p) if s]
        if not steps:
            continue
        out.append({'cfg': {'level': 'unit', 'hasFile': bool(node_var(g, root, 'hasFile')),
                            'file': sparse(node_var(g, root, 'file')), 'spell': rng.randrange(6)},
                    'steps': steps, 'fam': 'graph'})
    return out


def random_map(rng, vals, p_abs):
    return {k: rng.choice(vals[k]) for k in KEYS if rng.random() >= p_abs}


def full_random(rng, n, level):
    """combinations over all 13 settings at once (the model's foci are pairs)"""
    out = []
    for _ in range(n):
        steps = [{'a': 'Create', 's': 1, 'ovr': random_map(rng, OV, 0.45)},
                 {'a': 'Create', 's': 2, 'ovr': random_map(rng, OV, 0.45)}]
        tail = [{'a': 'Restart', 'snap': rng.random() < 0.5}, {'a': 'PauseResume', 's': rng.choice([1, 2])},
                {'a': 'Change', 'file': random_map(rng, FV, 0.45)}, {'a': 'Restart', 'snap': rng.random() < 0.5}]
        rng.shuffle(tail)
        out.append({'cfg': {'level': level, 'hasFile': True, 'file': random_map(rng, FV, 0.45), 'spell': rng.randrange(6)},
                    'steps': steps + tail[:3 if level == 'live' else 4], 'fam': 'full'})
    return out


def live_from_sims(sims, rng, n):
    """two-stream life cycles of the specification for the live server"""
    cands = {}
    for st in sims:
        if len(st) < 4:
            continue
        steps = []
        for x in st[1:]:
            last = x['last']
            a = last.get('a')
            if a == 'CreateStream':
                steps.append({'a': 'Create', 's': int(last['s']), 'ovr': sparse(last['ovr'])})
            elif a == 'Restart':
                steps.append({'a': 'Restart', 'snap': bool(last['snap'])})
            elif a == 'Change':
                steps.append({'a': 'Change', 'file': sparse(last['file'])})
            elif a == 'PauseResume':
                steps.append({'a': 'PauseResume', 's': int(last['s'])})
        # a create whose partition was not opened before the behaviour ended is performed completely by the driver
        hf = bool(tlaval.state_var(st[0]['body'], 'hasFile'))
        if not hf or not steps:
            continue        # the live server is started from its file
        b = {'cfg': {'level': 'live', 'hasFile': True, 'file': sparse(tlaval.state_var(st[0]['body'], 'file')),
                     'spell': rng.randrange(6)}, 'steps': steps, 'fam': 'sim'}
        cands[core.sha([b['cfg']['file'], steps])] = b

    def score(b):
        names = [s['a'] for s in b['steps']]
        nz = sum(len(s.get('ovr', {})) for s in b['steps']) + len(b['cfg']['file'])
        return (names.count('Create') == 2, len(set(names)), nz)
    lst = sorted(cands.values(), key=lambda b: (score(b), core.sha(b['steps'])), reverse=True)
    head = lst[:4 * n]
    rng.shuffle(head)
    # every kind of call at least once among the chosen
    chosen = head[:n]
    return chosen


# ---------------------------------------------------------------- execution / verdict
def cost(b):
    if b['cfg']['level'] != 'live':
        return 0.004 * (1 + len(b['steps']))
    return 2.5 + sum(2.5 if s['a'] in ('Restart', 'Change') else 0.1 for s in b['steps'])


def execute(behaviours, d, tag, procs):
    """runs the behaviours in up to `procs` processes of one test binary; returns the concatenated trace"""
    import subprocess
    ov = core.make_overlay(d, 'server', ['x07'])
    binp = os.path.join(d, 'x07.test')
    if not os.path.exists(binp):
        p = subprocess.run(['go', 'test', '-tags', 'verif', '-overlay', ov, '-vet=off', '-c', '-o', binp, './server'],
                           cwd=core.REPO, env=core.go_env(), stdout=subprocess.PIPE, stderr=subprocess.STDOUT, text=True,
                           timeout=900)
        if p.returncode != 0 or not os.path.exists(binp):
            raise core.Inconclusive('building the harness failed: %s' % p.stdout[-3000:])
    n = max(1, min(procs, len(behaviours)))
    bins = [[0.0, []] for _ in range(n)]
    for b in sorted(behaviours, key=cost, reverse=True):
        tgt = min(bins, key=lambda x: x[0])
        tgt[0] += cost(b)
        tgt[1].append(b)

    def one(i):
        bs = sorted(bins[i][1], key=lambda b: b['id'])
        stim = os.path.join(d, 'stim-%s-%d.json' % (tag, i))
        trace = os.path.join(d, 'trace-%s-%d.ndjson' % (tag, i))
        tmp = os.path.join(d, 'tmp-%s-%d' % (tag, i))
        os.makedirs(tmp, exist_ok=True)
        core.write_json(stim, {'behaviours': bs})
        env = core.go_env()
        env.update({'VERIF_STIMULI': stim, 'VERIF_TRACE_OUT': trace, 'TMPDIR': tmp})
        for k in list(env):
            if k.startswith('LIFTBRIDGE_'):
                env.pop(k)           # the configuration file is the only source in this check
        rc, out, wall = core._run([binp, '-test.run', GO_RUN, '-test.timeout', '1500s', '-test.count', '1'],
                                  os.path.join(core.REPO, 'server'), env, 1560)
        shutil.rmtree(tmp, ignore_errors=True)
        if rc != 0 or not os.path.exists(trace):
            raise core.Inconclusive('harness failed rc=%s: %s' % (rc, out[-3000:]))
        return trace
    with concurrent.futures.ThreadPoolExecutor(max_workers=n) as ex:
        traces = list(ex.map(one, range(n)))
    allp = os.path.join(d, 'trace-%s.ndjson' % tag)
    with open(allp, 'w') as fh:
        for t in traces:
            with open(t) as src:
                shutil.copyfileobj(src, fh)
    if os.environ.get('VERIF_KEEP'):
        shutil.copy(allp, os.path.join(core.BUILD, 'x07-last-trace-%s.ndjson' % tag))
    return allp


CHUNK_LINES = 12000


def validate(trace, d, tag, procs):
    """TLC judges the trace in chunks of whole behaviours (the Json module holds a whole file in memory); returns
    (fails with line numbers of the whole trace, number of validated lines)"""
    chunks, cur, n, start = [], [], 0, 1
    with open(trace) as fh:
        for line in fh:
            if line.startswith('{"t":') and '"a":"Open"' in line[:40] and len(cur) >= CHUNK_LINES:
                chunks.append((start, cur))
                start, cur = n + 1, []
            cur.append(line)
            n += 1
    if cur:
        chunks.append((start, cur))

    def one(i):
        off, lines = chunks[i]
        p = os.path.join(d, 'chunk-%s-%d.ndjson' % (tag, i))
        with open(p, 'w') as fh:
            fh.writelines(lines)
        res = core.tlc_trace('Trace_ConfigPrec.tla', 'Trace_ConfigPrec.cfg', p, timeout=1700)
        os.remove(p)
        return [(k, t, ln + off - 1, a, nm) for k, t, ln, a, nm in res['fails']], res['validated'] or 0
    with concurrent.futures.ThreadPoolExecutor(max_workers=max(1, min(procs, 4))) as ex:
        done = list(ex.map(one, range(len(chunks))))
    return [f for fs, _ in done for f in fs], sum(v for _, v in done)


def judge(rep, behaviours, d, tag, procs, stats):
    by_id = {b['id']: b for b in behaviours}
    trace = execute(behaviours, d, tag, procs)
    fails, validated = validate(trace, d, tag, procs)
    stats['lines'] = stats.get('lines', 0) + validated
    events = None
    firsts = {}
    for kind, tid, line, action, name in fails:
        b = by_id.get(tid)
        if kind == 'C':
            raise core.Inconclusive('the trace has a line the specification does not know (behaviour %s, line %s)' % (tid, line))
        if kind == 'I':
            rep.drift({'behaviour': tid, 'line': line, 'action': action, 'what': name, 'level': b['cfg']['level'] if b else '',
                       'file': b['cfg']['file'] if b else None, 'steps': b['steps'] if b else None})
            continue
        if tid not in firsts or line < firsts[tid][0]:
            firsts[tid] = (line, [(action, name)])
        elif line == firsts[tid][0]:
            firsts[tid][1].append((action, name))
    for tid in sorted(firsts):
        line, fails = firsts[tid]
        b = by_id[tid]
        if events is None:
            events = core.read_ndjson(trace)
        ev = events[line - 1]
        start = max(i for i in range(line) if events[i]['a'] == 'Open' and events[i]['t'] == tid)
        nsteps = line - 1 - start - 1          # steps of the stimulus up to and including the failing one (Open, Load precede)
        for action, name in fails:
            sig = 'X07|%s|%s|%s' % (name, action, b['cfg']['level'])
            desc = ('%s at %s (%s level); file %s; steps %s; the stream runs with %s; error %r'
                    % (name, action, b['cfg']['level'], b['cfg']['file'] if b['cfg']['hasFile'] else '(none)',
                       b['steps'][:max(nsteps, 0)], [sparse(e) for e in ev['st']['eff']], ev.get('err', '')))
            rep.classify(sig, desc, {'behaviours': [dict(b, steps=b['steps'][:max(nsteps, 0)], id=1)]})


def relevant(b):
    return any(s['a'] == 'Create' for s in b['steps'])


def run(rep, tier, seed, replay):
    import time
    t0 = time.time()

    def lap(what):
        core.log('x07: %-30s %6.1f s' % (what, time.time() - t0))
    quick = tier == 'quick'
    rng = random.Random(seed)
    procs = max(2, min(core.NCPU, 6))
    stats = {}
    if replay:
        behaviours = replay['replay']['behaviours']
        for i, b in enumerate(behaviours):
            b['id'] = i + 1
        with core.scratch('x07') as d:
            judge(rep, behaviours, d, 'replay', 1, stats)
        rep.cov['rule'] = 'replay of a saved stimulus'
        rep.cov['samples'] = behaviours[:1]
        return
    # 1. design: the plumbing as coded keeps what the documentation promises, for every focus
    res = core.tlc_check('MC_ConfigPrec.tla', 'MC_ConfigPrec.cfg' if quick else 'MC_ConfigPrec_thorough.cfg',
                         timeout=2400, coverage=not quick, heap='6g')
    rep.add_design('MC_ConfigPrec', res)
    if res['violated']:
        raise core.Inconclusive('the design model violates %s (fix the specification)' % res['violated'])
    lap('design check')
    # 2. the decision table as a state graph; its transitions covered by paths
    g = graph.tlc_dump('MC_ConfigPrec.tla', 'Gen_ConfigPrec.cfg', workers=min(core.NCPU, 4), timeout=1200)
    paths, ncov, nedges = graph.cover(g)
    lap('generator graph + cover')
    if ncov != nedges:
        raise core.Inconclusive('the path cover misses %d transitions of the generator graph' % (nedges - ncov))

    # a path = Default, ParseFile, Create, Open, one life-cycle operation: grouped by their create transition
    by_create = {}
    for p in paths:
        by_create.setdefault(p[1][2] if len(p[1]) > 2 else -1, []).append(p)
    n_all = len(paths)
    if quick:
        # seeded sample: QUICK_CREATES create transitions, each with one of its operations
        keys = sorted(by_create)
        rng.shuffle(keys)
        paths_run = [rng.choice(by_create[k]) for k in keys[:QUICK_CREATES]]
    else:
        paths_run = paths
    behaviours = unit_behaviours(g, paths_run, rng)
    rep.cov['generator'] = {'config': 'Gen_ConfigPrec.cfg', 'states': len(g['nodes']), 'transitions': nedges,
                            'create_transitions': len([k for k in by_create if k != -1]),
                            'paths_covering_all_transitions': n_all, 'paths_replayed': len(behaviours)}
    lap('stimuli from the graph')
    # 3. all 13 settings at once (seeded)
    behaviours += full_random(rng, 600 if quick else 4000, 'unit')
    # 4. live server: TLC-simulated two-stream life cycles + combinations over all settings
    sims = core.tlc_simulate('MC_ConfigPrec.tla', 'Sim_ConfigPrec.cfg', 400 if quick else 2000, 12, seed, timeout=900)
    live = live_from_sims(sims, rng, 10 if quick else 60) + full_random(rng, 4 if quick else 24, 'live')
    if len(live) < 6:
        raise core.Inconclusive('simulation produced only %d live life cycles' % len(live))
    lap('simulation')
    behaviours += live
    for i, b in enumerate(behaviours):
        b['id'] = i + 1
    with core.scratch('x07') as d:
        judge(rep, [b for b in behaviours if b['cfg']['level'] == 'unit'], d, 'unit', procs, stats)
        lap('unit level executed + judged')
        judge(rep, [b for b in behaviours if b['cfg']['level'] == 'live'], d, 'live', procs, stats)
        lap('live level executed + judged')
    units = [b for b in behaviours if b['cfg']['level'] == 'unit']
    rep.cov['traces_validated_against_impl'] = len(behaviours)
    rep.cov['trace_lines_validated'] = stats.get('lines', 0)
    rep.cov['evaluations'] = sum(1 + len(b['steps']) for b in behaviours)
    rep.cov['distinct_nontrivial'] = len({core.sha([b['cfg']['level'], b['cfg']['hasFile'], b['cfg']['file'], b['steps']])
                                          for b in behaviours if relevant(b)})
    rep.cov['distinct_file_override_combinations'] = len({core.sha([b['cfg']['hasFile'], b['cfg']['file'], s['ovr']])
                                                          for b in behaviours for s in b['steps'] if s['a'] == 'Create'})
    rep.cov['families'] = {}
    for b in behaviours:
        f = b['cfg']['level'] + '-' + b.get('fam', '')
        rep.cov['families'][f] = rep.cov['families'].get(f, 0) + 1
    rep.cov['live_behaviours'] = len(live)
    rep.cov['exhaustive'] = not quick   # thorough: every transition of the generator graph is replayed
    rep.cov['rule'] = ('evaluation = one call (load the file, create a stream with overrides, restart, edit the file + '
                       'restart, pause + resume) on the real code with the real Config / stored StreamConfig / partition / '
                       'commit-log options / cleaner settings projected after it, judged by TLC; behaviours: paths covering '
                       'the transitions of the one-stream generator graph%s, seeded combinations over all 13 settings, '
                       'TLC-simulated two-stream life cycles on a live one-node server; distinct = different (level, file, '
                       'steps); non-trivial = a stream is created' % (' (seeded sample)' if quick else ' (all of them)'))
    rep.cov['samples'] = [units[0], units[len(units) // 2], live[0]]
    rep.assumptions += ['one node, replication factor 1, one partition per stream',
                        'no LIFTBRIDGE_* environment variable is set (the documented environment route is not part of X07)',
                        'the effective values are read from the objects that use them (delete cleaner retention, compact '
                        'cleaner goroutines, commitlog.Options of the open log, partition fields) by read-only reflection',
                        'TLC evaluates the TLA+ predicates correctly']
