"""C09 - retention removes only whole oldest segments, no more than the limits require.

spec/Cleaner.tla (+ MC_Cleaner, Trace_Cleaner); harness/commitlog/cleaner_common_verif_test.go + c09/
"""
from vf import core
from checks import _cleaner as cl

META = {
    'property_id': 'C09',
    'level': 'model_checking',
    'technique': 'TLA+ spec (Cleaner.tla on top of CommitLog.tla) checked exhaustively by TLC; TLC-generated behaviours '
                 '(segment layouts built by appends of different sizes and write times, clock ticks, all combinations of '
                 'the age/message/byte limits, repeated cleans, appends that roll segments between the snapshot and the '
                 'swap of Clean(), reopen) replayed on the real commit log; every recorded step and a full read-back '
                 'judged by TLC (trace validation)',
    'level_text': 'TLC enumerates every behaviour of the bounded model and proves that retention as the code performs it '
                  'removes only a minimal prefix of whole segments; simulated deeper behaviours are executed on the real '
                  'commitLog.Clean() with the repository\'s computeTTL mock as clock, and TLC re-judges each real clean '
                  '(prefix, never the newest, minimality, limits hold afterwards, surviving suffix unchanged, OldestOffset) '
                  'and each real state (fresh readers from every start offset); cleans with an injected transient deletion error are '
                  'retried; the route from server defaults and per-stream overrides (absent / explicit 0 / value) to the '
                  'cleaner is replayed on a real Server.newPartition and judged by TLC (CleanerConfig.tla).',
    'level_note': 'Limits and sizes are those of the snapshot taken by Clean(); age limit on non-monotone write times read '
                  'permissively (judged oldest-first up to the first young segment; equality with the cut-off free). '
                  'Verdicts on retention are taken with compaction off (compaction + retention is judged by C08). Bounds: '
                  '<= 9 records / 16 steps (quick), 11 / 20 (thorough); 1-3 records per segment, two record sizes.',
    'design_ref': 'DESIGN.md section 6/C09',
}

NAMES = ['C09_', 'C08_Unchanged', 'ReadFwd', 'CleanError', 'C01_Ordered', 'HW', 'step']


def nontrivial(b):
    return (b['cfg']['age'] or b['cfg']['msgs'] or b['cfg']['bytes']) and cl.has_clean_after_roll(b)


RULE = ('behaviours = TLC simulation of MC_Cleaner (seeded, Sim_Cleaner_C09*.cfg: compaction off, all combinations '
        'of age/message/byte limits); non-trivial = a clean runs after at least two records were appended; '
        'distinct by hash of (options, step list with keys/sizes/timestamps)')


def run(rep, tier, seed, replay):
    cl.run_check(rep, tier, seed, replay, 'C09', NAMES, nontrivial, RULE)
