"""C13 - only one member of a consumer group consumes a partition at a time.

spec/GroupSub.tla (+ MC_GroupSub, Trace_GroupSub); harness/server/c13/c13_verif_test.go
"""
import json
import os
import random
import re

from vf import core

META = {
    'property_id': 'C13',
    'confirm_by_replay': True,   # bin/check re-executes the stimulus of every violation before it is reported
    'level': 'model_checking',
    'technique': 'TLA+ spec (GroupSub.tla) checked exhaustively by TLC; every transition of a bounded instance plus '
                 'simulated deeper behaviours plus the counterexamples of the historically defective clean-up are '
                 'replayed on the real partition.Subscribe of a one-node server; every recorded step judged by TLC '
                 '(trace validation against the same P_* predicates and the OneActive invariant)',
    'level_text': 'TLC enumerates every interleaving of subscribe requests (sent to either replica, with and without '
                  'ReadISRReplica, through SubscribeInternal or the gRPC handler, 3 consumer ids incl. the same id again, '
                  'epochs, valid and invalid positions, open-ended and bounded), subscription closes, subscribe-loop exits '
                  '(a separate step, arbitrarily late), loop exits RACING with a subscribe (both critical sections in '
                  'either order), concurrent subscribes, leader changes and repeated resume operations of the partition '
                  'within the bounds and proves OneActive, StreamEnded and the step predicates on the specification '
                  '(outside the recorded open finding); the same behaviours are executed on the real code of a two-server '
                  'cluster (loop exit made a controlled step by cancelling the context, leader change through the real '
                  'election path, resume through the real Raft operation, races by parking both contenders on consumersMu '
                  'and handing the mutex over in FIFO order) and each real state is re-judged by TLC.',
    'level_note': 'One partition on two servers (real cluster; L/F are server identities, ldr = who leads; each server\'s '
                  'CURRENT partition object is re-read after every step), one or two groups plus plain subscriptions; '
                  'requests vary in serving node, ReadISRReplica, entry point, group, consumer, epoch, valid/invalid '
                  'positions and open-ended/bounded stop position. Lock-step steps interleave the critical sections; Race '
                  'and Burst steps make two contenders meet at consumersMu (FIFO hand-over convoy; which schedule results '
                  'is exploration, the quiescent state is judged). Recorded subscriptions are the real objects; for a '
                  'subscription made through the gRPC handler the client stream is observed (handler returned / parked in '
                  'a select that ignores the closed subscription). "Active" = not closed and loop still running, counted '
                  'over both servers. Bounds: quick <= 4 subscriptions / 5 steps / 2 leader changes or resumes exhaustive '
                  'model; transition covers of 5 steps (no race / leader change) and 4 steps (with them, with resumes and '
                  'the gRPC entry point): thorough replays all 20 865 behaviours, quick one behaviour per situation class '
                  '(all classes of <= 3 steps + a seeded sample of the longer ones, 3 000 of 8 314 classes); 12 steps '
                  'simulated; thorough: 2 groups + plain <= 4 / 5 and 1 group 6 steps with races, leader changes and '
                  'resumes, 16 steps simulated. Open finding: a member left running on the former leader after a leader '
                  'change. Not covered: delivery of messages after a take-over (the log stays empty), read-only partitions.',
    'design_ref': 'DESIGN.md section 6/C13',
}

GROUPS = ['g1', 'g2']
BADKINDS = ['start', 'stoplatest', 'stopbefore']


def to_stimulus(steps, rng, bid):
    out = {'id': bid, 'cfg': {'groups': GROUPS}, 'steps': []}
    for a in steps:
        a = dict(a)
        if a['a'] == 'Subscribe' and a['q'].get('bad') and 'badkind' not in a:
            a['badkind'] = rng.choice(BADKINDS)
        if a['a'] == 'Subscribe' and a['q'].get('stop') != 'none' and 'stopoff' not in a:
            a['stopoff'] = rng.choice([3, 1000])
        if a['a'] == 'Burst' and 'mode' not in a:
            # free-running goroutines, or all parked on consumersMu and released in FIFO order
            a['mode'] = rng.choice(['free', 'convoy'])
        if a['a'] == 'Race' and 'first' not in a:
            # which contender reaches consumersMu first (the ending loop's clean-up mostly)
            a['first'] = rng.choice(['exit', 'exit', 'exit', 'sub'])
        out['steps'].append(a)
    return out


def stranded_at(events, line, group):
    """situation of the open finding C13-member-stranded-on-former-leader at the failing trace line (1-based line of
    the run's trace), read from the RECORDED states: before or after the step an active member of `group` is served by
    a server that does not lead the partition AND that server led the partition when the member subscribed (so a
    leader change left it behind).  A group member that was accepted by a server that did not lead at the time is a
    different matter and keeps its own signature."""
    start = min(line, len(events)) - 1
    while start > 0 and events[start].get('a') != 'Open':
        start -= 1
    for ev in events[max(start, line - 2):line]:
        st = ev.get('st') or {}
        for i, x in enumerate(st.get('subs', [])):
            if not (x['g'] and (group is None or x['g'] == group) and x['open'] and x['loop'] and x['n'] != st.get('ldr')):
                continue
            for e2 in events[start:line]:
                st2 = e2.get('st') or {}
                if len(st2.get('subs', [])) > i:
                    if st2.get('ldr') == x['n']:
                        return True
                    break
    return False


def features(b):
    """argument class of a behaviour for known-finding signatures"""
    f = set()
    seen = {}
    for s in b['steps']:
        if s['a'] == 'Race':
            f.add('loop-exit-races-with-subscribe')
        if s['a'] == 'Elect':
            f.add('leader-change')
        if s['a'] == 'Resume':
            f.add('resume-repeated')
        if s['a'] == 'Subscribe' and s['q'].get('via') == 'grpc':
            f.add('through-grpc-handler')
        if s['a'] == 'Burst':
            f.add('concurrent-subscribes')
        if s['a'] == 'Subscribe' and s['q']['g']:
            q = s['q']
            k = (q['g'], q['c'])
            if k in seen:
                f.add('same-consumer-resubscribes')
            seen[k] = q['e']
            if q['n'] == 'F':
                f.add('group-request-to-follower')
            if q['stop'] != 'none':
                f.add('bounded-group-subscription')
    return ','.join(sorted(f)) or '-'


def situation(steps):
    """situation class of a behaviour of a transition cover: the step kinds with what matters for the group protocol
    (serving node, ReadISRReplica, group / plain, invalid, stop, entry point, epoch relative to the newest member so far,
    same consumer again, which subscription a close / loop exit / race names) - consumer names and absolute epochs are
    abstracted away"""
    out, seen, last = [], set(), None
    for s in steps:
        a = s['a']
        if a == 'Subscribe':
            q = s['q']
            rel = 'first' if last is None else ('lt' if q['e'] < last else 'eq' if q['e'] == last else 'gt')
            out.append(('S', q['n'], q['ris'], bool(q['g']), q['bad'], q['stop'], q.get('via', 'int'), rel,
                        (q['g'], q['c']) in seen))
            if q['g'] and not q['bad']:
                seen.add((q['g'], q['c']))
                last = q['e'] if last is None else max(last, q['e'])
        elif a == 'Race':
            rel = 'first' if last is None else ('lt' if s['e'] < last else 'eq' if s['e'] == last else 'gt')
            out.append(('R', s['s'], rel, ('g1', s['c']) in seen))
            seen.add(('g1', s['c']))
            last = max(last or 0, s['e'])
        elif a in ('Cancel', 'LoopExit'):
            out.append((a, s['s']))
        else:
            out.append((a,))
    return tuple(out)


def select_cover(cover, rng, total):
    """quick tier: one behaviour per situation class (chosen by the seed); all classes of up to 3 steps, and as many of
    the longer ones (seeded sample) as fit into `total`.  Returns (selected, number of classes)."""
    order = list(cover)
    rng.shuffle(order)
    reps = {}
    for b in order:
        reps.setdefault(situation(b), b)
    short = [b for f, b in reps.items() if len(f) <= 3]
    longer = [b for f, b in reps.items() if len(f) > 3]
    rng.shuffle(longer)
    return short + longer[:max(0, total - len(short))], len(reps)


def nontrivial(b):
    """a take-over attempt (second subscribe of a group) and a loop exit or close"""
    n = {}
    for s in b['steps']:
        if s['a'] == 'Subscribe' and s['q']['g'] and not s['q'].get('bad'):
            n[s['q']['g']] = n.get(s['q']['g'], 0) + 1
        if s['a'] == 'Race':
            n['g1'] = n.get('g1', 0) + 1
        if s['a'] == 'Burst':
            n[s['g']] = n.get(s['g'], 0) + len(s['cs'])
    acts = {s['a'] for s in b['steps']}
    return max(n.values() or [0]) >= 2 and bool(acts & {'LoopExit', 'Cancel', 'Race', 'Elect', 'Resume'})


def execute(behaviours, d, timeout=1200):
    """Runs the behaviours on the real code.  Returns (trace, failure): failure is None when the harness ran to its
    end; otherwise it says why it did not (timeout, hang at tear-down, dead process) and the trace holds the steps
    recorded up to then - every recorded line was written after the step's quiescence waits succeeded, so it is a
    valid observation that TLC may still judge (a violation found in it is real; without one the run is inconclusive)."""
    stim = os.path.join(d, 'stim.json')
    trace = os.path.join(d, 'trace.ndjson')
    core.write_json(stim, {'behaviours': behaviours})
    if os.environ.get('VERIF_KEEP'):
        core.log('stimuli at', stim)
    rc, out, wall = core.go_test('server', '^TestVerifGroupSub$',
                                 {'VERIF_STIMULI': stim, 'VERIF_TRACE_OUT': trace}, timeout=timeout, subs=['c13'])
    if rc == 0 and os.path.exists(trace):
        return trace, None
    failure = 'harness failed rc=%s: %s' % (rc, out[-3000:])
    if not os.path.exists(trace):
        raise core.Inconclusive(failure)
    good = []
    with open(trace) as fh:
        for line in fh:
            try:
                json.loads(line)
            except ValueError:
                break
            good.append(line if line.endswith('\n') else line + '\n')
    if len(good) < 2:
        raise core.Inconclusive(failure)
    with open(trace, 'w') as fh:
        fh.writelines(good)
    return trace, failure


def execute_and_judge(rep, behaviours, d, timeout=1200):
    trace, failure = execute(behaviours, d, timeout)
    tr = judge(rep, behaviours, trace)
    if failure:
        if rep.violations:
            core.log('the harness did not finish (%s); the steps recorded before that show a violation' % failure[:300])
        else:
            raise core.Inconclusive(failure)
    return tr


def judge(rep, behaviours, trace):
    res = core.tlc_trace('Trace_GroupSub.tla', 'Trace_GroupSub.cfg', trace)
    by_id = {b['id']: b for b in behaviours}
    events = None
    bad = {}
    drifting = []
    for kind, tid, line, action, name in res['fails']:
        if kind == 'I':
            rep.drift({'behaviour': tid, 'line': line, 'action': action, 'what': name})
            if by_id[tid] not in drifting:
                drifting.append(by_id[tid])
            continue
        bad.setdefault(tid, []).append((line, action, name))
    if drifting:
        core.write_json(os.path.join(core.BUILD, 'drift-C13.json'), {'replay': {'behaviours': drifting[:20]}})
    for tid, fl in sorted(bad.items()):
        fl.sort()
        line, action, name = fl[0]
        b = by_id[tid]
        if events is None:
            events = core.read_ndjson(trace)
        ev = events[line - 1] if 0 < line <= len(events) else {}
        grp = ((ev.get('args') or {}).get('q') or {}).get('g') or (ev.get('args') or {}).get('g')
        feat = features(b)
        if stranded_at(events, line, grp):
            # the recorded state itself shows the situation of the open finding
            feat = 'member-stranded-on-former-leader'
        sig = 'C13|%s|%s|%s' % (name, action, feat)
        rb = [b]
        if any(st['a'] == 'Burst' for st in b['steps']):
            # concurrent subscribes: the schedule is the Go runtime's; the replay repeats the behaviour
            rb = [dict(b, id=i + 1) for i in range(50)]
        rep.classify(sig, 'first failing step: line %d action %s check %s' % (line, action, name),
                     {'behaviours': rb})
    return res


_state_re = re.compile(r'^State \d+: <(.*?)>\n(.*?)(?=^State \d+:|^\d+ states generated|\Z)', re.S | re.M)


def counterexample(out):
    """steps (values of `last`) of the error trace TLC printed"""
    steps = []
    for m in _state_re.finditer(out):
        last = core.tlaval.state_var(m.group(2), 'last')
        if last and last.get('a') != 'Open':
            steps.append(last)
    return steps


def edge_cover(cfg, timeout=900):
    """every transition of the bounded model: `tlc -dump dot,actionlabels`, BFS spanning tree,
    one behaviour per edge (tree path to its source + the edge).  Returns (list of step lists,
    number of states, number of edges)."""
    with core.scratch('dot') as d:
        core._stage_specs(d)
        dot = os.path.join(d, 'g.dot')
        cmd = ['tlc', '-workers', '4', '-metadir', os.path.join(d, 'meta'), '-config', cfg, '-noGenerateSpecTE',
               '-dump', 'dot,actionlabels', dot, 'MC_GroupSub.tla']
        rc, out, wall = core._run(cmd, d, core._tlc_env(d), timeout)
        if rc != 0 or not os.path.exists(dot):
            raise core.Inconclusive('dot dump failed rc=%s: %s' % (rc, out[-2000:]))
        edges = {}
        init = None
        nodes = set()
        with open(dot) as fh:
            for line in fh:
                m = re.match(r'^(-?\d+) -> (-?\d+) \[label="((?:[^"\\]|\\.)*)"', line)
                if m:
                    edges.setdefault(m.group(1), []).append((m.group(3), m.group(2)))
                    continue
                m = re.match(r'^(-?\d+) \[label=.*style = filled', line)
                if m:
                    init = m.group(1)
                m = re.match(r'^(-?\d+) \[label=', line)
                if m:
                    nodes.add(m.group(1))
    if init is None:
        raise core.Inconclusive('no initial state in the dot dump')
    path = {init: []}
    queue = [init]
    while queue:
        u = queue.pop(0)
        for lab, v in edges.get(u, []):
            if v not in path:
                path[v] = path[u] + [lab]
                queue.append(v)
    behaviours = []
    nedges = 0
    for u, outs in edges.items():
        if u not in path:
            continue
        seen = set()
        for lab, v in outs:
            if (lab, v) in seen:
                continue
            seen.add((lab, v))
            nedges += 1
            behaviours.append(path[u] + [lab])
    # drop behaviours that are a proper prefix of another one (already covered)
    full = set(tuple(b) for b in behaviours)
    prefixes = set()
    for b in full:
        for i in range(1, len(b)):
            prefixes.add(b[:i])
    keep = [list(b) for b in sorted(full) if b not in prefixes]
    return [[label_step(x) for x in b] for b in keep], len(nodes), nedges


_lab_re = re.compile(r'^(\w+)\((.*)\)$')


def label_step(lab):
    lab = lab.replace('\\"', '"')
    if lab.strip() == 'MCElect':
        return {'a': 'Elect'}
    if lab.strip() == 'MCResume':
        return {'a': 'Resume'}
    m = _lab_re.match(lab.strip())
    if not m:
        raise core.Inconclusive('cannot parse action label %r' % lab)
    name, args = m.group(1), core.tlaval.parse('<<' + m.group(2) + '>>')
    if name == 'MCSubscribe':
        return {'a': 'Subscribe', 'q': {'n': args[0], 'ris': args[1], 'g': args[2], 'c': args[3], 'e': args[4],
                                        'bad': args[5], 'stop': args[6], 'via': args[7] if len(args) > 7 else 'int'}}
    if name == 'MCBurst':
        return {'a': 'Burst', 'g': args[0], 'cs': [args[1], args[2]], 'e': args[3]}
    if name == 'MCRace':
        return {'a': 'Race', 's': args[0], 'c': args[1], 'e': args[2]}
    if name == 'MCElect' or lab.strip() == 'MCElect':
        return {'a': 'Elect'}
    if name == 'MCCancel':
        return {'a': 'Cancel', 's': args[0]}
    if name == 'MCLoopExit':
        return {'a': 'LoopExit', 's': args[0]}
    raise core.Inconclusive('unknown action %r' % lab)


def run(rep, tier, seed, replay):
    rng = random.Random(seed)
    if replay:
        behaviours = replay['replay']['behaviours']
        with core.scratch('c13') as d:
            execute_and_judge(rep, behaviours, d)
        rep.cov['rule'] = 'replay of a saved stimulus'
        rep.cov['samples'] = behaviours[:1]
        return
    quick = tier == 'quick'
    # 1. design check: the specification of today's code satisfies C13 within the bounds
    res = core.tlc_check('MC_GroupSub.tla', 'MC_GroupSub.cfg' if quick else 'MC_GroupSub_thorough.cfg',
                         timeout=3000)
    rep.add_design('MC_GroupSub', res)
    if not quick:
        # thorough: the wide instance above (2 groups, plain subscriptions, bursts) has no leader change and no race;
        # a second, deeper one-group instance has both
        res2 = core.tlc_check('MC_GroupSub.tla', 'MC_GroupSub_thorough2.cfg', timeout=3000)
        rep.add_design('MC_GroupSub_thorough2', res2)
    if res['violated']:
        core.log('design check reports %s (not a verdict; the behaviours below decide)' % res['violated'])
    # 2. the historically defective clean-up (entry removed by consumer id): TLC's counterexamples
    #    become directed stimuli for the real code
    directed = []
    for cfg in ('MC_GroupSub_byid.cfg', 'MC_GroupSub_follower.cfg', 'MC_GroupSub_openended.cfg',
                'MC_GroupSub_stranded.cfg'):
        r2 = core.tlc_check('MC_GroupSub.tla', cfg, timeout=600, workers=1)
        rep.cov['design_checks'].append({'config': cfg + ' (defective variant, expected to fail)',
                                         'violated': r2['violated'], 'distinct_states': r2['distinct'],
                                         'states_generated': r2['generated'], 'depth': r2['depth'],
                                         'complete': r2['complete'], 'wall_s': round(r2['wall'], 1)})
        cx = counterexample(r2['out'])
        if not cx:
            raise core.Inconclusive('no counterexample from the defective variant %s: %s' % (cfg, r2['out'][-1500:]))
        directed.append(cx)
        # and a continuation: a stale-epoch consumer arrives afterwards
        directed.append(cx + [{'a': 'Subscribe', 'q': {'n': 'L', 'ris': False, 'g': 'g1', 'c': 'c3', 'e': 1,
                                                         'bad': False, 'stop': 'none', 'via': 'int'}},
                              {'a': 'LoopExit', 's': 2}, {'a': 'Cancel', 's': 3}])
    # 3. every transition of a bounded instance
    #    (both covers are replayed completely in the thorough tier; the quick tier replays one behaviour per
    #    situation class, chosen by the seed: all classes of <= 3 steps and a seeded sample of the longer ones)
    cover, nstates, nedges = edge_cover('MC_GroupSub_cover.cfg')
    #    and of a second one with leader changes, repeated resumes, loop exits racing with subscribes and
    #    subscribes through the gRPC handler
    cover2, nstates2, nedges2 = edge_cover('MC_GroupSub_cover2.cfg')
    rep.cov['cover_behaviours_total'] = len(cover) + len(cover2)
    if quick:
        cover, ncls = select_cover(cover, rng, 1300)
        cover2, ncls2 = select_cover(cover2, rng, 1700)
        rep.cov['cover_situation_classes'] = ncls + ncls2
    cover += cover2
    rep.cov['cover_states'] = nstates + nstates2
    rep.cov['cover_transitions'] = nedges + nedges2
    nstates, nedges = nstates + nstates2, nedges + nedges2
    # 4. deeper random behaviours of the specification (2 groups, plain subscriptions)
    num = 600 if quick else 5000
    depth = 12 if quick else 16
    sims = core.tlc_simulate('MC_GroupSub.tla', 'Sim_GroupSub.cfg', num, depth, seed)
    simsteps = [[s['last'] for s in b[1:]] for b in sims if len(b) > 1]
    behaviours = []
    for steps in directed + cover + simsteps:
        behaviours.append(to_stimulus(steps, rng, len(behaviours) + 1))
    # 5. execute on the real code, 6. TLC judges
    with core.scratch('c13') as d:
        tr = execute_and_judge(rep, behaviours, d, timeout=1200 if quick else 3000)
    rep.cov['traces_validated_against_impl'] = len(behaviours)
    rep.cov['trace_lines_validated'] = tr['validated']
    rep.cov['evaluations'] = len(behaviours)
    rep.cov['behaviours_directed'] = len(directed)
    rep.cov['behaviours_transition_cover'] = len(cover)
    rep.cov['behaviours_simulated'] = len(simsteps)
    rep.cov['distinct_nontrivial'] = len({core.sha(b['steps']) for b in behaviours if nontrivial(b)})
    rep.cov['exhaustive'] = not quick
    rep.cov['rule'] = ('behaviours = (a) counterexamples of the defective clean-up variant, (b) one behaviour per '
                       'transition of the bounded models MC_GroupSub_cover and MC_GroupSub_cover2 (spanning tree path + edge: %d '
                       'states, %d transitions; thorough: all replayed, quick: one per situation class, all classes of <= 3 '
                       'steps and a seeded sample of the longer ones), (c) seeded TLC simulation of Sim_GroupSub; non-trivial '
                       '= a group receives >= 2 valid subscribes and the behaviour has a close or a loop exit; '
                       'distinct by hash of the step list' % (nstates, nedges))
    rep.cov['samples'] = [behaviours[0], behaviours[len(directed)], behaviours[-1]]
    rep.assumptions += ['steps are executed lock-step: the atomic sections (Subscribe under consumersMu, Close, loop '
                        'clean-up under consumersMu) are interleaved, not their insides',
                        'loop liveness per subscription is tracked by the driver and cross-checked against '
                        'subscriberCount after every step',
                        'TLC evaluates the TLA+ predicates correctly']
