"""C03 - consumers see only committed messages: all of them, once, in order.

spec/Reader.tla (+ MC_Reader, Trace_Reader, Trace_ReaderEv);
harness/commitlog/c03/c03_verif_test.go (gate-driven replay), c03_stress_verif_test.go (real schedules).
The sequential (API-granularity) part of C03 is replayed by the C01 check (CommitLog.tla: NewReader/Drain/P_Drain).
"""
import json
import os
import random
import time

from vf import core

META = {
    'property_id': 'C03',
    'level': 'model_checking',
    'technique': 'pc-level TLA+ spec of the committed reader / HW waiters / segment roll / read-only toggle '
                 '(Reader.tla) checked exhaustively by TLC for safety and, under fairness of the readers only, '
                 'liveness; TLC-generated interleavings replayed 1:1 on the real goroutines through verif gates, '
                 'every recorded step judged by TLC (trace validation); stress histories of real schedules judged by TLC',
    'level_text': 'TLC enumerates every interleaving (one step per critical section) of one appender (Append step by step, '
                  'AppendMessageSet - the follower path, also on a read-only log - as one step), the cleaner '
                  'loop\'s split check, HW advances of any step, read-only toggles and two committed readers started '
                  'anywhere (beyond the HW, on an empty log) within small bounds and proves: nothing above the HW is '
                  'delivered, deliveries are a gap-free run from the reader\'s position, the HW is monotone, no reader '
                  'fails, no lost wake-up, and (liveness, no state constraint) every committed message reaches every '
                  'reader positioned at or before it.  Simulated behaviours of the same spec are executed on the real '
                  'code with each goroutine parked at the gate named by its pc and released in the order of the '
                  'behaviour; each real step and the final quiescent state are re-judged by TLC.  A stress run with '
                  'real schedules (also with -race) records call/return events which TLC judges as well.  Reader '
                  'creation is two steps in the specification (HW snapshot | decision + construction) interleaved with '
                  'everything else; on the real code thousands of readers are created at HW-1..HW+2 while '
                  'SetHighWatermark and Append run (spin barrier), each drained afterwards, each creation judged by TLC.',
    'level_note': 'Bounds: design check <= 4 appends, 2 readers, segment capacity 1-2 records, <= 2 read-only '
                  'toggles; replayed behaviours <= 6 appends / 70 steps.  Single appender.  Truncation under live '
                  'readers is covered at API granularity (lock-step: MC_CommitLogRd, <= 16 steps), not at gate '
                  'granularity; retention/compaction while reading is C08/C09; record content is judged by C01.  Stress findings are reported '
                  'only after reproduction through the gates (otherwise exit 2); creation-race findings after a second '
                  'execution of the same rounds shows the same failure (otherwise exit 2).  The window between the two '
                  'steps of a creation is crossed by real schedules only (no gate inside newReaderCommitted).',
    'design_ref': 'DESIGN.md section 6/C03',
}

PKG = 'server/commitlog'


def S(p):
    return {'a': 'Step', 'p': p}


APP = [{'a': 'AppBegin'}, S('app'), S('app'), S('app')]      # one complete Append (extra steps are skipped)


def _directed():
    """Hand-written schedules that cross each race window at least once (they are intents like the
    TLC-generated ones and are judged by the same trace spec)."""
    out = []
    # D1: reader loads the HW, then the HW moves before it registers as waiter (re-check in waitForHW)
    for start in (0, 1):
        out.append(APP + APP + [{'a': 'SetHW', 'h': 0}, {'a': 'NewReader', 'r': 'r1', 's': 0}] +
                   [S('r1')] * 3 + [{'a': 'NewReader', 'r': 'r2', 's': start}] + [S('r2')] * 4 +
                   [{'a': 'SetHW', 'h': 1}] + [S('r1')] * 6 + [S('r2')] * 6)
    # D2: parked reader (empty log) loads the HW, append + HW move, then registers
    out.append([{'a': 'NewReader', 'r': 'r1', 's': 0}, S('r1'), S('r1')] + APP + [{'a': 'SetHW', 'h': 0}] + [S('r1')] * 6)
    out.append([{'a': 'NewReader', 'r': 'r1', 's': 2}, S('r1'), S('r1')] + APP + APP + APP +
               [{'a': 'SetHW', 'h': 1}] + [S('r1')] * 4 + [{'a': 'SetHW', 'h': 2}] + [S('r1')] * 8)
    # D3: split window: the cleaner loop rolls the segment, the appender writes into it and the HW enters it
    #     while a reader re-syncs / a reader is created (CAS done, list append pending in the unrepaired code)
    out.append(APP + APP + [{'a': 'AppBegin'}, {'a': 'RolBegin'}, S('app'), S('app'), {'a': 'SetHW', 'h': 2},
                            {'a': 'NewReader', 'r': 'r1', 's': 0}] + [S('r1')] * 8 + [S('rol')])
    out.append([{'a': 'NewReader', 'r': 'r1', 's': 0}, S('r1'), S('r1')] + APP + [{'a': 'SetHW', 'h': 0}] +
               [S('r1')] * 5 + APP + [{'a': 'AppBegin'}, {'a': 'RolBegin'}, S('app'), S('app'),
                                      {'a': 'SetHW', 'h': 2}] + [S('r1')] * 8 + [S('rol')] + [S('r1')] * 4)
    # D3b: two consecutive rolls while the first is not listed yet (capacity 1)
    out.append(('cap1', APP + [{'a': 'RolBegin'}] + APP + [{'a': 'AppBegin'}, S('app'), S('app'), S('app'),
                                                         S('rol'), {'a': 'SetHW', 'h': 2},
                                                         {'a': 'NewReader', 'r': 'r1', 's': 0}] + [S('r1')] * 10))
    # D4: read-only set while a waiter parks / is about to register; HW below and at the log end
    out.append(APP + [{'a': 'SetHW', 'h': 0}, {'a': 'NewReader', 'r': 'r1', 's': 0}] + [S('r1')] * 3 +
               [{'a': 'TogBegin', 'b': True}, S('r1'), S('tog'), S('r1')])
    out.append(APP + [{'a': 'SetHW', 'h': 0}, {'a': 'NewReader', 'r': 'r1', 's': 0}] + [S('r1')] * 4 +
               [{'a': 'TogBegin', 'b': True}, S('tog'), S('r1')])
    out.append(APP + APP + [{'a': 'SetHW', 'h': 0}, {'a': 'NewReader', 'r': 'r1', 's': 0}] + [S('r1')] * 4 +
               [{'a': 'TogBegin', 'b': True}, S('tog'), {'a': 'SetHW', 'h': 1}] + [S('r1')] * 6)
    # D5: HW jumps over a segment boundary while the reader waits at the end of the old segment
    out.append(APP + APP + [{'a': 'SetHW', 'h': 1}, {'a': 'NewReader', 'r': 'r1', 's': 0}] + [S('r1')] * 5 +
               APP + APP + APP + [{'a': 'SetHW', 'h': 3}] + [S('r1')] * 8 + [{'a': 'SetHW', 'h': 4}] + [S('r1')] * 6)
    # D6: two HW writers at the same time (fast path + commit loop), readers waiting and at the gate
    out.append(APP + APP + APP + [{'a': 'NewReader', 'r': 'r1', 's': 0}] + [S('r1')] * 3 +
               [{'a': 'SetHW2', 'h1': 0, 'h2': 1}] + [S('r1')] * 6 + [{'a': 'SetHW2', 'h1': 2, 'h2': 1}] + [S('r1')] * 6)
    # D7: a reader reaches waitForHW on a read-only log whose tail is not committed yet (HW < log end): it must
    #     be registered like on a writable log, is woken when the tail is committed and is told the end afterwards.
    #     The reader was consuming from an earlier offset / is started at the HW / beyond the HW; the flag is set
    #     before the reader loads the HW, between load and registration, and notifyReadonly runs after it registered
    pre = APP + APP + APP + [{'a': 'SetHW', 'h': 1}]
    tog = [{'a': 'TogBegin', 'b': True}, S('tog')]
    fin = [{'a': 'SetHW', 'h': 2}] + [S('r1')] * 8
    out.append(pre + [{'a': 'NewReader', 'r': 'r1', 's': 0}] + [S('r1')] * 3 + tog + [S('r1')] * 3 + fin)
    for start in (1, 2):
        out.append(pre + tog + [{'a': 'NewReader', 'r': 'r1', 's': start}] + [S('r1')] * 6 + fin)
    out.append(pre + [{'a': 'NewReader', 'r': 'r1', 's': 1}] + [S('r1')] * 3 +
               [{'a': 'TogBegin', 'b': True}, S('r1'), S('tog')] + fin)
    out.append(pre + tog + [{'a': 'NewReader', 'r': 'r1', 's': 0}, {'a': 'NewReader', 'r': 'r2', 's': 2}] +
               [S('r1')] * 3 + [S('r2')] * 3 + [S('r1')] * 3 + [{'a': 'SetHW', 'h': 2}] + [S('r2')] * 8 + [S('r1')] * 8)
    # D8: the log grows while it is read-only (AppendMessageSet: the follower / reconciliation path), readers
    #     arrive at waitForHW with and without an uncommitted tail, the tail is committed in steps
    aset = {'a': 'AppSet'}
    out.append(APP + [{'a': 'SetHW', 'h': 0}] + tog + [aset, {'a': 'NewReader', 'r': 'r1', 's': 0}] + [S('r1')] * 5 +
               [aset, {'a': 'SetHW', 'h': 1}] + [S('r1')] * 5 + [{'a': 'SetHW', 'h': 2}] + [S('r1')] * 6)
    out.append(('cap1', APP + tog + [aset, aset, {'a': 'NewReader', 'r': 'r1', 's': 1}, {'a': 'NewReader', 'r': 'r2', 's': 3}] +
                [S('r1')] * 3 + [S('r2')] * 3 + [{'a': 'SetHW', 'h': 1}] + [S('r1')] * 6 + [aset, {'a': 'SetHW', 'h': 3}] +
                [S('r2')] * 8 + [S('r1')] * 8))
    out.append(APP + [{'a': 'SetHW', 'h': 0}, {'a': 'NewReader', 'r': 'r1', 's': 0}] + [S('r1')] * 5 + tog +
               [aset, aset, {'a': 'SetHW', 'h': 1}] + [S('r1')] * 6 + [{'a': 'SetHW', 'h': 2}] + [S('r1')] * 6)
    res = []
    for i, b in enumerate(out):
        cap = 2
        if isinstance(b, tuple):
            cap, b = 1, b[1]
        res.append({'id': 900000 + i, 'cfg': {'cap': cap, 'atomic': False}, 'steps': b, 'directed': True})
    return res


def _retry(fn, *a, **kw):
    """a TLC/JVM start can fail transiently on the shared machine (or be killed from outside): retry once"""
    try:
        return fn(*a, **kw)
    except core.Inconclusive as e:
        core.log('C03: retrying after: %s' % str(e)[:200])
        time.sleep(3)
        return fn(*a, **kw)


def _check(module, cfg, **kw):
    res = core.tlc_check(module, cfg, **kw)
    if not res['ok'] and not res['violated']:
        core.log('C03: design check %s did not complete (rc=%s), retrying once' % (cfg, res.get('rc')))
        time.sleep(3)
        res = core.tlc_check(module, cfg, **kw)
    return res


def from_sim(sims, first_id):
    out = []
    for i, beh in enumerate(sims):
        if len(beh) < 2:
            continue
        cfg = core.tlaval.state_var(beh[0]['body'], 'cfg')
        out.append({'id': first_id + i, 'cfg': {'cap': cfg['cap'], 'atomic': cfg['atomic']},
                    'steps': [dict(st['last']) for st in beh[1:]]})
    return out


def execute_gated(behaviours, d, timeout=900, race=False):
    stim = os.path.join(d, 'stim.json')
    trace = os.path.join(d, 'trace.ndjson')
    core.write_json(stim, {'behaviours': behaviours})
    rc, out, wall = core.go_test(PKG, '^TestVerifReaderGated$', {'VERIF_STIMULI': stim, 'VERIF_TRACE_OUT': trace},
                                 timeout=timeout, subs=['c03'], race=race)
    if rc != 0 or not os.path.exists(trace):
        raise core.Inconclusive('gated harness failed rc=%s: %s' % (rc, _head(out)))
    return trace


def _head(out):
    for key in ('fatal error', 'panic:', 'DATA RACE', 'FAIL'):
        i = out.find(key)
        if i >= 0:
            return out[max(0, i - 200):i + 2500]
    return out[-3000:]


def features(lines):
    """race windows a recorded behaviour really crossed"""
    f = set()
    prev = None
    for e in lines:
        st = e['st']
        rds = st['rd']
        if prev is not None:
            prd = prev['st']['rd']
            if e['a'] == 'SetHW' and any(r['pc'] == 'gate' for r in prd.values()):
                f.add('hw-moves-after-load')
            if e['a'] == 'SetHW' and any(r['pc'] == 'sync' for r in prd.values()):
                f.add('hw-moves-before-resync')
            if e['a'] == 'SetHW' and prev['st']['wait']:
                f.add('wakeup')
            if e['a'] in ('TogBegin',) or (e['a'] == 'Step' and e['args'].get('p') == 'tog'):
                if any(r['pc'] in ('gate', 'blocked', 'load') for r in prd.values()):
                    f.add('readonly-vs-waiter')
            if len(st['segs']) > len(prev['st']['segs']) and any(r['pc'] not in ('none',) for r in prd.values()):
                f.add('roll-while-reading')
            if e['a'] == 'RolBegin' and prev['st']['app']['pc'] in ('chk', 'wr'):
                f.add('cleaner-roll-vs-append')
            if e['a'] == 'AppSet' and prev['st']['ro']:
                f.add('log-grows-while-readonly')
            if e['a'] == 'Step' and prd.get(e['args'].get('p'), {}).get('pc') == 'gate' and prev['st']['ro']:
                pst = prev['st']
                act = pst['segs'][pst['active'] - 1]
                if pst['hw'] < act['base'] + act['n'] - 1:
                    f.add('waits-on-readonly-log-with-uncommitted-tail')
        if st['active'] not in st['listed']:
            f.add('split-window')
        if any(r['park'] and r['pc'] != 'none' for r in rds.values()):
            f.add('parked-reader')
        prev = e
    return f


def judge_gated(rep, behaviours, trace):
    res = _retry(core.tlc_trace, 'Trace_Reader.tla', 'Trace_Reader.cfg', trace)
    by_id = {b['id']: b for b in behaviours}
    lines = {}
    for e in core.read_ndjson(trace):
        lines.setdefault(e['t'], []).append(e)
    timeouts = [t for t, ls in lines.items() if any(e['a'] == 'Timeout' for e in ls)]
    bad = {}
    for kind, tid, line, action, name in res['fails']:
        if kind == 'I':
            rep.drift({'behaviour': tid, 'line': line, 'action': action, 'what': name})
            continue
        bad.setdefault(tid, []).append((line, action, name))
    feats = {t: features(ls) for t, ls in lines.items()}
    for tid, fl in bad.items():
        fl.sort()
        line, action, name = fl[0]
        b = by_id[tid]
        sig = 'C03|%s|%s|gated' % (name, action)
        rep.classify(sig, 'gated replay: first failing step: line %d action %s check %s' % (line, action, name),
                     {'kind': 'gated', 'behaviours': [b]})
    if timeouts and not bad:
        # a time-out is never judged; violations established on recorded steps of the real code (every behaviour has
        # its own log and its own goroutines) stand whatever happened to other behaviours
        raise core.Inconclusive('gated replay: a goroutine did not reach its next stop before the deadline in '
                                'behaviour(s) %s' % timeouts[:5])
    if timeouts:
        rep.cov['gated_timeouts_beside_violations'] = timeouts[:20]
    return res, feats, bad


def _rd_features(beh):
    """what a MC_CommitLogRd behaviour (TLC states) does to a live committed reader: 'trunc' = a Truncate leaves a
    committed reader alive (the segment holding the truncation offset is rewritten under it), 'delivered' = that
    reader had delivered before, 'append' / 'drain' = an append / a drain of that reader follows"""
    f = set()
    survivors, delivered = set(), set()
    ahead, own = set(), set()
    prev = beh[0]
    for st in beh[1:]:
        a = st['last']
        pre, prev = prev, st
        if a['a'] in ('Drain', 'Tail'):
            obs = core.tlaval.state_var(st['body'], 'obs')
            if obs.get('ret'):
                delivered.add(a['r'])
            if a['r'] in survivors and 'append' in f:
                f.add('drain')
            if a['r'] in ahead and 'append' in f:
                f.add('hwseg-rewritten-ahead-of-reader')
            if a['r'] in own:
                f.add('own-segment-rewritten-after-delivery')
        elif a['a'] == 'Truncate':
            rd = core.tlaval.state_var(st['body'], 'rd')
            alive = {r for r, v in rd.items() if v['alive'] and v['c']}
            if alive:
                f.add('trunc')
                survivors |= alive
                if alive & delivered:
                    f.add('delivered')
                # which segment is rewritten (the one holding o), relative to the HW and to each reader
                bases = [x['base'] for x in core.tlaval.state_var(pre['body'], 'segs')]
                hwv = core.tlaval.state_var(pre['body'], 'hw')
                seg_of = lambda x: max([k for k, b in enumerate(bases) if b <= x] or [0])
                prd = core.tlaval.state_var(pre['body'], 'rd')
                for r in alive:
                    nxt = prd[r]['next']
                    if hwv >= 0 and seg_of(a['o']) == seg_of(hwv) and seg_of(nxt) < seg_of(hwv) and not prd[r]['parked']:
                        ahead.add(r)
                    if seg_of(a['o']) == seg_of(nxt) and r in delivered and bases[seg_of(nxt)] < a['o']:
                        own.add(r)
        elif a['a'] in ('Append', 'AppendSet') and survivors:
            f.add('append')
        elif a['a'] == 'Reopen':
            hwv = core.tlaval.state_var(pre['body'], 'hw')
            if hwv >= 0:
                f.add('reopen-with-hw')
                if hwv == core.tlaval.state_var(pre['body'], 'log')[0]['off']:
                    f.add('reopen-with-hw-at-first-offset')
            for z in (survivors, delivered, ahead, own):
                z.clear()
        elif a['a'] == 'NewReader':
            for z in (survivors, delivered, ahead, own):
                z.discard(a['r'])
    return f


def lockstep(rep, rng, seed, num, keep):
    """(a) sequential cases: MC_CommitLogRd = CommitLog.tla with the step mix of a subscriber's view (persistent
    COMMITTED readers that stay alive through appends above the HW, replicated appends, HW advances and
    Truncate(o > hw), which rewrites the segment a reader sits in or the HW segment a reader in an earlier segment
    still points to), replayed lock-step by C01's driver (reused, not duplicated) and judged by Trace_CommitLogRd
    (P_Drain, P_SetHW, Do* as drift, C03_ReaderFailed, read-back of fresh committed readers).  Of `num` simulated
    behaviours `keep` are executed: first those in which a committed reader survives a truncation and is drained
    after further appends."""
    from checks import c01
    # free random walk of the reader mix + the scenario family "log rewritten under a live reader" (same actions,
    # phased by the step counter)
    sims = _retry(core.tlc_simulate, 'MC_CommitLogRd.tla', 'Sim_CommitLogRd.cfg', num // 2, 16, seed + 31)
    sims += _retry(core.tlc_simulate, 'MC_CommitLogRd.tla', 'Sim_CommitLogRdFam.cfg', num * 3 // 10, 15, seed + 37)
    # scenario family "clean close/reopen early in the life of the log" (the HW must survive it)
    sims += _retry(core.tlc_simulate, 'MC_CommitLogRd.tla', 'Sim_CommitLogRdFam2.cfg', num // 5, 10, seed + 41)
    sims = [b for b in sims if len(b) > 1 and any(st['last']['a'] in ('Drain', 'Tail') for st in b[1:])]
    feats = [_rd_features(b) for b in sims]
    # selection by quota per feature (so that no family crowds out another), then the generic ones, then random
    quotas = [('hwseg-rewritten-ahead-of-reader', keep * 3 // 10), ('own-segment-rewritten-after-delivery', keep // 5),
              ('reopen-with-hw-at-first-offset', keep // 8), ('reopen-with-hw', keep // 8)]
    chosen, seen = [], set()
    for feat, q in quotas:
        cand = [i for i in range(len(sims)) if feat in feats[i] and i not in seen]
        cand.sort(key=lambda i: (-len(feats[i]), i))
        for i in cand[:q]:
            chosen.append(i)
            seen.add(i)
    rest = sorted((i for i in range(len(sims)) if i not in seen),
                  key=lambda i: (-len(feats[i] & {'trunc', 'append', 'drain'}), -len(feats[i]), i))
    room = max(0, keep - len(chosen))
    chosen += rest[:room * 2 // 3]
    tail = rest[room * 2 // 3:]
    chosen += rng.sample(tail, min(room - room * 2 // 3, len(tail)))
    order = chosen
    behaviours = []
    fmap = {}
    for k, i in enumerate(sorted(order)):
        b = c01.decorate(sims[i], rng, 500000 + k)
        behaviours.append(b)
        fmap[b['id']] = feats[i]
    with core.scratch('c03a') as d:
        trace = c01.execute(behaviours, d)
        res = _retry(core.tlc_trace, 'Trace_CommitLogRd.tla', 'Trace_CommitLogRd.cfg', trace)
    by_id = {b['id']: b for b in behaviours}
    bad = {}
    for kind, tid, line, action, name in res['fails']:
        if kind == 'I':
            rep.drift({'behaviour': tid, 'line': line, 'action': action, 'what': name, 'spec': 'CommitLog'})
            continue
        if action not in ('Drain', 'SetHW', 'NewReader', 'Truncate', 'Reopen') and name == 'step':
            continue            # the append steps themselves are judged by the C01 check
        bad.setdefault(tid, []).append((line, action, name))
    for tid, fl in bad.items():
        fl.sort()
        line, action, name = fl[0]
        rep.classify('C03|%s|%s|lockstep' % (name, action),
                     'lock-step replay (CommitLog.tla, reader mix): first failing step: line %d action %s' % (line, action),
                     {'kind': 'lockstep', 'behaviours': [by_id[tid]]})
    hist = {}
    for f in fmap.values():
        for x in (f | ({'survives-truncation-then-append-then-drain'} if {'trunc', 'append', 'drain'} <= f else set())):
            hist[x] = hist.get(x, 0) + 1
    rep.cov['lockstep_reader_features'] = hist
    return behaviours, res, fmap


def subscriber_level(rep, rng, seed, num):
    """C03 at the subscriber level (partition.go subscribe loop over the committed reader): behaviours of SubRo.tla
    (acknowledged publishes, an uncommitted tail, commit, the partition made read-only, subscriptions without a stop
    position from any offset) executed by C10's lock-step driver on a real one-node server (reused, not duplicated)
    and judged by Trace_SubRo (deliveries consecutive and <= HW, HW monotone, a subscription is ended only with
    "end of read-only partition" after it received the whole log)."""
    from checks import c10
    sims = _retry(core.tlc_simulate, 'SubRo.tla', 'Sim_SubRo.cfg', num, 12, seed + 43)
    behaviours = []
    for i, beh in enumerate(sims):
        steps, subs, keyn = [], [], 0
        for st in beh[1:]:
            a = st['last']
            if a['a'] in ('Publish', 'Tail'):
                keys = []
                for _ in range(a['k']):
                    keyn += 1
                    keys.append('abcdefghij'[keyn % 10])
                steps.append({'a': a['a'], 'keys': keys})
            elif a['a'] == 'Commit':
                steps.append({'a': 'Commit'})
            elif a['a'] == 'Readonly':
                steps.append({'a': 'Readonly', 'b': True})
            elif a['a'] == 'Sub':
                subs.append(a['id'])
                steps.append({'a': 'Sub', 'id': a['id'], 'n': -1,
                              'req': {'start': 'OFFSET', 'so': a['so'], 'stop': 'ON_CANCEL', 'rev': False}})
            elif a['a'] == 'Drain':
                steps.append({'a': 'Drain', 'id': a['id'], 'n': -1})
        if not subs:
            continue
        # at the end everything is committed and every subscription is drained once more
        steps.append({'a': 'Commit'})
        steps += [{'a': 'Drain', 'id': s, 'n': -1} for s in subs]
        behaviours.append({'id': 700000 + i, 'cfg': {'compact': False, 'seg': rng.choice([0, 2, 3])}, 'steps': steps})
    with core.scratch('c03sub') as d:
        trace = c10.execute(behaviours, d, 'c03')
        res = _retry(core.tlc_trace, 'Trace_SubRo.tla', 'Trace_SubRo.cfg', trace)
        lines = core.read_ndjson(trace)
    by_id = {b['id']: b for b in behaviours}
    bad = {}
    for kind, tid, line, action, name in res['fails']:
        if kind == 'P':
            bad.setdefault(tid, []).append((line, action, name))
    for tid, fl in bad.items():
        fl.sort()
        line, action, name = fl[0]
        rep.classify('C03|%s|%s|subscriber' % (name, action),
                     'subscriber level (one-node server): first failing step: line %d action %s check %s' % (line, action, name),
                     {'kind': 'subscriber', 'behaviours': [by_id[tid]]})
    # as observed: subscriptions that met an uncommitted tail on a read-only partition
    feat = set()
    for e in lines:
        if e['a'] in ('Sub', 'Drain') and e['st']['ro'] and e['st']['log'] and e['st']['hw'] < e['st']['log'][-1]['off']:
            feat.add(e['t'])
    rep.cov['subscriber_level'] = {'behaviours': len(behaviours), 'lines': res['validated'],
                                   'readonly_with_uncommitted_tail_under_subscription': len(feat)}
    return behaviours, res, feat


def stress_rounds(rng, n, msgs):
    out = []
    for i in range(n):
        out.append({'id': i + 1, 'steps': [],
                    'cfg': {'seed': rng.randrange(1 << 30), 'cap': rng.choice([1, 2, 3, 5]), 'msgs': msgs,
                            'readers': rng.choice([3, 4, 6]), 'toggles': i % 4 == 3}})
    return out


def create_rounds(rng, n, iterations):
    """creation rounds of the stress driver: readers are created at HW-1 .. HW+2 while SetHighWatermark (and every
    other time an Append) runs, 2 creations per iteration; see v3CreateRound"""
    return [{'id': 5000 + i, 'steps': [],
             'cfg': {'kind': 'create', 'seed': rng.randrange(1 << 30), 'cap': rng.choice([2, 3, 5, 50]),
                     'iterations': iterations}} for i in range(n)]


def creation_campaign(rep, rng, n, iterations):
    """(c') readers created while the HW moves: newReaderCommitted is two steps in Reader.tla (DoNewReader = the HW
    snapshot | RNew = decision + construction) and has no gate between them, so the interleavings come from real
    schedules (spin barrier, thousands of creations).  The observation is exact (requested offset, offsets handed
    out to a sequential drain afterwards, HW samples) and judged by TLC (Trace_ReaderEv: Cre).  A violation is
    reported when a second, independent execution of the same rounds shows the same check failing again;
    once only => inconclusive."""
    rounds = create_rounds(rng, n, iterations)
    with core.scratch('c03c') as d:
        trace = execute_stress(rounds, d, False, tag='create')
        res, bad, evs = judge_stress(rounds, trace)
        cre = [e for e in evs if e['a'] == 'Cre']
        hist = {}
        for e in cre:
            k = 'HW%+d' % (e['s'] - e['h0']) if e['s'] != e['h0'] else 'HW'
            hist[k] = hist.get(k, 0) + 1
        rep.cov['creation_rounds'] = {'rounds': n, 'creations_concurrent_with_SetHighWatermark': len(cre),
                                      'requested_offset_relative_to_HW_before': hist,
                                      'violating_creations': len({(t, ln) for t, ln, a, nm in bad})}
        if bad:
            names = sorted({nm for t, ln, a, nm in bad})
            trace2 = execute_stress(rounds, d, False, tag='create2')
            res2, bad2, evs2 = judge_stress(rounds, trace2)
            again = sorted({nm for t, ln, a, nm in bad2} & set(names))
            if not again:
                raise core.Inconclusive('creation rounds: %s failed on %d line(s) but not in a second execution of '
                                        'the same rounds' % (names, len(bad)))
            for nm in again:
                t, ln, a, _ = min(x for x in bad if x[3] == nm)
                rep.classify('C03|%s|%s|stress-create' % (nm, a),
                             'reader created while the HW moves (real schedule, %d of %d creations, seen again in a second '
                             'execution: %d): first failing line %d of round %d check %s'
                             % (len({(x[0], x[1]) for x in bad}), len(cre), len({(x[0], x[1]) for x in bad2}), ln, t, nm),
                             {'kind': 'create', 'rounds': rounds})
    return len(cre), res['validated']


def execute_stress(rounds, d, race, timeout=900, tag=''):
    stim = os.path.join(d, 'stress%s.json' % tag)
    trace = os.path.join(d, 'strace-%s%s.ndjson' % ('race' if race else 'plain', tag))
    core.write_json(stim, {'behaviours': rounds})
    rc, out, wall = core.go_test(PKG, '^TestVerifReaderStress$', {'VERIF_STIMULI': stim, 'VERIF_TRACE_OUT': trace},
                                 timeout=timeout, subs=['c03'], race=race)
    if rc != 0 or not os.path.exists(trace):
        raise core.Inconclusive('stress harness failed rc=%s (race=%s): %s' % (rc, race, _head(out)))
    return trace


def judge_stress(rounds, trace):
    """returns (tlc result, list of (round id, line, action, check)) - nothing is reported from here"""
    evs = core.read_ndjson(trace)
    for e in evs:
        if e['a'] == 'Quiet' and e.get('note'):
            raise core.Inconclusive('stress round %s: %s' % (e['t'], e['note']))
        if e['a'] == 'Final' and e['err'] == 'running':
            raise core.Inconclusive('stress round %s: reader %s neither waiting nor finished at the deadline' % (e['t'], e['r']))
        if e['a'] == 'AppendErr':
            raise core.Inconclusive('stress round %s: append failed: %s' % (e['t'], e['err']))
    res = _retry(core.tlc_trace, 'Trace_ReaderEv.tla', 'Trace_ReaderEv.cfg', trace)
    bad = [(tid, line, action, name) for kind, tid, line, action, name in res['fails'] if kind == 'P']
    return res, bad, evs


def gated_campaign(rep, tier, seed, num, depth, extra=()):
    cfg = 'Sim_Reader.cfg' if tier == 'quick' else 'Sim_Reader_thorough.cfg'
    t0 = time.time()
    sims = _retry(core.tlc_simulate, 'MC_Reader.tla', cfg, num, depth, seed)
    behaviours = from_sim(sims, 1) + list(extra)
    t1 = time.time()
    with core.scratch('c03') as d:
        trace = execute_gated(behaviours, d)
        t2 = time.time()
        res, feats, bad = judge_gated(rep, behaviours, trace)
    core.log('C03 gated campaign: simulate %.0fs, execute %.0fs, judge %.0fs (%d behaviours, %s lines)'
             % (t1 - t0, t2 - t1, time.time() - t2, len(behaviours), res['validated']))
    return behaviours, res, feats, bad


def run(rep, tier, seed, replay):
    rng = random.Random(seed)
    if replay:
        obj = replay['replay']
        with core.scratch('c03') as d:
            if obj.get('kind') == 'lockstep':
                from checks import c01
                trace = c01.execute(obj['behaviours'], d)
                res = core.tlc_trace('Trace_CommitLogRd.tla', 'Trace_CommitLogRd.cfg', trace)
                for kind, tid, line, action, name in res['fails']:
                    if kind == 'P' and (action in ('Drain', 'SetHW', 'NewReader', 'Truncate', 'Reopen') or name != 'step'):
                        rep.classify('C03|%s|%s|lockstep' % (name, action), 'lock-step replay line %d' % line, obj)
            elif obj.get('kind') == 'subscriber':
                from checks import c10
                trace = c10.execute(obj['behaviours'], d, 'c03')
                res = core.tlc_trace('Trace_SubRo.tla', 'Trace_SubRo.cfg', trace)
                for kind, tid, line, action, name in res['fails']:
                    if kind == 'P':
                        rep.classify('C03|%s|%s|subscriber' % (name, action), 'subscriber level line %d' % line, obj)
            elif obj.get('kind') == 'create':
                trace = execute_stress(obj['rounds'], d, False, tag='create')
                res, bad, evs = judge_stress(obj['rounds'], trace)
                for nm in sorted({x[3] for x in bad}):
                    t, ln, a, _ = min(x for x in bad if x[3] == nm)
                    rep.classify('C03|%s|%s|stress-create' % (nm, a), 'creation rounds: line %d of round %d' % (ln, t), obj)
            elif obj.get('kind') == 'stress':
                trace = execute_stress(obj['rounds'], d, race=False)
                res, bad, evs = judge_stress(obj['rounds'], trace)
                for tid, line, action, name in bad:
                    rep.classify('C03|%s|%s|stress' % (name, action), 'stress history line %d' % line, obj)
            else:
                trace = execute_gated(obj['behaviours'], d)
                judge_gated(rep, obj['behaviours'], trace)
        rep.cov['rule'] = 'replay of a saved stimulus'
        rep.cov['samples'] = [obj]
        return
    thorough = tier == 'thorough'
    # 1. design checks: safety (exhaustive), liveness (fair readers, no state constraint)
    res = _check('MC_Reader.tla', 'MC_Reader_thorough.cfg' if thorough else 'MC_Reader.cfg',
                         timeout=3000, coverage=thorough)
    rep.add_design('MC_Reader(safety)', res)
    if res['violated']:
        raise core.Inconclusive('the design check of Reader.tla fails (%s): the specification of the current code '
                                'violates C03 - not a verdict by itself, to be reproduced on the code' % res['violated'])
    # RolList/AppList (list append as a separate step) exist only in the unrepaired split variant
    # (cfg.atomic = FALSE): exercised by MC_Reader_seeded.cfg and by the simulated stimuli, not here
    zero = sorted(set(res.get('zero_cov', [])) - {'MCRolStep'})
    rep.cov['coverage_zero_actions'] = [z for z in rep.cov['coverage_zero_actions'] if not z.endswith(':MCRolStep')]
    if thorough and zero:
        raise core.Inconclusive('actions never taken in the design check: %s' % zero)
    res = _check('MC_Reader.tla', 'MC_Reader_live_thorough.cfg' if thorough else 'MC_Reader_live.cfg',
                         timeout=3000, workers=min(core.NCPU, 8))
    rep.add_design('MC_Reader(liveness)', res)
    if res['violated']:
        raise core.Inconclusive('the liveness check of Reader.tla fails (%s)' % res['violated'])
    # sequential part: persistent committed readers across truncation / appends / HW advances (CommitLog.tla with
    # the reader mix): every call satisfies P_* (P_Drain: exactly the committed records from the reader's position)
    res = _check('MC_CommitLogRd.tla', 'MC_CommitLogRd_thorough.cfg' if thorough else 'MC_CommitLogRd.cfg', timeout=3000)
    rep.add_design('MC_CommitLogRd(readers across truncation)', res)
    if res['violated']:
        raise core.Inconclusive('the design check of CommitLog.tla with the reader mix fails (%s)' % res['violated'])
    # defective variant of one model decision (GUIDE 9.5): newReaderCommitted loads the HW a second time after the
    # decision "wait for the next message" (NewLoads = 2).  TLC must find the behaviour in which that matters
    # (NewReader(HW+1) | SetHW | rest of NewReader | SetHW | read: the reader's first message is beyond its position);
    # it is the scenario family the creation rounds of the stress driver execute on the real code
    res = _check('MC_Reader.tla', 'MC_Reader_twoload.cfg', timeout=600)
    rep.add_design('MC_Reader(variant: second HW load in NewReader)', res, expect_ok=False)
    rep.cov['variant_two_hw_loads_found'] = bool(res['violated'])
    if not res['violated']:
        raise core.Inconclusive('the defective model variant (two HW loads in NewReader) was not found by TLC')
    if thorough:
        # the unrepaired split (CAS first, list append later) as a seeded defect of the model: TLC must find it
        res = _check('MC_Reader.tla', 'MC_Reader_seeded.cfg', timeout=1200)
        rep.add_design('MC_Reader(seeded: non-atomic split)', res, expect_ok=False)
        rep.cov['seeded_model_defect_found'] = bool(res['violated'])
        if not res['violated']:
            raise core.Inconclusive('the seeded model defect (non-atomic split) was not found by TLC')
    # 2.-4. behaviours of the specification, replayed through the gates, judged by TLC
    num = 500 if not thorough else 8000
    depth = 60 if not thorough else 80
    behaviours, tr, feats, bad = gated_campaign(rep, tier, seed, num, depth, extra=_directed())
    rep.cov['traces_validated_against_impl'] = len(behaviours)
    rep.cov['trace_lines_validated'] = tr['validated']
    nontrivial = [b for b in behaviours if feats.get(b['id'], set()) & {
        'hw-moves-after-load', 'hw-moves-before-resync', 'readonly-vs-waiter', 'roll-while-reading',
        'cleaner-roll-vs-append', 'split-window', 'waits-on-readonly-log-with-uncommitted-tail',
        'log-grows-while-readonly'}]
    rep.cov['distinct_nontrivial'] = len({core.sha(b['steps']) for b in nontrivial})
    hist = {}
    for f in feats.values():
        for x in f:
            hist[x] = hist.get(x, 0) + 1
    rep.cov['race_windows_crossed'] = hist
    # (a) sequential cases through C01's lock-step driver
    lb, lres, lfeat = lockstep(rep, rng, seed, *((3000, 300) if not thorough else (12000, 2500)))
    rep.cov['lockstep_behaviours_with_readers'] = len(lb)
    rep.cov['distinct_nontrivial'] += len({core.sha(b['steps']) for b in lb
                                           if {'trunc', 'append', 'drain'} <= lfeat[b['id']]})
    rep.cov['traces_validated_against_impl'] += len(lb)
    rep.cov['trace_lines_validated'] += lres['validated']
    # (a') subscriber level on a one-node server through C10's driver
    sb, sres, sfeat = subscriber_level(rep, rng, seed, 120 if not thorough else 1500)
    rep.cov['traces_validated_against_impl'] += len(sb)
    rep.cov['trace_lines_validated'] += sres['validated']
    rep.cov['distinct_nontrivial'] += len({core.sha(b['steps']) for b in sb if b['id'] in sfeat})
    # 5a. readers created while the HW moves (real schedules, spin barrier)
    n_cre, cre_lines = creation_campaign(rep, rng, *((3, 2000) if not thorough else (12, 5000)))
    rep.cov['trace_lines_validated'] += cre_lines
    # 5. stress with real schedules (plain and with the race detector)
    n_rounds = 8 if not thorough else 60
    msgs = 250 if not thorough else 600
    stress_bad = []
    n_events = 0
    with core.scratch('c03s') as d:
        for race in (False, True):
            rounds = stress_rounds(rng, n_rounds if not race else max(4, n_rounds // 2), msgs)
            try:
                trace = execute_stress(rounds, d, race)
                sres, sbad, evs = judge_stress(rounds, trace)
            except core.Inconclusive as e:
                if not rep.violations:
                    raise
                # violations were already established through the gates: they stand
                rep.cov['stress_note'] = str(e)[:400]
                continue
            n_events += len(evs)
            for tid, line, action, name in sbad:
                stress_bad.append({'race': race, 'round': rounds[tid - 1], 'line': line, 'action': action, 'check': name})
    rep.cov['stress_events_judged'] = n_events
    rep.cov['stress_rounds'] = n_rounds + max(4, n_rounds // 2)
    if stress_bad and not bad and not rep.violations:
        # a stress finding counts only after reproduction through the gates
        more, tr2, feats2, bad2 = gated_campaign(rep, tier, seed + 7919, num * 4, depth)
        if not bad2:
            raise core.Inconclusive('stress run shows %s (%s) but it could not be reproduced through the gates: %s'
                                    % (stress_bad[0]['check'], stress_bad[0]['action'], json.dumps(stress_bad[0])[:600]))
    rep.cov['evaluations'] = len(behaviours) + rep.cov['stress_rounds'] + n_cre
    rep.cov['rule'] = ('behaviours = TLC simulation of MC_Reader (seeded; both split variants) + %d directed race-window '
                       'schedules, each replayed 1:1 through the gates; non-trivial = the recorded real behaviour '
                       'crossed at least one race window (HW moved between a reader\'s HW load and its registration or '
                       're-sync, read-only toggled against a waiter, segment rolled while a reader was active, cleaner '
                       'roll against an append in flight); distinct by hash of the step list' % len(_directed()))
    rep.cov['samples'] = behaviours[:1] + [b for b in behaviours if b.get('directed')][:1]
    rep.assumptions += ['single appender', 'truncation is sequential with respect to the readers (not interleaved inside a read); no retention/compaction under the readers',
                        'HW never set beyond the last appended offset',
                        'TLC 1.8.0 evaluates the TLA+ predicates correctly']
