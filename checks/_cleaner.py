"""Shared orchestration of the C08 / C09 checks (spec/Cleaner.tla, harness/commitlog/cleaner_common_verif_test.go)."""
import os

from vf import core

UNIT = 128          # bytes of one model size unit (harness pads records to sz * UNIT)
WORKERS = [1, 2, 10]
HCS = ['nil', 'nil', 'one']
CLEANS = ('Clean', 'CleanEnd')


THOROUGH_DESIGN = {
    # (config, with -coverage 1): coverage (slows TLC down ~3x) on the small configurations only
    'C08': [('MC_Cleaner_epochs.cfg', True), ('MC_Cleaner_readers.cfg', True), ('MC_Cleaner_C09.cfg', True),
            ('MC_Cleaner_thorough.cfg', False)],
    'C09': [('MC_Cleaner_epochs.cfg', True), ('MC_Cleaner_C09_thorough.cfg', False)],
}
# actions that do not matter for a property (not required to be taken by its design checks)
IRRELEVANT = {'C08': set(), 'C09': {'MCNewReader', 'MCDrain', 'MCNewRev', 'MCRevRead'}}


def action_counts(out):
    """-coverage 1 output -> {action of MC_Cleaner (MCAppend, MCClean, ...): states generated}"""
    import re
    src = open(os.path.join(core.SPEC, 'MC_Cleaner.tla')).read().split('\n')
    counts = {}
    for m in re.finditer(r'^<(\w+) line \d+, col \d+ to line \d+, col \d+ of module MC_Cleaner'
                         r'(?: \((\d+) \d+ \d+ \d+\))?>: (\d+):(\d+)', out, re.M):
        name = m.group(1)
        if m.group(2):
            k = re.search(r'MC[A-Z]\w+', src[int(m.group(2)) - 1] + ' ' + src[int(m.group(2))] + ' ' + src[int(m.group(2)) + 1])
            name = k.group(0) if k else 'MCNext@%s' % m.group(2)
        if name != 'MCInit':
            counts[name] = int(m.group(4))       # printed more than once: the last one is final
    return counts


def decorate(beh, rng, bid):
    """TLC behaviour (list of simulation steps) -> stimulus for the Go harness"""
    first = beh[0]['body']
    cfg = core.tlaval.state_var(first, 'cfg')
    cc = core.tlaval.state_var(first, 'cc')
    out = {'id': bid,
           'cfg': {'maxBytes': cfg['maxBytes'] * UNIT, 'occ': cfg['occ'], 'age': cc['age'], 'msgs': cc['msgs'],
                   'bytes': cc['bytes'] * UNIT, 'compact': cc['compact'], 'workers': rng.choice(WORKERS),
                   'now': core.tlaval.state_var(first, 'now')},
           'steps': []}
    for st in beh[1:]:
        a = dict(st['last'])
        a.pop('cls', None)
        if a['a'] == 'Append':
            a['recs'] = [{'ep': r['ep'], 'ts': r['ts'], 'val': r['val'], 'sz': r['sz'], 'key': r['key'],
                          'vc': 'short', 'hc': rng.choice(HCS), 'exp': r['exp']} for r in a['recs']]
        out['steps'].append(a)
    return out


def features(beh):
    """abstract features of a TLC behaviour for coverage-guided selection: the situation every clean
    finds (classes computed by the specification itself: MC_Cleaner!CleanClass, carried in `last`)
    and what happens between snapshot and swap"""
    feats = set()
    steps = [st['last'] for st in beh[1:]]
    # persistent reverse readers overtaken by a clean: created before / inside the window of a clean,
    # read partially, then read again after the clean (or after its swap)
    rev, inwin = {}, False
    for a in steps:
        k = a['a']
        if k == 'CleanBegin':
            inwin = True
        if k in ('Clean', 'CleanBegin', 'CleanEnd'):
            for v in rev.values():
                v[k] = v.get(k, 0) + 1
        if k == 'CleanEnd':
            inwin = False
        if k == 'Reopen':
            rev = {}
        if k == 'NewRev':
            rev[a['r']] = {'win': inwin, 'reads': 0, 'c': a['c']}
        if k == 'RevRead' and a['r'] in rev:
            v = rev[a['r']]
            feats.add(('rev', v['win'], v['c'], a['all'], min(v['reads'], 1), min(v.get('Clean', 0), 1),
                       min(v.get('CleanBegin', 0), 1), min(v.get('CleanEnd', 0), 1), inwin))
            v['reads'] += 1
            if a['all']:
                del rev[a['r']]
    for i, a in enumerate(steps):
        if a['a'] == 'CleanFail':
            # transient deletion error: which doomed segment, how many are doomed, what happens before the retry
            between = []
            for b in steps[i + 1:]:
                if b['a'] == 'Clean':
                    break
                between.append(b['a'])
            feats.add(('fail', a['k'], a['cls']['d'], tuple(between[:2]), tuple(a['cls']['lim'])))
        if a['a'] not in ('Clean', 'CleanBegin'):
            continue
        c = a['cls']
        av, lim = ''.join(c['av']), tuple(c['lim'])
        cnt = tuple(c['cnt'])
        # compaction pattern, cut at the segment boundaries
        kv, pos, parts = ''.join(c['kv']), 0, []
        if kv:
            for n in cnt:
                parts.append(kv[pos:pos + n])
                pos += n
        kvs = '|'.join(parts)
        feats.add(('age', av, c['d1'], lim))                 # ordering class of the write times x limits
        # per segment: first write / last write relative to the cut-off and how the segment object came to be
        # (written in this process or set up from the index after a reopen / Replace)
        fv, rv = ''.join(c['fv']), ''.join(c['rv'])
        if av:
            seg3 = tuple(f + l + r for f, l, r in zip(fv, av, rv))
            feats.add(('age-seg', seg3[:3], c['d1']))
            for x in set(seg3):
                feats.add(('age-one', x, lim))
        feats.add(('origin', rv[:3], c['d'], lim))
        prev = steps[i - 1]['a'] if i > 0 else 'Open'
        feats.add(('before', prev, a['a'], c['d'] > 0, lim))
        feats.add(('drop', c['n'], c['d1'], c['d'], lim))    # which limit bites how far
        feats.add(('cnt', cnt[-4:], c['d'], lim[1:]))        # layout of message counts
        feats.add(('empty-active', c['e'], c['n'] > 1, c['d']))
        if kvs:
            feats.add(('kv', kvs))
            feats.add(('kv-drop', kvs[-8:], c['d']))
        if a['a'] == 'CleanBegin':
            win = []
            for b in steps[i + 1:]:
                if b['a'] == 'CleanEnd':
                    break
                win.append(b['a'] + (str(len(b['recs'])) if b['a'] == 'Append' else ''))
            feats.add(('win', tuple(win[:3]), av[:3], c['d'], c['n']))
        nxt = steps[i + 1]['a'] if i + 1 < len(steps) else '-'
        feats.add(('then', a['a'], nxt, c['d'] > 0))
    return feats


def select(sims, n, rng):
    """greedy (lazy) selection of at most n behaviours covering as many distinct features as possible;
    the rest is filled up at random.  Returns (chosen, features covered, features in the pool)."""
    import heapq
    pool = [(b, features(b)) for b in sims if len(b) > 1]
    allf = set()
    for _, f in pool:
        allf |= f
    heap = [(-len(f), i) for i, (_, f) in enumerate(pool)]
    heapq.heapify(heap)
    chosen, covered, used = [], set(), set()
    while heap and len(chosen) < n:
        g, i = heapq.heappop(heap)
        gain = len(pool[i][1] - covered)
        if gain == 0:
            break
        if heap and gain < -heap[0][0]:
            heapq.heappush(heap, (-gain, i))      # stale bound: re-insert with the true gain
            continue
        chosen.append(pool[i][0])
        used.add(i)
        covered |= pool[i][1]
    rest = [i for i in range(len(pool)) if i not in used]
    rng.shuffle(rest)
    for i in rest[:max(0, n - len(chosen))]:
        chosen.append(pool[i][0])
        covered |= pool[i][1]
    return chosen, len(covered), len(allf)


# simulation families: (config for quick, config for thorough, share of the behaviours replayed, pool factor)
FAMILIES = {
    'C08': [('Sim_Cleaner_C08.cfg', 'Sim_Cleaner_C08_thorough.cfg', 0.8, 4),
            # no retention limits, so persistent readers are kept across the compactions
            ('Sim_Cleaner_C08_readers.cfg', 'Sim_Cleaner_C08_readers.cfg', 0.2, 2)],
    'C09': [('Sim_Cleaner_C09.cfg', 'Sim_Cleaner_C09_thorough.cfg', 0.55, 5),
            # many small segments, several lags: every ordering class of last-write times around the age cut-off
            ('Sim_Cleaner_C09_age.cfg', 'Sim_Cleaner_C09_age.cfg', 0.45, 6)],
}


def shape(b):
    """the part of a behaviour that matters for distinctness"""
    return [b['cfg'], [(s['a'], [(r['key'], r['sz'], r['ts']) for r in s.get('recs', [])], s.get('h'), s.get('d'))
                       for s in b['steps']]]


def has_clean_after_roll(b):
    """non-trivial: at least one clean executed when more than one segment can exist
    (>= 2 records appended before it)"""
    n = 0
    for s in b['steps']:
        if s['a'] == 'Append':
            n += len(s['recs'])
        if s['a'] in ('Clean', 'CleanBegin') and n >= 2:
            return True
    return False


def execute(behaviours, d, test, sub, timeout=900):
    stim = os.path.join(d, 'stim.json')
    trace = os.path.join(d, 'trace.ndjson')
    core.write_json(stim, {'behaviours': behaviours})
    if os.environ.get('VERIF_KEEP'):
        core.log('stimuli at', stim)
    rc, out, wall = core.go_test('server/commitlog', '^%s$' % test,
                                 {'VERIF_STIMULI': stim, 'VERIF_TRACE_OUT': trace}, timeout=timeout, subs=[sub])
    if rc != 0 or not os.path.exists(trace):
        raise core.Inconclusive('harness failed rc=%s: %s' % (rc, out[-3000:]))
    return trace


def judge(rep, prop, behaviours, trace, names, timeout=1700):
    """TLC judges the recorded trace.  names: prefixes of the P-level oracle names that belong to this property."""
    res = core.tlc_trace('Trace_Cleaner.tla', 'Trace_Cleaner.cfg', trace, timeout=timeout)
    by_id = {b['id']: b for b in behaviours}
    bad = {}
    drifting = []
    other = {}
    for kind, tid, line, action, name in res['fails']:
        if kind == 'I':
            rep.drift({'behaviour': tid, 'line': line, 'action': action, 'what': name})
            if by_id[tid] not in drifting:
                drifting.append(by_id[tid])
            continue
        if kind == 'P' and any(name.startswith(n) for n in names):
            bad.setdefault(tid, []).append((line, action, name))
        else:
            other[name] = other.get(name, 0) + 1
    if other:
        rep.cov['oracles_of_other_properties_failing'] = other
    if drifting:
        core.write_json(os.path.join(core.BUILD, 'drift-%s.json' % prop), {'replay': {'behaviours': drifting[:20]}})
    for tid, fl in bad.items():
        fl.sort()
        seen = set()
        for line, action, name in fl:
            # one report per distinct oracle of a behaviour (first failing step of each)
            if name in seen:
                continue
            seen.add(name)
            sig = '%s|%s|%s' % (prop, name, action)
            rep.classify(sig, 'behaviour %s: first failing step of this oracle: line %d action %s check %s'
                         % (tid, line, action, name), {'behaviours': [by_id[tid]]})
    return res


def run_check(rep, tier, seed, replay, prop, names, nontrivial, rule, quick_num=500, thorough_num=4000):
    """the pipeline shared by C08 and C09: design check -> simulate -> execute -> TLC judges -> evidence"""
    import random
    import time
    rng = random.Random(seed)
    sub = prop.lower()
    test = 'TestVerif' + prop
    t0 = time.time()

    def lap(what):
        core.log('[%s] %s done at %.0fs' % (prop, what, time.time() - t0))

    if replay and 'route' in replay['replay']:
        run_route(rep, tier, seed, replay['replay']['route'])
        rep.cov['rule'] = 'replay of a saved configuration-route stimulus'
        rep.cov['samples'] = replay['replay']['route'][:1]
        return
    if replay:
        behaviours = replay['replay']['behaviours']
        with core.scratch(sub) as d:
            trace = execute(behaviours, d, test, sub)
            judge(rep, prop, behaviours, trace, names)
        rep.cov['rule'] = 'replay of a saved stimulus'
        rep.cov['samples'] = behaviours[:1]
        return
    quick = tier == 'quick'
    suffix = '' if prop == 'C08' else '_C09'
    # 1. design check: every behaviour of the bounded model satisfies P_* (StepsOK) and the invariants
    cfgs = [('MC_Cleaner%s.cfg' % suffix, not quick)]
    if not quick:
        cfgs += THOROUGH_DESIGN[prop]
    if os.environ.get('VERIF_SKIP_DESIGN'):      # self-tests of the binding (mutants) only
        cfgs = []
    taken = {}
    for cfg, cov in cfgs:
        res = core.tlc_check('MC_Cleaner.tla', cfg, timeout=3000, coverage=cov)
        res['zero_cov'] = []                     # per-disjunct accounting below instead
        rep.add_design(cfg[:-4], res)
        for name, n in action_counts(res['out']).items():
            taken[name] = taken.get(name, 0) + n
        lap('design check ' + cfg)
    if taken:
        rep.cov['design_action_counts'] = taken
        rep.cov['coverage_zero_actions'] = sorted(a for a, n in taken.items() if n == 0 and a not in IRRELEVANT[prop])
        if rep.cov['coverage_zero_actions']:
            raise core.Inconclusive('design check never takes: %s' % rep.cov['coverage_zero_actions'])
    # 2. behaviours from the specification
    num = quick_num if quick else thorough_num
    depth = 16 if quick else 20
    # pools of TLC simulations per family; coverage-guided selection of what is replayed (features =
    # the classes of situations the cleans find, computed by the specification: MC_Cleaner!CleanClass)
    chosen, fam_cov = [], []
    for k, (qcfg, tcfg, share, factor) in enumerate(FAMILIES[prop]):
        want = int(num * share)
        sims = core.tlc_simulate('MC_Cleaner.tla', qcfg if quick else tcfg, want * factor, depth, seed + k, timeout=2400)
        sel, cov, inpool = select(sims, want, rng)
        chosen += sel
        fam_cov.append({'config': qcfg if quick else tcfg, 'pool': len(sims), 'replayed': len(sel),
                        'features_covered': cov, 'features_in_pool': inpool})
    rep.cov['simulation_families'] = fam_cov
    behaviours = [decorate(b, rng, i + 1) for i, b in enumerate(chosen) if len(b) > 1]
    classes = set()
    for b in chosen:
        for st in b[1:]:
            if st['last']['a'] in ('Clean', 'CleanBegin'):
                classes.add((''.join(st['last']['cls']['av']), tuple(st['last']['cls']['lim'])))
    rep.cov['age_ordering_classes_replayed'] = len({c for c in classes if c[0]})
    strad = 0
    for b in chosen:
        for st in b[1:]:
            c = st['last'].get('cls')
            if c and c['av']:
                strad += sum(1 for f, l, r in zip(c['fv'], c['av'], c['rv']) if f == 'O' and l == 'Y' and r == 'r')
    rep.cov['cleans_segments_straddling_cutoff_set_up_from_index'] = strad
    rep.cov['age_classes_with_old_segment_behind_young'] = len({c for c in classes if 'YO' in c[0] or 'EO' in c[0]})
    lap('simulation (%d behaviours)' % len(behaviours))
    # 3. execute on the real code, 4. judge with TLC
    with core.scratch(sub) as d:
        trace = execute(behaviours, d, test, sub, timeout=2400)
        lap('execution on the real commit log')
        tr = judge(rep, prop, behaviours, trace, names, timeout=3400)
        lap('trace validation')
    rep.cov['traces_validated_against_impl'] = len(behaviours)
    rep.cov['trace_lines_validated'] = tr['validated']
    rep.cov['evaluations'] = len(behaviours)
    rep.cov['distinct_nontrivial'] = len({core.sha(shape(b)) for b in behaviours if nontrivial(b)})
    rep.cov['cleans_executed'] = sum(1 for b in behaviours for s in b['steps'] if s['a'] in ('Clean', 'CleanEnd'))
    rep.cov['cleans_with_appends_in_window'] = sum(
        1 for b in behaviours for i, s in enumerate(b['steps'])
        if s['a'] == 'CleanBegin' and i + 1 < len(b['steps']) and b['steps'][i + 1]['a'] == 'Append')
    def drains_after_clean(b):
        seen, n = False, 0
        for s in b['steps']:
            if s['a'] in CLEANS:
                seen = True
            if s['a'] == 'Reopen':
                seen = False
            if s['a'] == 'Drain' and seen:
                n += 1
        return n
    rep.cov['persistent_reader_drains_after_a_clean'] = sum(drains_after_clean(b) for b in behaviours)
    def rev_overtaken(b):
        alive, n = {}, 0
        for s in b['steps']:
            if s['a'] == 'NewRev':
                alive[s['r']] = False
            if s['a'] in ('Clean', 'CleanBegin'):
                alive = {k: True for k in alive}
            if s['a'] == 'Reopen':
                alive = {}
            if s['a'] == 'RevRead' and alive.pop(s['r'], False):
                n += 1
        return n
    rep.cov['reverse_reader_reads_after_a_clean_overtook_it'] = sum(rev_overtaken(b) for b in behaviours)
    rep.cov['reverse_readers_created_between_snapshot_and_swap'] = sum(
        1 for b in behaviours for i, s in enumerate(b['steps'])
        if s['a'] == 'NewRev' and any(x['a'] == 'CleanBegin' for x in b['steps'][:i])
        and [x['a'] for x in b['steps'][:i] if x['a'] in ('CleanBegin', 'CleanEnd')][-1] == 'CleanBegin')
    rep.cov['cleans_with_injected_deletion_error_and_retry'] = sum(
        1 for b in behaviours for s in b['steps'] if s['a'] == 'CleanFail')
    rep.cov['rule'] = rule
    rep.cov['samples'] = behaviours[:2]
    if prop == 'C09':
        # 5. the route by which the configured limits reach the cleaner (server defaults x stream overrides)
        run_route(rep, tier, seed)
        lap('configuration route')
    rep.assumptions += ['single appender (lock-step driver); Clean() parked at the clean.before_swap gate',
                        'TLC evaluates the TLA+ predicates correctly']


def run_route(rep, tier, seed, replay=None):
    """configuration route (spec/CleanerConfig.tla): server-wide defaults x per-stream overrides (absent /
    explicit 0 / value) -> what reaches the commit log options and the delete cleaner, on a real Server"""
    prop = rep.prop
    if replay is not None:
        behaviours = replay
    else:
        num = 40 if tier == 'quick' else 300
        sims = core.tlc_simulate('MC_CleanerConfig.tla', 'Sim_CleanerConfig.cfg', num, 13, seed, timeout=600)
        behaviours = []
        for i, b in enumerate(sims):
            steps = [{'a': 'Route', 'def': st['last']['def'], 'ovr': st['last']['ovr']} for st in b[1:]]
            if steps:
                behaviours.append({'id': 100000 + i, 'cfg': {}, 'steps': steps})
    with core.scratch('route') as d:
        stim, trace = os.path.join(d, 'stim.json'), os.path.join(d, 'trace.ndjson')
        core.write_json(stim, {'behaviours': behaviours})
        rc, out, wall = core.go_test('server', '^TestVerifC09Route$', {'VERIF_STIMULI': stim, 'VERIF_TRACE_OUT': trace},
                                     timeout=900, subs=['c09'])
        if rc != 0 or not os.path.exists(trace):
            raise core.Inconclusive('route harness failed rc=%s: %s' % (rc, out[-3000:]))
        res = core.tlc_trace('Trace_CleanerConfig.tla', 'Trace_CleanerConfig.cfg', trace, timeout=600)
    by_id = {b['id']: b for b in behaviours}
    seen = set()
    for kind, tid, line, action, name in res['fails']:
        if (tid, name) in seen:
            continue
        seen.add((tid, name))
        rep.classify('%s|%s|%s' % (prop, name, action),
                     'configuration route, behaviour %s line %d: %s' % (tid, line, name), {'route': [by_id[tid]]})
    combos = {core.sha([s['def'], s['ovr']]) for b in behaviours for s in b['steps']}
    rep.cov['route_streams_created'] = sum(len(b['steps']) for b in behaviours)
    rep.cov['route_distinct_default_override_combinations'] = len(combos)
    rep.cov['route_with_explicit_zero_override'] = sum(
        1 for b in behaviours for s in b['steps']
        if 0 in (s['ovr']['age'], s['ovr']['msgs'], s['ovr']['bytes']) or s['ovr']['compact'] == 'false')
    rep.cov['route_trace_lines_validated'] = res['validated']
