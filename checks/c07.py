"""C07 - partition leadership changes are safe and fenced by epochs.

spec/Failover.tla (+ MC_Failover, Trace_Failover); harness/server/c07/c07_verif_test.go
"""
import os
import random
import re

from vf import core, graph

META = {
    'property_id': 'C07',
    'confirm_by_replay': True,   # bin/check re-executes the stimulus of every violation before it is reported
    'level': 'model_checking',
    'technique': 'TLA+ spec of the controller side of partition failover (Failover.tla) checked exhaustively by TLC; '
                 'every transition of a bounded instance, simulated deeper behaviours and the counterexamples of the '
                 'two historically defective variants are replayed on a real one-node controller (real Raft, real '
                 'failoverStatus and expiry timer); every recorded call is judged by TLC (trace validation)',
    'level_text': 'TLC enumerates every sequence of leader reports (from in-sync followers, non-ISR replicas, the '
                  'leader itself and a non-replica id; repeated; current and stale (leader, epoch) pairs), timer '
                  'expiries, ISR shrink/expand requests with current or stale pairs, controller leadership loss, '
                  'rebuilds of the partition object from its persisted form (pause + resume; snapshot of the controller FSM + restore on the running server), requests for which no '
                  'Raft entry can be replicated (failed election attempts) and stream removal within the bounds and proves the step predicates P_* (election only with more than '
                  'half of the in-sync followers as witnesses in the current window, new leader in the ISR and not the '
                  'reported one, epochs strictly increasing, one leader per epoch, stale requests refused without '
                  'change - also when a report is overtaken by another report\'s election between its pair check and '
                  'its registration) and leader-in-ISR on the specification; the same behaviours run on the real controller code '
                  'and each real state is re-judged by TLC.',
    'level_note': 'Controller plus the ISR-request side of one real replica: the real broker is replica r1 and sends the '
                  'ISR requests of its own leadership terms through its real replicators; r2-r4 are fictitious, plus 1 '
                  'non-replica id; one partition; shrink/expand name '
                  'replicas other than the leader named in the request (the only in-tree sender does). Requests are '
                  'atomic except that ReportLeader, ShrinkISR and ExpandISR are each split at the gate hook between their '
                  'pair check and their effect (witness registration + election / Raft proposal), and a report that completes the '
                  'quorum additionally between the decision to elect and the CHANGE_LEADER proposal (gate metadata.elect.checked), with up to 2-3 requests '
                  'parked in between; other overlaps are not scheduled; while an election is parked there is no expiry, controller loss or Raft fault. The expiry timer is real (120 ms); the driver proves by the clock that no step other than '
                  'Expire can have seen a spontaneous expiry, and an Expire step ends only in a situation established on the real '
                  'timer (entry gone / timer not pending / still pending after two periods), else the behaviour is re-executed. Bounds: quick 8 steps '
                  'exhaustive model (6 with overlapping reports) / 3 steps replayed transition cover + every sequence '
                  'of 3 effective steps / 10 steps simulated; thorough 12 / 4 / 14.',
    'design_ref': 'DESIGN.md section 6/C07',
}

REPLICAS = ['r1', 'r2', 'r3', 'r4']


def to_stimulus(isr, steps, bid):
    out = {'id': bid, 'cfg': {'isr': sorted(isr)}, 'steps': []}
    for a in steps:
        a = {k: v for k, v in a.items() if k not in ('l', 'e')}   # the pair is resolved on the real state
        out['steps'].append(a)
    return out


def features(b):
    """argument classes of a behaviour, for known-finding signatures"""
    f = set()
    isr = set(b['cfg']['isr'])
    for s in b['steps']:
        if s['a'] == 'Report':
            if s['w'] not in REPLICAS:
                f.add('non-replica-witness')
    return ','.join(sorted(f)) or '-'


def nontrivial(b):
    """at least two reports and one of expire / ISR change / controller loss / a stale pair"""
    n = sum(1 for s in b['steps'] if s['a'] == 'Report' and s['ps'] == 'cur')
    other = any(s['a'] in ('Expire', 'Shrink', 'Expand', 'Lose', 'Rebuild') or s.get('ps', 'cur') != 'cur'
                or s.get('ok') is False for s in b['steps'])
    return n >= 2 and other


def execute(behaviours, d, timeout=1500, workers=6):
    stim = os.path.join(d, 'stim.json')
    trace = os.path.join(d, 'trace.ndjson')
    core.write_json(stim, {'behaviours': behaviours})
    if os.environ.get('VERIF_KEEP'):
        core.log('stimuli at', stim)
    rc, out, wall = core.go_test('server', '^TestVerifFailover$',
                                 {'VERIF_STIMULI': stim, 'VERIF_TRACE_OUT': trace, 'VERIF_WORKERS': str(workers)},
                                 timeout=timeout, subs=['c07'], extra_args=['-v'])
    if rc != 0 or not os.path.exists(trace):
        raise core.Inconclusive('harness failed rc=%s: %s' % (rc, out[-3000:]))
    m = re.search(r'VERIF-C07 behaviours=(\d+) dropped_for_timing=(\d+)', out)
    if not m:
        raise core.Inconclusive('harness did not report: %s' % out[-2000:])
    dropped = int(m.group(2))
    if dropped * 20 > int(m.group(1)):
        raise core.Inconclusive('%d of %s behaviours could not be executed without timing interference'
                                % (dropped, m.group(1)))
    execute.dropped = dropped
    return trace


execute.dropped = 0


def judge(rep, behaviours, trace):
    res = core.tlc_trace('Trace_Failover.tla', 'Trace_Failover.cfg', trace)
    by_id = {b['id']: b for b in behaviours}
    lines = {}
    for i, ev in enumerate(core.read_ndjson(trace)):
        lines[i + 1] = ev
    bad = {}
    drifting = []
    for kind, tid, line, action, name in res['fails']:
        if kind == 'I':
            rep.drift({'behaviour': tid, 'line': line, 'action': action, 'what': name})
            if by_id[tid] not in drifting:
                drifting.append(by_id[tid])
            continue
        bad.setdefault(tid, []).append((line, action, name))
    if drifting:
        core.write_json(os.path.join(core.BUILD, 'drift-C07.json'), {'replay': {'behaviours': drifting[:20]}})
    for tid, fl in sorted(bad.items()):
        fl.sort()
        line, action, name = fl[0]
        b = by_id[tid]
        ev = lines.get(line, {})
        cls = witness_class(lines, line) if action == 'Report' else '-'
        first_stale = stale_apply_line(lines, tid, line)
        if first_stale == line:
            cls = 'stale-at-apply'
        elif first_stale:
            cls = 'after-stale-apply'
        sig = 'C07|%s|%s|%s' % (name, action, cls)
        rep.classify(sig, 'first failing step: line %d action %s check %s args %s' % (line, action, name,
                                                                                 ev.get('args')),
                     {'behaviours': [b]})
    return res


def stale_apply_line(lines, tid, upto):
    """first line (<= upto) of behaviour tid on which a parked report took effect although the
    pair it had named was no longer the current one (judged on the recorded state before it)"""
    k = upto
    while k > 1 and lines[k - 1]['t'] == tid and lines[k]['a'] != 'Open':
        k -= 1
    # k = the Open line of the behaviour
    for j in range(k + 1, upto + 1):
        ev, prev = lines[j], lines[j - 1]
        if ev['a'] in ('ReportApply', 'ISRApply', 'ElectApply'):
            r = prev['st']['pend'][ev['args']['i'] - 1]
            stale = r['l'] != prev['st']['leader'] or r['e'] != prev['st']['lepoch'] or not prev['st']['exists']
            if stale and ev['obs']['err'] != 'stale':
                return j
    return None


def witness_class(lines, line):
    """who made the report on which the oracle failed, relative to the state before it"""
    ev, prev = lines.get(line), lines.get(line - 1)
    if not ev or not prev:
        return '-'
    w = ev['args'].get('w')
    st = prev['st']
    if w == st['leader']:
        return 'witness=leader-itself'
    if w not in REPLICAS:
        return 'witness=non-replica'
    if w not in st['isr']:
        return 'witness=non-isr-replica'
    return 'witness=in-sync-follower'


_state_re = re.compile(r'^State \d+: <(.*?)>\n(.*?)(?=^State \d+:|^\d+ states generated|\Z)', re.S | re.M)


def counterexample(out):
    """(initial ISR, steps) of the error trace TLC printed"""
    isr, steps = None, []
    for m in _state_re.finditer(out):
        body = m.group(2)
        last = core.tlaval.state_var(body, 'last')
        if last and last.get('a') == 'Open':
            isr = core.tlaval.state_var(body, 'isr')['__set__']
        elif last:
            steps.append(last)
    return isr, steps


def label_step(lab):
    name, args = graph.parse_label(lab)
    if name == 'MCReport':
        return {'a': 'Report', 'w': args[0], 'ps': args[1], 'pref': args[2], 'ok': args[3]}
    if name == 'MCReportCheck':
        return {'a': 'ReportCheck', 'w': args[0], 'ps': args[1]}
    if name == 'MCReportApply':
        return {'a': 'ReportApply', 'i': args[0], 'pref': args[1]}
    if name == 'MCElectCheck':
        return {'a': 'ElectCheck', 'w': args[0], 'ps': args[1]}
    if name == 'MCElectApply':
        return {'a': 'ElectApply', 'i': args[0], 'pref': args[1]}
    if name == 'MCISRCheck':
        return {'a': 'ISRCheck', 'k': args[0], 'r': args[1], 'ps': args[2]}
    if name == 'MCISRApply':
        return {'a': 'ISRApply', 'i': args[0]}
    if name == 'MCShrink':
        return {'a': 'Shrink', 'r': args[0], 'ps': args[1], 'ok': args[2]}
    if name == 'MCExpand':
        return {'a': 'Expand', 'r': args[0], 'ps': args[1], 'ok': args[2]}
    if name == 'MCRebuild':
        return {'a': 'Rebuild', 'how': args[0]}
    if name in ('MCExpire', 'MCLose', 'MCRemove'):
        return {'a': name[2:]}
    raise core.Inconclusive('unknown action label %r' % lab)


def run(rep, tier, seed, replay):
    rng = random.Random(seed)
    if replay:
        behaviours = replay['replay']['behaviours']
        with core.scratch('c07') as d:
            trace = execute(behaviours, d)
            judge(rep, behaviours, trace)
        rep.cov['rule'] = 'replay of a saved stimulus'
        rep.cov['samples'] = behaviours[:1]
        return
    quick = tier == 'quick'
    # 1. design check of the specification of today's code
    res = core.tlc_check('MC_Failover.tla', 'MC_Failover.cfg' if quick else 'MC_Failover_thorough.cfg',
                         timeout=3000, coverage=not quick)
    rep.add_design('MC_Failover', res)
    # 2. the historically defective variants: TLC's counterexamples become directed stimuli
    directed = []
    for cfg in ('MC_Failover_asshipped.cfg', 'MC_Failover_keepstatus.cfg', 'MC_Failover_countall.cfg',
                'MC_Failover_countall3.cfg', 'MC_Failover_keeponfail.cfg'):
        r2 = core.tlc_check('MC_Failover.tla', cfg, timeout=600, workers=1)
        rep.cov['design_checks'].append({'config': cfg + ' (defective variant, expected to fail)',
                                         'violated': r2['violated'], 'distinct_states': r2['distinct'],
                                         'states_generated': r2['generated'], 'depth': r2['depth'],
                                         'complete': r2['complete'], 'wall_s': round(r2['wall'], 1)})
        isr, cx = counterexample(r2['out'])
        if not cx:
            raise core.Inconclusive('no counterexample from the defective variant %s: %s' % (cfg, r2['out'][-1500:]))
        directed.append((isr, cx))
    # 2b. reports that overlap inside ReportLeader (check and effect as separate steps): design check
    #     with the known finding exempted, TLC's witness of the finding as a directed stimulus
    r3 = core.tlc_check('MC_Failover.tla', 'MC_Failover_race.cfg', timeout=1500, coverage=not quick)
    rep.add_design('MC_Failover_race', r3)
    # an action counts as never taken only if no configuration takes it (the sequential configurations
    # have no overlapping reports by construction, the race configuration has them)
    never = set(res.get('zero_cov', [])) & set(r3.get('zero_cov', []))
    rep.cov['coverage_zero_actions'] = sorted(never)
    r4 = core.tlc_check('MC_Failover.tla', 'MC_Failover_race_taint.cfg', timeout=600, workers=1)
    rep.cov['design_checks'].append({'config': 'MC_Failover_race_taint.cfg (reachability of the known finding)',
                                     'violated': r4['violated'], 'distinct_states': r4['distinct'],
                                     'states_generated': r4['generated'], 'depth': r4['depth'],
                                     'complete': r4['complete'], 'wall_s': round(r4['wall'], 1)})
    isr, cx = counterexample(r4['out'])
    if cx:
        directed.append((isr, cx))
        directed.append((isr, cx + [{'a': 'Report', 'w': 'r2', 'ps': 'cur', 'pref': 'none'}]))
    for cfg in ('MC_Failover_race_taint_isr.cfg', 'MC_Failover_race_isr_leader.cfg', 'MC_Failover_race_taint_elect.cfg'):
        r5 = core.tlc_check('MC_Failover.tla', cfg, timeout=600, workers=1)
        rep.cov['design_checks'].append({'config': cfg + ' (defective variant, expected to fail)',
                                         'violated': r5['violated'], 'distinct_states': r5['distinct'],
                                         'states_generated': r5['generated'], 'depth': r5['depth'],
                                         'complete': r5['complete'], 'wall_s': round(r5['wall'], 1)})
        isr, cx = counterexample(r5['out'])
        if not cx:
            raise core.Inconclusive('no counterexample from the defective variant %s: %s' % (cfg, r5['out'][-1500:]))
        directed.append((isr, cx))
    rsims = core.tlc_simulate('MC_Failover.tla', 'Sim_Failover_race.cfg', 300 if quick else 5000, 10 if quick else 14,
                              seed + 1000)
    raceb = []
    for b in rsims:
        if len(b) > 1:
            raceb.append((core.tlaval.state_var(b[0]['body'], 'isr')['__set__'], [s['last'] for s in b[1:]]))
    # 3. every transition of a bounded instance
    g = graph.tlc_dump('MC_Failover.tla', 'MC_Failover_cover.cfg' if quick else 'MC_Failover_cover_thorough.cfg',
                       timeout=1500)
    paths, ncovered, nedges = graph.cover(g)
    cover = []
    for root, p in paths:
        isr = core.tlaval.state_var(g['nodes'][root], 'isr')['__set__']
        cover.append((isr, [label_step(g['edges'][i][2]) for i in p]))
    # 3b. EVERY sequence of effective steps (current pairs, no refusals) up to depth 3: the real system may
    #     remember what the model state has forgotten (a status that should have been dropped, ...), which
    #     transition coverage of the model's state graph cannot see
    gp = graph.tlc_dump('MC_Failover.tla', 'MC_Failover_paths.cfg' if quick else 'MC_Failover_paths_thorough.cfg',
                        timeout=1500)
    ppaths, pcov, pedges = graph.cover(gp)
    pathb = []
    for root, p in ppaths:
        isr = core.tlaval.state_var(gp['nodes'][root], 'isr')['__set__']
        pathb.append((isr, [label_step(gp['edges'][i][2]) for i in p]))
    # 3c. every transition of a small instance in which ONE request is parked between two of its critical
    #     sections (report: pair check | registration; election: decided | proposal; ISR request: pair check |
    #     proposal) with any other step in between - only the behaviours that park something are kept
    gk = graph.tlc_dump('MC_Failover.tla', 'MC_Failover_cover_park.cfg', timeout=1500)
    kpaths, kcov, kedges = graph.cover(gk)
    parkb = []
    for root, p in kpaths:
        steps = [label_step(gk['edges'][i][2]) for i in p]
        if any(st['a'] in ('ReportCheck', 'ISRCheck', 'ElectCheck') for st in steps):
            isr = core.tlaval.state_var(gk['nodes'][root], 'isr')['__set__']
            parkb.append((isr, steps))
    rep.cov['behaviours_parked_request_cover'] = len(parkb)
    rep.cov['step_sequences_replayed'] = len(pathb)
    rep.cov['cover_states'] = len(g['nodes'])
    rep.cov['cover_transitions'] = nedges
    rep.cov['cover_transitions_replayed'] = ncovered
    # 4. deeper random behaviours
    num = 500 if quick else 12000
    depth = 10 if quick else 14
    sims = core.tlc_simulate('MC_Failover.tla', 'Sim_Failover.cfg', num, depth, seed)
    simb = []
    for b in sims:
        if len(b) > 1:
            simb.append((core.tlaval.state_var(b[0]['body'], 'isr')['__set__'], [s['last'] for s in b[1:]]))
    behaviours = []
    for isr, steps in directed + cover + pathb + parkb + simb + raceb:
        behaviours.append(to_stimulus(isr, steps, len(behaviours) + 1))
    # 5. execute on the real controller, 6. TLC judges
    with core.scratch('c07') as d:
        trace = execute(behaviours, d, workers=min(10 if quick else 12, core.NCPU))
        dropped = execute.dropped
        tr = judge(rep, behaviours, trace)
    rep.cov['traces_validated_against_impl'] = len(behaviours) - dropped
    rep.cov['behaviours_dropped_for_timing'] = dropped
    rep.cov['trace_lines_validated'] = tr['validated']
    rep.cov['evaluations'] = len(behaviours)
    rep.cov['behaviours_directed'] = len(directed)
    rep.cov['behaviours_transition_cover'] = len(cover)
    rep.cov['behaviours_simulated'] = len(simb)
    rep.cov['behaviours_simulated_overlapping_reports'] = len(raceb)
    rep.cov['distinct_nontrivial'] = len({core.sha([b['cfg'], b['steps']]) for b in behaviours if nontrivial(b)})
    rep.cov['exhaustive'] = ncovered == nedges
    rep.cov['rule'] = ('behaviours = (a) counterexamples of the defective variants (status kept after a failover, '
                       'all witness ids counted), (b) behaviours covering every transition of the bounded model '
                       'MC_Failover_cover (%d states, %d transitions, %d replayed) and every sequence of <= 3 effective '
                       'steps (MC_Failover_paths, history in the view), (c) seeded TLC simulation of '
                       'Sim_Failover; non-trivial = >= 2 reports with the current pair and at least one expiry / ISR '
                       'change / controller loss / stale pair; distinct by hash of initial ISR + step list'
                       % (len(g['nodes']), nedges, ncovered))
    rep.cov['samples'] = [behaviours[0], behaviours[len(directed)], behaviours[-1]]
    rep.assumptions += ['requests reach the controller one at a time (atomic ReportLeader/ShrinkISR/ExpandISR)',
                        'replica brokers are fictitious: only the controller side runs',
                        'the unobservable parts (timer armed, who reported in the current window) are derived by the '
                        'specification from the recorded calls',
                        'TLC evaluates the TLA+ predicates correctly']
