"""C08 - compaction keeps the latest value of every key and changes nothing else.

spec/Cleaner.tla (+ MC_Cleaner, Trace_Cleaner); harness/commitlog/cleaner_common_verif_test.go + c08/
"""
import random

from vf import core
from checks import _cleaner as cl

META = {
    'property_id': 'C08',
    'level': 'model_checking',
    'technique': 'TLA+ spec (Cleaner.tla on top of CommitLog.tla) checked exhaustively by TLC; TLC-generated behaviours '
                 '(appends with key patterns, HW moves, compaction with and without retention, appends that roll segments '
                 'between the snapshot and the swap of Clean(), reopen) replayed on the real commit log; every recorded '
                 'step and a full forward/reverse read-back judged by TLC (trace validation)',
    'level_text': 'TLC enumerates every behaviour of the bounded model and proves that compaction as the code performs it '
                  'keeps what C08 demands; simulated deeper behaviours are executed on the real commitLog.Clean() and '
                  'TLC re-judges each real transition (required survivors, nothing altered) and each real state (fresh '
                  'forward and reverse readers from every start offset, committed and uncommitted, timestamp look-ups).',
    'level_note': 'One appender, lock-step driver; the clean is parked between snapshot and swap by the verif gate. '
                  'Empty key read as a key of its own (only its latest committed message must survive). Bounds: <= 9 '
                  'records / 16 steps per behaviour (quick), 11 / 20 (thorough); keys {nil, empty, a, b}; 1-3 records per '
                  'segment; workers {1, 2, 10}.',
    'design_ref': 'DESIGN.md section 6/C08',
}

NAMES = ['C08_', 'ReadFwd', 'ReadRev', 'TsLookup', 'C01_Ordered', 'HW', 'step']


def nontrivial(b):
    return b['cfg']['compact'] and cl.has_clean_after_roll(b)


def run(rep, tier, seed, replay):
    rng = random.Random(seed)
    if replay:
        behaviours = replay['replay']['behaviours']
        with core.scratch('c08') as d:
            trace = cl.execute(behaviours, d, 'TestVerifC08', 'c08')
            cl.judge(rep, 'C08', behaviours, trace, NAMES)
        rep.cov['rule'] = 'replay of a saved stimulus'
        rep.cov['samples'] = behaviours[:1]
        return
    # 1. design check
    quick = tier == 'quick'
    for cfg in (['MC_Cleaner.cfg'] if quick else ['MC_Cleaner.cfg', 'MC_Cleaner_thorough.cfg']):
        res = core.tlc_check('MC_Cleaner.tla', cfg, timeout=3000, coverage=not quick)
        rep.add_design(cfg[:-4], res)
    # 2. behaviours from the specification
    num = 700 if quick else 8000
    depth = 16 if quick else 20
    sims = core.tlc_simulate('MC_Cleaner.tla', 'Sim_Cleaner_C08.cfg' if quick else 'Sim_Cleaner_C08_thorough.cfg',
                             num, depth, seed, timeout=1500)
    behaviours = [cl.decorate(b, rng, i + 1) for i, b in enumerate(sims) if len(b) > 1]
    # 3. execute on the real code, 4. judge with TLC
    with core.scratch('c08') as d:
        trace = cl.execute(behaviours, d, 'TestVerifC08', 'c08')
        tr = cl.judge(rep, 'C08', behaviours, trace, NAMES)
    rep.cov['traces_validated_against_impl'] = len(behaviours)
    rep.cov['trace_lines_validated'] = tr['validated']
    rep.cov['evaluations'] = len(behaviours)
    rep.cov['distinct_nontrivial'] = len({core.sha(cl.shape(b)) for b in behaviours if nontrivial(b)})
    rep.cov['rule'] = ('behaviours = TLC simulation of MC_Cleaner (seeded, Sim_Cleaner_C08*.cfg: compaction on, optional '
                       'message/byte retention); non-trivial = a clean runs after at least two records were appended; '
                       'distinct by hash of (options, step list with keys/sizes/timestamps)')
    rep.cov['samples'] = behaviours[:2]
    rep.assumptions += ['single appender (lock-step driver); Clean() parked at the clean.before_swap gate',
                        'TLC evaluates the TLA+ predicates correctly']
