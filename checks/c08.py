"""C08 - compaction keeps the latest value of every key and changes nothing else.

spec/Cleaner.tla (+ MC_Cleaner, Trace_Cleaner); harness/commitlog/cleaner_common_verif_test.go + c08/
"""
from vf import core
from checks import _cleaner as cl

META = {
    'property_id': 'C08',
    'level': 'model_checking',
    'technique': 'TLA+ spec (Cleaner.tla on top of CommitLog.tla) checked exhaustively by TLC; TLC-generated behaviours '
                 '(appends with key patterns, HW moves, compaction with and without retention, appends that roll segments '
                 'between the snapshot and the swap of Clean(), reopen) replayed on the real commit log; every recorded '
                 'step and a full forward/reverse read-back judged by TLC (trace validation)',
    'level_text': 'TLC enumerates every behaviour of the bounded model and proves that compaction as the code performs it '
                  'keeps what C08 demands; simulated deeper behaviours are executed on the real commitLog.Clean() and '
                  'TLC re-judges each real transition (required survivors, nothing altered) and each real state (fresh '
                  'forward and reverse readers from every start offset, committed and uncommitted, timestamp look-ups; '
                  'persistent forward and reverse readers overtaken by cleans, also created between snapshot and swap).',
    'level_note': 'One appender, lock-step driver; the clean is parked between snapshot and swap by the verif gate. '
                  'Empty key read as a key of its own (only its latest committed message must survive). Bounds: <= 9 '
                  'records / 16 steps per behaviour (quick), 11 / 20 (thorough); keys {nil, empty, a, b}; 1-3 records per '
                  'segment; workers {1, 2, 10}.',
    'design_ref': 'DESIGN.md section 6/C08',
}

NAMES = ['C08_', 'ReadFwd', 'ReadRev', 'TsLookup', 'CleanError', 'C01_Ordered', 'HW', 'step']


def nontrivial(b):
    return b['cfg']['compact'] and cl.has_clean_after_roll(b)


RULE = ('behaviours = TLC simulation of MC_Cleaner (seeded, Sim_Cleaner_C08*.cfg: compaction on, optional '
        'message/byte retention); non-trivial = a clean runs after at least two records were appended; '
        'distinct by hash of (options, step list with keys/sizes/timestamps)')


def run(rep, tier, seed, replay):
    cl.run_check(rep, tier, seed, replay, 'C08', NAMES, nontrivial, RULE, quick_num=450)
