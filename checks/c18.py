"""C18 - the activity stream lists metadata changes in commit order, at least once.

spec/Activity.tla (+ MC_Activity, Trace_Activity, TraceI_Activity); harness/server/c18/c18_verif_test.go
"""
import json
import os
import random
import threading

from vf import core

META = {
    'property_id': 'C18',
    'confirm_by_replay': True,   # bin/check re-executes the stimulus of every violation before it is reported
    'level': 'model_checking',
    'technique': 'TLA+ spec (Activity.tla: Raft log, replicated lastPublished, dispatcher goroutine with publish / '
                 'record / back-off, controller change, restart, snapshot) checked exhaustively by TLC incl. liveness; '
                 'TLC-generated behaviours replayed lock-step on real servers (dispatcher sequenced through a gate '
                 'between publish and record, publish failures by a read-only __activity log, restarts over the same '
                 'data directory, Raft snapshots, a second cluster with another namespace on the same NATS deployment); '
                 'recorded Raft log + activity stream judged by TLC (trace validation)',
    'level_text': 'TLC enumerates every interleaving of metadata operations, dispatcher steps (skip, publish, record, '
                  'publish/record failure, back-off), blockades of the activity partition, crashes/restarts, controller '
                  'take-overs with a still-running old dispatcher, snapshots (which carry lastPublished) and operations of a foreign '
                  'cluster within small bounds and proves: event id = '
                  'Raft index and content = that operation on every delivery, nothing skipped, first occurrences in commit '
                  'order, replicated lastPublished never ahead of the stream, redeliveries only above the recorded index, '
                  'and (with fairness) every operation eventually published.  Behaviours of the same specification are '
                  'executed on real one-node servers (thorough: also a 3-node cluster) and the committed Raft log read from '
                  'the log store together with the activity stream read back from offset 0 is re-judged by TLC after every step.',
    'level_note': 'Raft itself and NATS delivery are trusted.  Quick design check: one server, 4 operations, 1 blockade, '
                  '1 spontaneous publish failure, 1 record failure, 1 restart (eager schedule) and two servers, 3 operations, '
                  '2 take-overs (all schedules), one server with 3 operations, 1 snapshot, 1 restart, 1 foreign operation; thorough adds '
                  'deeper bounds.  Log compaction: the first retained index of the real Raft log store is recorded and '
                  'C18_Obtainable (every committed operation that is not in the stream is still in the log store the dispatcher '
                  'reads) is judged on every recorded state; snapshots compact as the server configured its Raft node, behaviours '
                  'run with clustering.raft.snapshot.threshold unset and set below / above the backlog; a panic of the dispatcher '
                  'goroutine is an observation (DispatcherPanic line).  In the model TrailingLogs = 10240 (nothing is compacted '
                  'within the bounds; a backlog of more than 10240 entries is not explored), the variant Keeps = {1} generates '
                  'the directed scenarios.  '
                  'Liveness is decided on the model only; on the real server a scenario that does not reach its target '
                  'state in time is inconclusive.  "Commit order with redelivery" is read as: first occurrences in commit '
                  'order, nothing skipped, and a redelivery only of events above the replicated lastPublished.',
    'design_ref': 'DESIGN.md section 6/C18',
}

GROUPS = ['g1', 'g2']


class Meta:
    """tiny model of the metadata so that the generated operations are valid"""

    def __init__(self, rng):
        self.rng = rng
        self.streams = {}     # name -> dict(paused, ro)
        self.members = {}     # group -> {consumer: stream}
        self.n = 0

    def pick(self):
        rng = self.rng
        cands = ['create']
        if self.streams:
            cands += ['delete', 'pause', 'readonly', 'join', 'join']
        if any(self.members.values()):
            cands += ['leave', 'leave']
        op = rng.choice(cands)
        if op == 'create':
            self.n += 1
            name = 's%d' % self.n
            parts = rng.choice([1, 1, 2])
            self.streams[name] = {'paused': False, 'ro': False}
            return {'op': 'create', 'name': name, 'parts': parts}
        if op == 'delete':
            name = rng.choice(sorted(self.streams))
            del self.streams[name]
            for g in self.members.values():
                for c in [c for c, s in g.items() if s == name]:
                    del g[c]
            return {'op': 'delete', 'name': name}
        if op == 'pause':
            name = rng.choice(sorted(self.streams))
            self.streams[name]['paused'] = True
            return {'op': 'pause', 'name': name, 'resumeAll': rng.random() < 0.3}
        if op == 'readonly':
            name = rng.choice(sorted(self.streams))
            ro = not self.streams[name]['ro']
            self.streams[name]['ro'] = ro
            return {'op': 'readonly', 'name': name, 'ro': ro}
        if op == 'join':
            name = rng.choice(sorted(self.streams))
            g = rng.choice(GROUPS)
            self.n += 1
            c = 'c%d' % self.n
            self.members.setdefault(g, {})[c] = name
            return {'op': 'join', 'name': name, 'group': g, 'consumer': c}
        g = rng.choice(sorted(k for k, v in self.members.items() if v))
        c = rng.choice(sorted(self.members[g]))
        del self.members[g][c]
        return {'op': 'leave', 'name': '', 'group': g, 'consumer': c}


DROP = {'DispatchSkip', 'Backoff', 'NoticeLost', 'DispatchExit', 'Init'}


def decorate(beh, rng, bid, nodes=('a',), foreign=True):
    """TLC behaviour -> stimulus: environment steps become intents, dispatcher steps become waits"""
    meta = Meta(rng)
    steps = []
    fails_in_row = 0
    depth = None
    for st in beh[1:]:
        a = dict(st['last'])
        name = a['a']
        if name in DROP:
            continue
        if name == 'Snapshot':
            depth = a.get('depth', 0)
            a.pop('keep', None)     # the log is compacted as the server configured its Raft node
        if name == 'ForeignOp' and not foreign:
            continue          # a stuttering step of the specification: leaving it out is sound
        for k in ('snapd', 'pafter', 'lpgap', 'pend', 'depth'):      # selection features, not arguments
            a.pop(k, None)
        if name == 'PublishFail':
            fails_in_row += 1
            if fails_in_row > 2:      # third back-off would be 4 s and more: stop here
                break
        elif name in ('DispatchPublish', 'Unblock', 'Crash'):
            fails_in_row = 0
        if name == 'CommitOp':
            a.update(meta.pick())
        if name == 'Block':
            a['how'] = rng.choice(['readonly', 'nack'])
        if name == 'TakeOver':
            a = {'a': 'TakeOver', 'n': a['n'], 'old': a['old']}
        if name == 'Crash' and steps and steps[-1]['a'] == 'Start' and steps[-1].get('n') == a.get('n'):
            # stopping a server that is still replaying its Raft log panics in the FSM (finishedRecovery
            # after the NATS connection is closed) - a shutdown race outside C18; the pair is a no-op
            steps.pop()
            continue
        steps.append(a)
    cfg = {'nodes': list(nodes)}
    if any(s['a'] == 'ForeignOp' for s in steps):
        cfg['foreign'] = foreign_cfg(rng)
    if depth is not None:
        th = snap_threshold(rng, depth)
        if th:
            cfg['snapthreshold'] = th
    return {'id': bid, 'cfg': cfg, 'steps': steps}


def snap_threshold(rng, depth):
    """configuration dimension `clustering.raft.snapshot.threshold` of a behaviour with a snapshot.
    depth = entries from the oldest unpublished operation to the end of the log when the snapshot is
    taken (TLC's annotation): a value below it is the configuration under which a Raft node that kept
    only `threshold` trailing logs would lose that operation.  0 = option not set."""
    r = rng.random()
    if depth >= 2 and r < 0.7:
        return rng.randint(1, depth - 1)
    if r < 0.85:
        return 0
    return rng.choice([1, 2, max(depth, 1), depth + 3])


def foreign_cfg(rng):
    """namespaces of the two clusters that share one NATS deployment: never the same one"""
    own = rng.choice(['', 'c18x', 'c18x'])
    ns = rng.choice(['c18y', 'c18y', ''] if own else ['c18y'])
    return {'own': own, 'ns': ns}


def situations(beh):
    """situation features of a simulated behaviour, from the `last` records TLC printed
    (who restarts from what: computed by TLC from the model state, see MC_Activity.tla)"""
    f = set()
    snap = None
    blk = None
    for st in beh[1:]:
        a = st['last']
        n = a['a']
        if n == 'Snapshot':
            snap = a
            f.add('snap:backlog' if a['pend'] > 0 else 'snap:clean')
            f.add('snap:depth%d' % min(a.get('depth', 0), 4))     # how far back the oldest unpublished operation lies
            if a['lpgap'] > a['pend']:
                f.add('snap:unrecorded')        # published, record still missing
        elif n == 'Start' and a['snapd']:
            f.add('restart-from-snap:%s:%s:%s' % ('backlog' if snap and snap['pend'] > 0 else 'clean',
                                                  'P-behind' if a['pafter'] else 'no-P-behind',
                                                  'gap%d' % min(a['lpgap'], 2)))
        elif n == 'StepDown' and snap:
            f.add('stepdown-after-snap')
        elif n == 'ForeignOp':
            f.add('foreign')
        elif n == 'Crash':
            f.add('crash:' + a['st'])
        elif n == 'PublishFail' and snap:
            f.add('fail-after-snap')
        # a blockade and how it ends: survived (the event is published and recorded after the
        # unblock), or the process / the leadership ends first
        if n == 'Block':
            blk = 'blocked'
        elif n == 'PublishFail' and blk == 'blocked':
            blk = 'failed'
        elif n == 'Unblock' and blk == 'failed':
            blk = 'unblocked'
        elif n == 'RecordPublished' and blk == 'unblocked':
            f.add('blockade-survived')
            blk = None
        elif n in ('Crash', 'StepDown') and blk in ('failed', 'unblocked'):
            f.add('blockade-ends-with:' + n)
            blk = None
    return f


def select(sims, num, rng, per_feature=3):
    """the pool is several times larger than what is executed: first the behaviours that
    cover every situation feature `per_feature` times (rarest features first), then others"""
    feats = [situations(b) for b in sims]
    count = {}
    for fs in feats:
        for x in fs:
            count[x] = count.get(x, 0) + 1
    chosen, have = [], {}
    for x in sorted(count, key=lambda y: (count[y], y)):
        for i, fs in enumerate(feats):
            if have.get(x, 0) >= per_feature:
                break
            if x in fs and i not in chosen and len(sims[i]) > 2:
                chosen.append(i)
                for y in fs:
                    have[y] = have.get(y, 0) + 1
    rest = [i for i in range(len(sims)) if i not in chosen and len(sims[i]) > 2]
    rng.shuffle(rest)
    chosen = (chosen + rest)[:max(num, len(chosen))]
    return [sims[i] for i in chosen], {x: have.get(x, 0) for x in count}


def snapshot_scenarios(rng, first_id, n):
    """directed family (not from the simulation): a Raft snapshot in every situation of the dispatcher,
    one more operation behind it, restart.
      pre      operations published and recorded before the snapshot
      backlog  operations committed while the activity partition rejects publishes: unpublished when
               the snapshot is taken (0 = none)
      tail     what happens to the operation behind the snapshot: its record is lost with the crash
               (published) / its publish is blocked / it is only committed (backlog > 0)
    After the restart the controller resumes behind the replicated lastPublished - which only the
    snapshot carries when no PUBLISH_ACTIVITY entry lies behind it - and publishes exactly the
    operations above it, in order.  (An operation behind the snapshot is always committed: the
    election no-op alone does not make the restarted server start its restored streams.)"""
    out = []
    for i in range(n):
        meta = Meta(rng)
        steps = [{'a': 'Elect', 'n': 'a'}, {'a': 'BecomeLeader', 'n': 'a'},
                 {'a': 'DispatchPublish', 'n': 'a'}, {'a': 'RecordPublished', 'n': 'a'}]
        for _ in range(rng.randint(1, 3)):
            op = {'a': 'CommitOp', 'k': 'E'}
            op.update(meta.pick())
            steps += [op, {'a': 'DispatchPublish', 'n': 'a'}, {'a': 'RecordPublished', 'n': 'a'}]
        backlog = [0, 2, 3, 1, 4, 2][i % 6] if n >= 3 else rng.randint(0, 3)
        foreign = i % 4 == 3
        todo = 0
        if backlog:
            steps.append({'a': 'Block', 'how': rng.choice(['readonly', 'nack'])})
            for k in range(backlog):
                op = {'a': 'CommitOp', 'k': 'E'}
                op.update(meta.pick())
                steps.append(op)
                if k == 0:
                    steps.append({'a': 'PublishFail', 'n': 'a'})
            todo = backlog
        if foreign:
            steps.append({'a': 'ForeignOp'})
        steps.append({'a': 'Snapshot', 'n': 'a'})
        op = {'a': 'CommitOp', 'k': 'E'}
        op.update(meta.pick())
        todo += 1
        if backlog:
            steps += [op, {'a': 'Crash', 'n': 'a'}]
        elif rng.random() < 0.5:
            steps += [op, {'a': 'DispatchPublish', 'n': 'a'}, {'a': 'Crash', 'n': 'a'}]
        else:
            steps += [{'a': 'Block', 'how': rng.choice(['readonly', 'nack'])}, op, {'a': 'PublishFail', 'n': 'a'},
                      {'a': 'Crash', 'n': 'a'}]
        steps += [{'a': 'Start', 'n': 'a'}, {'a': 'Elect', 'n': 'a'}, {'a': 'BecomeLeader', 'n': 'a'}]
        for _ in range(todo):
            steps += [{'a': 'DispatchPublish', 'n': 'a'}, {'a': 'RecordPublished', 'n': 'a'}]
        if foreign:
            steps.append({'a': 'ForeignOp'})
        # one more round: the restarted controller goes on behind what it has just recorded -
        # through a blockade that ends (refused / error ack in turn)
        op = {'a': 'CommitOp', 'k': 'E'}
        op.update(meta.pick())
        steps += [{'a': 'Block', 'how': ['readonly', 'nack'][i % 2]}, op, {'a': 'PublishFail', 'n': 'a'}, {'a': 'Unblock'},
                  {'a': 'DispatchPublish', 'n': 'a'}, {'a': 'RecordPublished', 'n': 'a'}]
        op = {'a': 'CommitOp', 'k': 'E'}
        op.update(meta.pick())
        steps += [op, {'a': 'DispatchPublish', 'n': 'a'}, {'a': 'RecordPublished', 'n': 'a'}]
        cfg = {'nodes': ['a']}
        if foreign:
            cfg['foreign'] = foreign_cfg(rng)
        # configuration: snapshot threshold below the backlog (every backlog operation is one log entry
        # and the oldest lies `backlog` entries from the end) / not set
        if backlog >= 2:
            cfg['snapthreshold'] = rng.randint(1, backlog - 1)
        elif i % 2:
            cfg['snapthreshold'] = rng.choice([1, 2, 8])
        out.append({'id': first_id + i, 'cfg': cfg, 'steps': steps})
    return out


def variant_scenarios(rng, first_id):
    """Defective variants of ONE decision of the specification as generators of directed scenarios:
    - SnapCarriesLP = FALSE (the snapshot does not carry lastPublished - the code before its repair),
    - Keeps = {1} (the Raft node keeps 1 trailing log instead of 10240: compaction reaches the backlog of
      unpublished operations) - replayed with the snapshot threshold set to that value and continued
      through the end of the blockade, a restart and a step-down, where a dispatcher whose entries are
      gone dies.
    TLC's counterexample is a shortest behaviour in which exactly that decision matters.  It is replayed
    on the real code like any other behaviour (and must hold there)."""
    out = variant_scenario(rng, first_id, 'MC_Activity_snap_before.cfg', 'SnapCarriesLP=FALSE')
    for tail in ('record', 'restart'):
        b = variant_scenario(rng, first_id + len(out), 'MC_Activity_trail.cfg', 'Keeps={1}', extend=False)[0]
        b['cfg']['snapthreshold'] = 1
        st = b['steps']
        acts = [x['a'] for x in st]
        events = 1 + acts.count('CommitOp')              # the creation of __activity + the operations
        recorded = acts.count('RecordPublished')
        parked = acts.count('DispatchPublish') > recorded
        blocked = acts.count('Block') > acts.count('Unblock')
        more = []
        if tail == 'restart':
            # (a record that is pending is lost with the stop; the restarted controller resumes behind
            #  the replicated lastPublished and reads every entry above it from the log store)
            more = [{'a': 'Crash', 'n': 'a'}, {'a': 'Start', 'n': 'a'}, {'a': 'Elect', 'n': 'a'}, {'a': 'BecomeLeader', 'n': 'a'}]
        else:
            if blocked:
                more.append({'a': 'Unblock'})
            if parked:
                more.append({'a': 'RecordPublished', 'n': 'a'})
                recorded += 1
        for _ in range(max(0, events - recorded)):
            more += [{'a': 'DispatchPublish', 'n': 'a'}, {'a': 'RecordPublished', 'n': 'a'}]
        b['steps'] = st + more
        b['variant'] += ',' + tail
        out.append(b)
    return out


def variant_scenario(rng, first_id, cfgname, what, extend=True):
    import re
    with core.scratch('cex') as d:
        core._stage_specs(d)
        cmd = ['tlc', '-workers', '4', '-metadir', os.path.join(d, 'meta'), '-config', cfgname,
               '-noGenerateSpecTE', 'MC_Activity.tla']
        rc, out, wall = core._run_tlc(cmd, d, core._tlc_env(d), 600)
    if rc is None or 'is violated' not in out:
        raise core.Inconclusive('the defective variant of the specification produced no counterexample: %s' % out[-1500:])
    steps = []
    for m in re.finditer(r'^State \d+: <(.*?)>\n(.*?)(?=^State \d+:|\Z|^\d+ states generated)', out, re.S | re.M):
        steps.append({'label': m.group(1), 'last': core.tlaval.state_var(m.group(2), 'last'), 'body': m.group(2)})
    b = decorate(steps, rng, first_id)
    b['cfg'].pop('snapthreshold', None)
    # the counterexample ends where the variant goes wrong; let the real controller go on from there
    if extend:
        b['steps'] += [{'a': 'CommitOp', 'k': 'E', 'op': 'create', 'name': 'v%d' % first_id, 'parts': 1},
                       {'a': 'DispatchPublish', 'n': 'a'}, {'a': 'RecordPublished', 'n': 'a'}]
    b['variant'] = what
    return [b]


def features(beh):
    acts = [s['a'] for s in beh['steps']]
    f = set()
    if 'Snapshot' in acts:
        f.add('snapshot')
    if 'TakeOver' in acts:
        f.add('takeover')
    if 'StepDown' in acts:
        f.add('stepdown')
    if 'ForeignOp' in acts:
        f.add('foreign')
    return ','.join(sorted(f)) or '-'


def nontrivial(beh):
    acts = {s['a'] for s in beh['steps']}
    return 'CommitOp' in acts and bool(acts & {'PublishFail', 'Crash', 'TakeOver', 'Snapshot', 'StepDown', 'ForeignOp'})


def panic_observation(tid, got, behaviours, text):
    """The test process died while behaviour `tid` was running.  If the process's panic report shows that
    the goroutine that panicked runs the DISPATCHER function of the server (name learned by the driver at the
    publish gate, recorded on every line) and no harness frame, and the step in progress was not a stop of
    the server (shutdown races are not C18's), the death is an observation: a `DispatcherPanic` line with
    the state recorded last, judged by TLC.  Anything else stays a dead harness process (abandoned)."""
    import re
    mine = [e for e in got if e.get('t') == tid and 'st' in e]
    if not mine:
        return None
    fn = mine[-1]['st'].get('dispfn') or ''
    m = re.search(r'^panic: (.*)$', text or '', re.M)
    if not fn or not m:
        return None
    rest = text[m.end():]
    g = re.search(r'^goroutine \d+ \[running\]:\n(.*?)(?:\n\n|\Z)', rest, re.S | re.M)
    if not g or '_verif_test.go' in g.group(1) or (fn + '(') not in g.group(1):
        return None
    b = next((x for x in behaviours if x['id'] == tid), None)
    done = len([e for e in mine if e['a'] not in ('Open',)])
    during = b['steps'][done]['a'] if b and done < len(b['steps']) else 'end'
    if during == 'Crash':
        return None
    return {'t': tid, 'a': 'DispatcherPanic', 'args': {'n': 'a', 'during': during, 'msg': m.group(1)[:200]},
            'st': mine[-1]['st'], 'obs': {'err': 'panic: ' + m.group(1)[:200]}}


def run_shard(behaviours, d, k, out, timeout):
    """one go test process per shard; if the process dies (a panic in a server goroutine cannot be
    recovered) the lines recorded so far are kept and the remaining behaviours run in a new process"""
    lines, crashed, text, failtext = [], [], '', ''
    todo = list(behaviours)
    attempt = 0
    while todo and attempt < 40:
        attempt += 1
        stim = os.path.join(d, 'stim-%d-%d.json' % (k, attempt))
        trace = os.path.join(d, 'trace-%d-%d.ndjson' % (k, attempt))
        core.write_json(stim, {'behaviours': todo})
        rc, text, wall = core.go_test('server', '^TestVerifC18$', {'VERIF_STIMULI': stim, 'VERIF_TRACE_OUT': trace},
                                      timeout=timeout, subs=['c18'])
        got = []
        if os.path.exists(trace):
            try:
                got = core.read_ndjson(trace)
            except ValueError:
                got = []
        done = {e['t'] for e in got if e['a'] == 'Completed'} | {e['t'] for e in got if e['a'] == 'Abandoned'}
        lines += [e for e in got if e['a'] != 'Completed']
        if rc == 0:
            todo = []
            break
        failtext = text
        if not got:
            break
        # the behaviour that was running when the process died
        started = [e['t'] for e in got if e['a'] == 'Open']
        dead = [t for t in started if t not in done]
        crashed += dead
        for t in dead:
            ev = panic_observation(t, got, todo, text)
            if ev:
                lines.append(ev)
        seen = set(started)
        todo = [b for b in todo if b['id'] not in seen]
    out[k] = (lines, crashed, todo, failtext or text)


def execute(behaviours, d, shards=6, timeout=900):
    """runs the behaviours on the real server (several go test processes), returns
    (path of the merged trace, ids of abandoned behaviours)"""
    shards = max(1, min(shards, len(behaviours)))
    parts = [behaviours[i::shards] for i in range(shards)]
    out = {}
    if os.environ.get('VERIF_KEEP'):
        core.log('scratch', d)
    # first shard alone compiles the test binary, the others reuse the build cache
    ths = [threading.Thread(target=run_shard, args=(parts[k], d, k, out, timeout)) for k in range(shards)]
    for t in ths:
        t.start()
    for t in ths:
        t.join()
    lines = []
    abandoned = {}
    for k in range(shards):
        got, crashed, todo, text = out.get(k, ([], [], parts[k], 'no result'))
        if todo and not got:
            raise core.Inconclusive('harness failed: %s' % (text or '')[-3000:])
        for b in todo:
            abandoned[b['id']] = 'not executed: harness process died repeatedly: ' + (text or '')[-300:]
        judged = {e['t'] for e in got if e['a'] == 'DispatcherPanic'}
        for t in crashed:
            if t not in judged:
                abandoned[t] = 'harness process died: ' + (text or '')[:600]
        for e in got:
            if e['a'] == 'Abandoned':
                abandoned[e['t']] = e.get('why', '')
                continue
            lines.append(e)
    by_id = {b['id']: b for b in behaviours}
    merged = os.path.join(d, 'trace.ndjson')
    with open(merged, 'w') as fh:
        for e in lines:
            e['cluster'] = len(by_id[e['t']]['cfg'].get('nodes', ['a'])) > 1
            fh.write(json.dumps(e) + '\n')
    return merged, abandoned, len(lines)


def judge(rep, behaviours, trace):
    res = core.tlc_trace('Trace_Activity.tla', 'Trace_Activity.cfg', trace)
    by_id = {b['id']: b for b in behaviours}
    bad = {}
    for kind, tid, line, action, name in res['fails']:
        if kind == 'I':
            rep.drift({'behaviour': tid, 'line': line, 'action': action, 'what': name})
            continue
        bad.setdefault(tid, []).append((line, action, name))
    for tid, fl in sorted(bad.items()):
        fl.sort()
        line, action, name = fl[0]
        b = by_id[tid]
        sig = 'C18|%s|%s|%s' % (name, action, features(b))
        rep.classify(sig, 'first failing step: trace line %d action %s check %s' % (line, action, name),
                     {'behaviours': [b]})
    return res


def quiet_drift(rep, trace):
    """A behaviour that ended on a `Quiet` line (dispatcher blocked in its own code for the whole window,
    nothing pending - otherwise TLC has reported C18_IdleMeansPublished): the real code had less to
    publish than the specification said.  That is conformance drift, not an inconclusive run."""
    bad = {b['id'] for _, _, obj in rep.violations for b in obj['behaviours']}
    for e in core.read_ndjson(trace):
        if e.get('a') == 'Quiet' and e['t'] not in bad:
            rep.drift({'behaviour': e['t'], 'action': 'Quiet',
                       'what': 'the dispatcher is idle with nothing pending while the behaviour expects a publish'})


def conformance(rep, behaviours, trace):
    """TraceI_Activity: is every recorded observation reachable from the previous one by steps of
    Activity.tla (hidden dispatcher / raft steps)?  A gap is drift, never a verdict."""
    if not os.path.exists(os.path.join(core.SPEC, 'TraceI_Activity.tla')):
        return None
    import re
    import shutil
    with core.scratch('tracei') as d:
        core._stage_specs(d)
        shutil.copy(trace, os.path.join(d, 'trace.ndjson'))
        with open(os.path.join(d, 'trace.ndjson'), 'a') as fh:
            fh.write('{"a":"End"}\n')
        env = core._tlc_env(d)
        cmd = ['tlc', '-workers', '1', '-metadir', os.path.join(d, 'meta'), '-config', 'TraceI_Activity.cfg',
               '-noGenerateSpecTE', 'TraceI_Activity.tla']
        rc, out, wall = core._run(cmd, d, env, 900)
        m = re.search(r'^<<"REACHED", (\d+), (\d+)>>', out, re.M)
        if rc is None or not m:
            raise core.Inconclusive('conformance run did not complete (rc=%s): %s' % (rc, out[-2000:]))
        reached, total = int(m.group(1)), int(m.group(2))
        for mm in re.finditer(r'^<<"STUCK", (\d+), (\d+), "(\w+)">>', out, re.M):
            rep.drift({'behaviour': int(mm.group(1)), 'line': int(mm.group(2)), 'action': mm.group(3),
                       'what': 'observation not reachable by steps of Activity.tla'})
        return {'reached': reached, 'total': total, 'wall': wall}


DESIGN = {
    'quick': [('MC_Activity.cfg', False), ('MC_Activity_cc.cfg', False), ('MC_Activity_step.cfg', False),
              ('MC_Activity_snap.cfg', False), ('MC_Activity_live.cfg', False)],
    'thorough': [('MC_Activity.cfg', True), ('MC_Activity_cc.cfg', True), ('MC_Activity_live.cfg', False),
                 ('MC_Activity_step.cfg', False), ('MC_Activity_thorough.cfg', False),
                 ('MC_Activity_cc_thorough.cfg', False), ('MC_Activity_step_thorough.cfg', False),
                 ('MC_Activity_snap.cfg', False), ('MC_Activity_snap_thorough.cfg', False)],
}


def run(rep, tier, seed, replay):
    rng = random.Random(seed)
    if replay:
        behaviours = replay['replay']['behaviours']
        with core.scratch('c18') as d:
            trace, abandoned, nlines = execute(behaviours, d, shards=1)
            judge(rep, behaviours, trace)
            if abandoned and not rep.violations:
                raise core.Inconclusive('scenario not brought to its target state: %s' % abandoned)
        rep.cov['rule'] = 'replay of a saved stimulus'
        rep.cov['samples'] = behaviours[:1]
        return
    # 1. design checks
    for cfg, cov in DESIGN[tier]:
        if os.environ.get('VERIF_DEV_NODESIGN'):
            break
        if not os.path.exists(os.path.join(core.SPEC, cfg)):
            continue
        res = core.tlc_check('MC_Activity.tla', cfg, timeout=2400, coverage=cov)
        rep.add_design(cfg[:-4], res)
    # 2. behaviours from the specification (one server, eager schedule)
    num = 70 if tier == 'quick' else 600
    #    a pool several times larger than what is executed; the subset that covers the situation
    #    features (snapshot with / without a backlog, what lies behind it at the restart, ...) is replayed
    pool = core.tlc_simulate('MC_Activity.tla', 'Sim_Activity.cfg', num * 6, 40, seed)
    sims, covered = select(pool, num, rng)
    # a second cluster costs one more server per behaviour: keep it in a bounded number of them
    nforeign = 8 if tier == 'quick' else 60
    behaviours = []
    for i, b in enumerate(sims):
        has = any(st['last']['a'] == 'ForeignOp' for st in b[1:])
        behaviours.append(decorate(b, rng, i + 1, foreign=has and nforeign > 0))
        nforeign -= 1 if has else 0
    behaviours += snapshot_scenarios(rng, len(behaviours) + 1, 6 if tier == 'quick' else 24)
    behaviours += variant_scenarios(rng, len(behaviours) + 1)
    rep.cov['situations'] = covered
    # 3. execute on the real server, 4. TLC judges
    with core.scratch('c18') as d:
        trace, abandoned, nlines = execute(behaviours, d, shards=6 if tier == 'quick' else 8,
                                           timeout=900 if tier == 'quick' else 2400)
        tr = judge(rep, behaviours, trace)
        try:
            conf = conformance(rep, behaviours, trace)
        except core.Inconclusive:
            if not rep.violations:      # (drift is never a verdict: a verdict already taken stands)
                raise
            conf = None
        quiet_drift(rep, trace)
    rep.cov['traces_validated_against_impl'] = len(behaviours) - len(abandoned)
    rep.cov['trace_lines_validated'] = tr['validated']
    rep.cov['evaluations'] = len(behaviours)
    rep.cov['distinct_nontrivial'] = len({core.sha(b['steps']) for b in behaviours
                                          if nontrivial(b) and b['id'] not in abandoned})
    rep.cov['rule'] = ('behaviours = TLC simulation of MC_Activity (Sim_Activity.cfg, seeded) with concrete metadata '
                       'operations filled in; non-trivial = contains an operation and at least one publish failure, '
                       'crash, take-over, snapshot, step-down or foreign operation; distinct by hash of the step list; the '
                       'simulated pool is 6x the executed number, selected by situation features (see `situations`), plus the '
                       'directed snapshot family and the counterexample of the defective variant SnapCarriesLP = FALSE')
    rep.cov['samples'] = behaviours[:2]
    rep.cov['abandoned'] = len(abandoned)
    if conf:
        rep.cov['conformance'] = conf
    rep.assumptions += ['Raft (hashicorp/raft) and NATS delivery are trusted',
                        'the activity stream is read from the commit log of __activity up to its high watermark',
                        'TLC 1.8.0 evaluates the TLA+ predicates correctly']
    if abandoned and not rep.violations:
        raise core.Inconclusive('%d scenario(s) not brought to their target state in time: %s' % (
            len(abandoned), list(abandoned.items())[:3]))
