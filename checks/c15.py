"""C15 - with ACLs on, an unauthorised call is refused and changes nothing.

spec/Authz.tla (+ MC_Authz, Trace_Authz); harness/server/c15
"""
import json
import os
import random

from vf import core

META = {
    'property_id': 'C15',
    'confirm_by_replay': True,   # bin/check re-executes the stimulus of every violation before it is reported
    'level': 'model_checking',
    'technique': 'per-method handler step sequences (authorisation step vs effects, in code order) transcribed in TLA+ '
                 '(Authz.tla), enumerated by TLC over start situations x policies x calls x one policy edit/reload; '
                 'TLC-simulated behaviours, stratified over method x request shape x authorised/unauthorised, executed on '
                 'the real apiServer methods in-process (context carrying the client id, casbin enforcer from '
                 'harness-written files, real SIGHUP reload, fake stream servers); projected world before/after judged '
                 'by TLC (trace validation)',
    'level_text': 'TLC enumerates every start situation (21 state classes of the target stream next to a busy neighbour '
                  'stream, cursor present/absent, caller member of the group or not) x policy (empty, full, full minus one '
                  'entry, single entry, other clients only; resources = stream names, subjects, "*", the consumer group id and '
                  'the consumer ids) x call (16 methods with their request shapes: resume-on-subscribe, group take-over '
                  'with epochs, readonly on/off, consumer-group calls by a member / non-member) followed by toggling the call\'s policy entry in the file, '
                  'reload, and the same call again, and checks on the transcribed handlers that an unauthorised call is '
                  'refused and leaves the world unchanged.  A stratified sample of these behaviours is executed on the real '
                  'server and every recorded step is judged by TLC; the method set is taken from client.APIServer by '
                  'reflection, unknown methods are called generically without any policy entry.',
    'level_note': 'This is mostly the "transcribe a case analysis and turn every model case into an implementation test" use '
                  'of TLC: handlers are sequential step lists, calls are atomic in the model (the driver is lock-step).  '
                  'Bounds: 2 clients, 2 streams, 1 group, 1 cursor id, log length <= 2.  The TLS layer that puts the client '
                  'id into the context is exercised by a sub-sample of the behaviours over a real gRPC/TLS connection.',
    'design_ref': 'DESIGN.md section 6/C15',
}

MODEL_METHODS = ['CreateStream', 'DeleteStream', 'PauseStream', 'SetStreamReadonly', 'FetchPartitionMetadata', 'Publish',
                 'PublishToSubject', 'SetCursor', 'FetchCursor', 'Subscribe', 'PublishAsync', 'JoinConsumerGroup',
                 'LeaveConsumerGroup', 'FetchConsumerGroupAssignments', 'ReportConsumerGroupCoordinator', 'FetchMetadata']
GROUP_METHODS = {'JoinConsumerGroup', 'LeaveConsumerGroup', 'FetchConsumerGroupAssignments', 'ReportConsumerGroupCoordinator'}


def tla_set(v):
    return v['__set__'] if isinstance(v, dict) and '__set__' in v else v


def entries(v):
    return sorted([list(e) for e in tla_set(v)])


SYS = '__cursors'
HARMLESS_ON_SYS = {'FetchPartitionMetadata', 'FetchCursor', 'SetCursor', 'Subscribe', 'CreateStream', 'DeleteStream'}


def subj_of(s):
    return {'s1': 'j1', 's2': 'j2'}.get(s, 'jsys')


def resource_of(call):
    if call['m'] == 'FetchMetadata':
        return '*'
    if call['m'] in GROUP_METHODS:
        return 'g1'
    if call['m'] == 'PublishToSubject':
        return subj_of(call['s'])
    return call['s']


def action_of(m):
    return 'Publish' if m == 'PublishAsync' else m


def authorised(policy, call):
    return [call['c'], resource_of(call), action_of(call['m'])] in policy


CLIENTS = ['alice', 'bob']
ACTIONS = sorted({action_of(m) for m in MODEL_METHODS})
# Authz!Resources: streams, subjects, '*', the group id and the consumer ids (names that travel next to the resource)
ALL_ENTRIES = sorted([c, r, a] for c in CLIENTS for r in ('s1', 's2', SYS, 'j1', 'j2', '*', 'g1') + tuple(CLIENTS)
                     for a in ACTIONS)


def needs(call):
    """Authz!Needs: the entry of the call itself, then the entries of the calls the handler makes in the caller's name"""
    out = [[call['c'], resource_of(call), action_of(call['m'])]]
    if call['m'] == 'SetCursor':
        out.append([call['c'], SYS, 'Publish'])
    return out


def missing_needs(policy, call):
    """which of the entries the call needs are not in the policy: 'none', 'outer', 'inner' (only nested ones), 'both'"""
    n = needs(call)
    outer = n[0] not in policy
    inner = any(e not in policy for e in n[1:])
    return 'both' if outer and inner else 'outer' if outer else 'inner' if inner else 'none'


def toggled(pol, entry):
    return sorted([e for e in pol if e != entry] if entry in pol else pol + [entry])


def entry_first(pol, entry):
    """order in which a half-written file holds the revision: the entry in question (if granted) in the part that
    can still be parsed"""
    return [e for e in pol if e == entry] + [e for e in pol if e != entry]


def sharpen(b, rng):
    """Replaces the sampled policy of a behaviour by the most discriminating one of the same model family
    (MC_Authz!PolicyChoices): for an unauthorised first call everything EXCEPT the entry the call needs (catches a
    wrong action / resource / client in the check), for an authorised one ONLY the entries it needs."""
    c = b['steps'][0]['call']
    pol = b['cfg']['policy']
    entry = b.get('toggle') or needs(c)[0]      # the entry the tail of the behaviour toggles
    kind = missing_needs(pol, c)
    if kind in ('outer', 'both'):
        new = [e for e in ALL_ENTRIES if e != needs(c)[0]]
    elif kind == 'inner':
        # the call holds its own entry; the entries of its nested calls are what is missing
        new = [e for e in ALL_ENTRIES if e not in needs(c)[1:] or e in pol]
    else:
        new = needs(c)
    if rng.random() < 0.2:
        return b
    new = sorted(new)
    b['cfg']['policy'] = new
    cur = list(new)
    torn = False
    for st in b['steps']:
        if st['a'] == 'BreakFile' and st.get('kind') == 'torn':
            cur = toggled(cur, entry)
            st['policy'] = entry_first(cur, entry)
            torn = True
        elif st['a'] == 'EditPolicy':
            if not torn:      # (MC_Authz!MCEdit: the corrected file holds the revision whose write stopped half-way)
                cur = toggled(cur, entry)
            torn = False
            st['policy'] = cur
    return b


def with_tail(b, rng=None, entry=None):
    """completes a behaviour to: call, toggle the call's entry in the file, reload, same call again (the tail of
    MC_Authz: MCEdit, MCReload, MCCall) - revocation / grant must take effect for the next call, also for the next
    message of an open PublishAsync session"""
    c = b['steps'][0]['call']
    if c['s'] == SYS and c['m'] not in HARMLESS_ON_SYS:
        return b      # the second call would be an authorised write to the cursors stream (MC_Authz!MCCall guard)
    if entry is None:
        entry = rng.choice(needs(c)) if rng is not None else needs(c)[0]      # MCEdit: any entry the call needs
    b['toggle'] = entry
    cur = toggled(list(b['cfg']['policy']), entry)
    mid = []
    if rng is not None and rng.random() < 0.5:
        # MCBreak / MCReloadFail: the file disappears, or the write of the new revision stops half-way, and a reload
        # fails before the corrected file is written
        if rng.random() < 0.5:
            mid = [{'a': 'BreakFile', 'kind': 'removed'}, {'a': 'Reload'}]
        else:
            mid = [{'a': 'BreakFile', 'kind': 'torn', 'policy': entry_first(cur, entry)}, {'a': 'Reload'}]
    how = rng.choice(['inplace', 'rename']) if rng is not None else 'inplace'   # MCEdit: written in place / renamed over
    cancel = []
    if c['m'] in ('PublishAsync', 'Subscribe') and rng is not None and rng.random() < 0.5:
        cancel = [{'a': 'Cancel', 'call': dict(c)}]      # MCCancel: the streaming call is cancelled, then made again
    b['steps'] = [b['steps'][0]] + mid + [{'a': 'EditPolicy', 'policy': cur, 'how': how}, {'a': 'Reload'}] + cancel + [
        {'a': 'Call', 'call': dict(c)}]
    return b


OWNER = {'cid': 'owner', 'epoch': 1}
NOSUB = {'cid': '', 'epoch': -1}


def visible_variant(b):
    """The same first call from the start situation (a state class of MC_Authz!MCInit) in which the call, were it
    carried out, changes the world visibly: CreateStream on an absent stream, Subscribe+resume on a paused one, a
    group subscription against the owner's entry, SetStreamReadonly(false) on a readonly stream, SetCursor without a
    stored cursor, Join by a non-member / Leave by a member, everything else on an active stream with subscribers.
    Random start situations hit these classes rarely (absent is 1 of 21)."""
    import copy
    nb = copy.deepcopy(b)
    c = nb['steps'][0]['call']
    nb['steps'] = [nb['steps'][0]]
    if c['s'] == SYS:
        return None
    cls = {'exists': True, 'paused': False, 'readonly': False, 'len': 1, 'plain': 1, 'gsub': dict(OWNER)}
    if c['m'] == 'CreateStream' and c['s'] == 's2':
        c['s'] = 's1'     # the neighbour s2 is the stream the group's members consume: it exists in every start situation
    if c['m'] == 'CreateStream':
        cls = {'exists': False, 'paused': False, 'readonly': False, 'len': 0, 'plain': 0, 'gsub': dict(NOSUB)}
    elif c['m'] == 'Subscribe' and c['resume']:
        cls.update(paused=True, plain=0, gsub=dict(NOSUB))
    elif c['m'] == 'SetStreamReadonly' and not c['ro']:
        cls.update(readonly=True, plain=0, gsub=dict(NOSUB))
    if c['m'] not in GROUP_METHODS and c['m'] != 'FetchMetadata':
        nb['cfg']['st'][c['s']] = cls
    if c['m'] == 'SetCursor':
        nb['cfg']['cursors'][c['s']] = -1
    if c['m'] == 'JoinConsumerGroup':
        nb['cfg']['members'] = ['owner']
    elif c['m'] in GROUP_METHODS:
        nb['cfg']['members'] = sorted({'owner', 'alice', 'bob'})
    return nb


def nested_variant(b):
    """A call whose handler makes further calls in the caller's name (Authz!Needs has more than one entry) from the
    effect-visible start situation, under the policy that grants everything EXCEPT the entries of the nested calls:
    the call holds its own entry and is refused further in."""
    c = b['steps'][0]['call']
    if len(needs(c)) < 2 or c['s'] == SYS:
        return None
    nb = visible_variant(b)
    if nb is None:
        return None
    nb['cfg']['policy'] = sorted(e for e in ALL_ENTRIES if e not in needs(c)[1:])
    nb.pop('toggle', None)
    return nb


def warmup_variant(b):
    """MC_Authz!MCOther, in the order that matters for a decision that leaks between triples: first the ENTITLED
    client makes the request on the other user stream (granted), then the client without the entry makes the same
    request on this one.  The harness's real names are chosen so that the two (client, resource) pairs read the same
    when glued together (svc + eu.b7s / svc.eu + b7s)."""
    import copy
    nb = copy.deepcopy(b)
    c = nb['steps'][0]['call']
    if c['m'] in GROUP_METHODS or c['m'] == 'FetchMetadata' or c['s'] == SYS:
        return None
    c['c'], c['s'] = 'bob', 's1'
    warm = dict(c, c='alice', s='s2')
    entry = ['bob', resource_of(c), action_of(c['m'])]
    nb['cfg']['policy'] = sorted(e for e in ALL_ENTRIES if e != entry)
    nb['steps'] = [{'a': 'Call', 'call': warm}, {'a': 'Call', 'call': c}]
    return nb


def to_behaviour(bid, sim):
    b0 = sim[0]['body']
    sv = core.tlaval.state_var
    st = sv(b0, 'st')
    cfg = {'st': st, 'cursors': sv(b0, 'cursors'), 'members': sorted(tla_set(sv(b0, 'members'))),
           'policy': entries(sv(b0, 'policy')), 'clientAuth': sv(b0, 'clientAuth'), 'enforcer': sv(b0, 'enforcer')}
    steps = []
    for s in sim[1:]:
        a = s['last']['a']
        if a == 'Call':
            steps.append({'a': 'Call', 'call': s['last']['call']})
        elif a == 'EditPolicy':
            steps.append({'a': 'EditPolicy', 'policy': entries(sv(s['body'], 'policyFile')),
                          'how': s['last'].get('how', 'inplace')})
        elif a == 'BreakFile':
            step = {'a': 'BreakFile', 'kind': s['last'].get('kind', 'removed')}
            if step['kind'] == 'torn':
                c0 = s['last']['call']
                step['policy'] = entry_first(entries(sv(s['body'], 'policyFile')),
                                             [c0['c'], resource_of(c0), action_of(c0['m'])])
            steps.append(step)
        elif a == 'Cancel':
            steps.append({'a': 'Cancel', 'call': s['last']['call']})
        else:
            steps.append({'a': 'Reload'})
    b = {'id': bid, 'cfg': cfg, 'steps': steps}
    for st in steps:          # which entry the tail toggles: the difference between the first new revision and the start
        if 'policy' in st:
            diff = [e for e in st['policy'] if e not in cfg['policy']] + [e for e in cfg['policy'] if e not in st['policy']]
            if len(diff) == 1:
                b['toggle'] = diff[0]
            break
    return b


def unauthorised(policy, call):
    """the property's reading (Unauthorised in Authz.tla) for a caller with a verified identity"""
    return not authorised(policy, call)


def stratum(b):
    c = b['steps'][0]['call']
    s1 = b['cfg']['st'][c['s']]
    member = c['c'] in b['cfg']['members'] if c['m'] in GROUP_METHODS else False
    return (c['m'], c['s'] == SYS, c['resume'], c['grp'], c['epoch'] if c['grp'] else 0, missing_needs(b['cfg']['policy'], c) == 'none', member,
            s1['exists'], s1['paused'], s1['readonly'], s1['gsub']['cid'] != '', missing_needs(b['cfg']['policy'], c))


def features(b, step_index):
    """signature part: method / request shape / call site of the step that failed"""
    calls = [s['call'] for s in b['steps'][:step_index + 1] if s['a'] == 'Call']
    if not calls:
        return '-'
    c = calls[-1]
    f = c['m']
    if c['m'] == 'Subscribe':
        f += '/resume' if c['resume'] else ''
        f += '/group' if c['grp'] else ''
    return f


class _Stop(Exception):
    """the harness gave up in the middle of a run whose recorded part already shows a violation"""


def settle(rep, stats):
    """A test process that gives up half-way (a set-up step refused, a handler that never returns) after the real
    code misbehaved is a consequence, not a verdict of its own: the part of the trace recorded until then is judged;
    if it shows a violation the run ends there (exit 1), otherwise the run is inconclusive (exit 2)."""
    if stats.get('harness_failed'):
        if rep.violations:
            raise _Stop()
        raise core.Inconclusive(stats['harness_failed'])


def execute(d, behaviours, test='^TestVerifC15$', env=None, shards=1, stats=None):
    """runs the behaviours on the real server; `shards` > 1: that many test processes (each its own one-node server)
    side by side, every behaviour is independent of the others (fresh names), the traces are concatenated"""
    import threading
    import time
    shards = max(1, min(shards, len(behaviours)))
    parts = [behaviours[k::shards] for k in range(shards)]
    results = [None] * shards

    def one(k):
        stim = os.path.join(d, 'stim-%d.json' % k)
        trace = os.path.join(d, 'trace-all-%d.ndjson' % k)
        if os.path.exists(trace):
            os.remove(trace)
        core.write_json(stim, {'behaviours': parts[k]})
        try:
            rc, out, wall = core.go_test('server', test, dict({'VERIF_STIMULI': stim, 'VERIF_TRACE_OUT': trace}, **(env or {})),
                                         timeout=1700, subs=['c15'])
        except Exception as exc:          # reported by the caller's thread
            results[k] = ('exc', repr(exc), None)
            return
        results[k] = (rc, out, trace)
    threads = []
    for k in range(shards):
        th = threading.Thread(target=one, args=(k,))
        th.start()
        threads.append(th)
        time.sleep(0.3)      # (core.scratch numbers its directories with a plain counter)
    for th in threads:
        th.join()
    lines, methods = [], None
    for rc, out, trace in results:
        msg = 'harness failed rc=%s: %s' % (rc, (out or '')[-3000:])
        if not trace or not os.path.exists(trace) or (rc != 0 and stats is None):
            raise core.Inconclusive(msg)
        part = []
        for ln in open(trace):
            try:
                part.append(json.loads(ln))
            except ValueError:
                break          # the line being written when the process ended
        if not part or 'methods' not in part[0]:
            raise core.Inconclusive(msg)
        if rc != 0:
            stats['harness_failed'] = msg
        methods = part[0]['methods']
        lines += part[1:]
    out_path = os.path.join(d, 'trace.ndjson')
    with open(out_path, 'w') as fh:
        for e in lines:
            fh.write(json.dumps(e) + '\n')
    return out_path, methods, lines


def judge(rep, trace, lines, behaviours, stats):
    if not lines:
        return      # nothing was recorded (the test process gave up before the first behaviour started): see settle
    res = core.tlc_trace('Trace_Authz.tla', 'Trace_Authz.cfg', trace, timeout=1500)
    by_id = {b['id']: b for b in behaviours}
    first = {}
    for kind, tid, ln, action, name in res['fails']:
        e = lines[ln - 1]
        if kind == 'C':
            raise core.Inconclusive('trace line %d not understood' % ln)
        b = by_id[tid]
        # index of the step inside the behaviour: lines of the behaviour are Open, step0, step1...
        start = max(k for k in range(ln) if lines[k]['a'] == 'Open' and lines[k]['t'] == tid)
        idx = ln - 1 - start - 1
        if kind == 'I':
            rep.drift({'behaviour': tid, 'line': ln, 'action': action, 'what': name, 'call': e['args'].get('call'),
                       'res': e['obs'].get('res'), 'detail': e['obs'].get('detail', '')[:120]})
            stats.setdefault('drifting', []).append(b)
            continue
        key = (tid, name)
        if key not in first or ln < first[key][0]:
            first[key] = (ln, action, idx)
    for (tid, name), (ln, action, idx) in sorted(first.items()):
        b = by_id[tid]
        rep.classify('C15|%s|%s|%s' % (name, action, features(b, idx)),
                     '%s fails at line %d (%s) of behaviour %d' % (name, ln, features(b, idx), tid), {'behaviours': [b]})
    stats['lines'] = stats.get('lines', 0) + (res['validated'] or 0)


def run(rep, tier, seed, replay):
    stats = {}
    if replay:
        behaviours = replay['replay']['behaviours']
        mode = behaviours[0]['cfg'].get('mode', '')
        with core.scratch('c15') as d:
            if mode.startswith('tls'):
                env = None
                if mode == 'tls-authoff':
                    env = {'VERIF_C15_CLIENTAUTH': 'off'}
                elif mode.startswith('tls-'):
                    env = {'VERIF_C15_ENFORCER': mode[4:]}
                trace, methods, lines = execute(d, behaviours, test='^TestVerifC15TLS$', env=env)
            else:
                trace, methods, lines = execute(d, behaviours)
            judge(rep, trace, lines, behaviours, stats)
        rep.cov['rule'] = 'replay of a saved behaviour'
        rep.cov['samples'] = behaviours[:1]
        return
    rng = random.Random(seed)
    import time
    t0 = time.time()
    phases = {}
    # stimulus generation (one TLC worker) runs next to the design check
    import threading
    nsim = 2500 if tier == 'quick' else 12000
    simbox = {}

    def simulate():
        try:
            simbox['sims'] = core.tlc_simulate('MC_Authz.tla', 'Sim_Authz.cfg', nsim, 5, seed, timeout=1200)
        except BaseException as exc:
            simbox['exc'] = exc
    simth = threading.Thread(target=simulate)
    simth.start()
    time.sleep(0.3)
    try:
        res = core.tlc_check('MC_Authz.tla', 'MC_Authz.cfg' if tier == 'quick' else 'MC_Authz_thorough.cfg', timeout=2400,
                             coverage=(tier == 'thorough'), workers=max(2, core.NCPU - 2), heap='6g')
    finally:
        simth.join()
    if res.get('zero_cov'):
        # TLC prints interim coverage dumps during long runs; only the final one counts
        import re
        final = res['out'].split('The coverage statistics')[-1]
        res['zero_cov'] = re.findall(r'^<(\w+) line [^>]*>: 0:0\s*$', final, re.M)
    rep.add_design('MC_Authz', res, expect_ok=False)
    if not res['complete'] and not res['violated']:
        raise core.Inconclusive('design check did not complete: %s' % res['out'][-1500:])
    stats['design_violated'] = res['violated']
    phases['design'] = round(time.time() - t0, 1)
    # behaviours from the specification (both clients call), stratified
    if 'exc' in simbox:
        raise simbox['exc']
    sims = simbox['sims']
    cands = [to_behaviour(n + 1, s) for n, s in enumerate(sims) if len(s) > 1]
    # the in-process driver stands for callers with a verified certificate on a server that verifies them and has an
    # enforcer; the other credentials / configuration routes are driven over real TLS (stages below)
    cands = [b for b in cands if b['cfg']['clientAuth'] and b['cfg']['enforcer']
             and all(s['a'] != 'Call' or s['call']['cred'] == 'verified' for s in b['steps'])]
    phases['simulate'] = round(time.time() - t0, 1)
    by_stratum = {}
    for b in cands:
        by_stratum.setdefault(stratum(b), []).append(b)
    per = 1 if tier == 'quick' else 4
    budget = 185 if tier == 'quick' else 1500
    chosen = []
    keys = sorted(by_stratum, key=str)
    rng.shuffle(keys)
    # unauthorised strata first: they are what the property is about
    keys.sort(key=lambda k: k[5])
    for k in keys:
        lst = by_stratum[k]
        lst.sort(key=lambda b: -len(b['steps']))     # prefer the ones with edit / reload / second call
        head = lst[:max(per * 3, 3)]
        rng.shuffle(head)
        chosen += head[:per]
    chosen = [sharpen(b, rng) for b in chosen[:budget]]
    # one effect-visible start situation per (method, request shape) of the unauthorised first calls
    seen_shape = set()
    extra = []
    for b in chosen:
        c = b['steps'][0]['call']
        k = (c['m'], c['resume'], c['grp'], c['ro'])
        if k in seen_shape or not unauthorised(b['cfg']['policy'], c):
            continue
        v = visible_variant(b)
        if v is not None:
            class _Always:
                def random(self):
                    return 1.0
            v = sharpen(v, _Always())
            w = warmup_variant(v)
            if w is not None:
                extra.append(w)
            seen_shape.add(k)
            extra.append(v)
    chosen += extra
    # calls that make further calls in the caller's name: own entry held, the nested ones missing (once as it is, once
    # followed by granting the nested entry, reload, same call)
    import copy as _copy
    seen_nested = set()
    for b in list(chosen):
        c = b['steps'][0]['call']
        if (c['m'], c['c']) in seen_nested:
            continue
        v = nested_variant(b)
        if v is not None:
            seen_nested.add((c['m'], c['c']))
            v2 = _copy.deepcopy(v)
            with_tail(v2, rng, entry=needs(c)[1])
            chosen += [v, v2]
    for b in chosen:
        m = b['steps'][0]['call']['m']
        if len(b['steps']) < 4 and (m in ('PublishAsync', 'Subscribe') or rng.random() < 0.3):
            with_tail(b, rng)
    # methods the model does not know are called generically by a client without any entry (added below after reflection)
    for n, b in enumerate(chosen):
        b['id'] = n + 1
    methods, unknown, missing = [], [], []
    try:
        with core.scratch('c15') as d:
            trace, methods, lines = execute(d, chosen, shards=2 if tier == 'quick' else 3, stats=stats)
            phases['execute'] = round(time.time() - t0, 1)
            unknown = [m for m in methods if m not in MODEL_METHODS]
            missing = [m for m in MODEL_METHODS if m not in methods]
            judge(rep, trace, lines, chosen, stats)
            settle(rep, stats)
            if unknown:
                base = chosen[0]
                extra = []
                for m in unknown:
                    call = {'m': m, 'c': 'alice', 's': 's1', 'resume': False, 'grp': False, 'epoch': 0, 'ro': False}
                    extra.append({'id': len(chosen) + len(extra) + 1, 'cfg': dict(base['cfg'], policy=[]),
                                  'steps': [{'a': 'Call', 'call': call}]})
                trace2, _, lines2 = execute(d, extra, stats=stats)
                judge(rep, trace2, lines2, extra, stats)
                settle(rep, stats)
                chosen += extra
            # the same behaviours over a real gRPC/TLS connection: the client id comes from the certificate through the
            # interceptors of server/authz.go and the enforcer is the one the server builds from its configuration
            import copy
            tls_ok = set(MODEL_METHODS) - {'PublishAsync'}
            tls_b = [copy.deepcopy(b) for b in chosen
                     if all(s['a'] != 'Call' or (s['call']['c'] == 'alice' and s['call']['m'] in tls_ok) for s in b['steps'])]
            tls_b.sort(key=lambda b: missing_needs(b['cfg']['policy'], b['steps'][0]['call']) == 'none')
            seen_m = {}
            pick = []
            for b in tls_b:          # spread over methods, unauthorised first
                m = b['steps'][0]['call']['m']
                if seen_m.get(m, 0) < (3 if tier == 'quick' else 12):
                    seen_m[m] = seen_m.get(m, 0) + 1
                    pick.append(b)
            # how the caller authenticates (Authz!Creds): against the policy that grants EVERYTHING, a caller with a
            # self-signed certificate claiming the client's name, or with no certificate, must be refused
            first_by_m = {}
            for b in tls_b:
                first_by_m.setdefault(b['steps'][0]['call']['m'], b)

            def cred_behaviours(creds):
                out = []
                for k, (m, b) in enumerate(sorted(first_by_m.items())):
                    v = visible_variant(b) or copy.deepcopy(b)
                    v['steps'] = [v['steps'][0]]
                    v['steps'][0]['call']['cred'] = creds[k % len(creds)]
                    v['cfg']['policy'] = list(ALL_ENTRIES)
                    out.append(v)
                return out
            pick += cred_behaviours(['forged', 'none'])
            for n, b in enumerate(pick):
                b['id'] = 100000 + n
                b['cfg']['mode'] = 'tls'
            if pick:
                trace3, _, lines3 = execute(d, pick, test='^TestVerifC15TLS$', stats=stats)
                judge(rep, trace3, lines3, pick, stats)
                settle(rep, stats)
            stats['tls'] = len(pick)
            chosen += pick
            # configuration route "authorisation enabled, policy / model path missing": the server builds no enforcer;
            # every call (one per method, over TLS) must be refused
            noenf = []
            for route in ('nopolicy', 'nomodel'):
                grp = []
                seen_m = set()
                for b in tls_b:
                    m = b['steps'][0]['call']['m']
                    if m in seen_m:
                        continue
                    seen_m.add(m)
                    nb = copy.deepcopy(b)
                    nb['id'] = 200000 + len(noenf) + len(grp)
                    nb['cfg']['policy'] = []
                    nb['cfg']['mode'] = 'tls-' + route
                    nb['steps'] = [nb['steps'][0]]
                    grp.append(nb)
                if grp:
                    trace4, _, lines4 = execute(d, grp, test='^TestVerifC15TLS$', env={'VERIF_C15_ENFORCER': route}, stats=stats)
                    judge(rep, trace4, lines4, grp, stats)
                    settle(rep, stats)
                noenf += grp
            stats['noenf'] = len(noenf)
            chosen += noenf
            # configuration route "authorisation on, client certificates not verified" (tls.client.auth.enabled off):
            # nobody has a verified identity, so every call must be refused whatever certificate is shown
            authoff = cred_behaviours(['forged', 'forged', 'verified', 'none'])
            for n, b in enumerate(authoff):
                b['id'] = 300000 + n
                b['cfg']['mode'] = 'tls-authoff'
                b['cfg']['clientAuth'] = False
            if authoff:
                trace5, _, lines5 = execute(d, authoff, test='^TestVerifC15TLS$', env={'VERIF_C15_CLIENTAUTH': 'off'}, stats=stats)
                judge(rep, trace5, lines5, authoff, stats)
                settle(rep, stats)
            stats['authoff'] = len(authoff)
            chosen += authoff
    except _Stop:
        rep.cov['stopped_early'] = stats['harness_failed'][-400:]
    if stats.get('drifting'):
        core.write_json(os.path.join(core.BUILD, 'drift-C15.json'), {'replay': {'behaviours': stats['drifting'][:20]}})
    phases['judge'] = round(time.time() - t0, 1)
    rep.cov['phase_wall_s_cumulative'] = phases
    rep.cov['api_methods_by_reflection'] = methods
    rep.cov['api_methods_unknown_to_model'] = unknown
    rep.cov['model_methods_missing_in_api'] = missing
    rep.cov['behaviours_over_tls'] = stats.get('tls', 0)
    rep.cov['behaviours_without_enforcer'] = stats.get('noenf', 0)
    rep.cov['behaviours_without_client_cert_verification'] = stats.get('authoff', 0)
    rep.cov['strata_available'] = len(by_stratum)
    rep.cov['strata_executed'] = len({stratum(b) for b in chosen if b['steps'][0]['call']['m'] in MODEL_METHODS})
    rep.cov['traces_validated_against_impl'] = len(chosen)
    rep.cov['trace_lines_validated'] = stats.get('lines', 0)
    rep.cov['evaluations'] = len(chosen)
    rep.cov['distinct_nontrivial'] = len({core.sha([b['cfg'], b['steps']]) for b in chosen
                                          if unauthorised(b['cfg']['policy'], b['steps'][0]['call'])
                                          or len(b['steps']) > 1})
    rep.cov['design_violated'] = stats['design_violated']
    rep.cov['rule'] = ('behaviour = start situation x loaded policy x call (x edit x reload x same call), simulated by TLC '
                       'from MC_Authz and sampled per stratum (method, request shape, authorised?, state class of the '
                       'target stream); non-trivial = the first call is unauthorised or the behaviour contains a policy '
                       'edit/reload; distinct by hash of (start situation, steps)')
    rep.cov['samples'] = chosen[:2]
    rep.assumptions += ['in-process calls set the context value "clientID" directly; the TLS sub-sample uses the repo test certificates (CN client1)',
                        'calls are executed one at a time (lock-step driver)',
                        'TLC evaluates the TLA+ predicates correctly']
