"""C19 - telemetry can be switched off and never carries user data.

spec/Telemetry.tla (+ MC_Telemetry, Trace_Telemetry); harness/server/c19, harness/telemetry/c19
"""
import os
import random

from vf import core

META = {
    'property_id': 'C19',
    'confirm_by_replay': True,   # bin/check re-executes the stimulus of every violation before it is reported
    'level': 'model_checking',
    'technique': 'configuration-route decision table and collector life cycle in TLA+ (Telemetry.tla), enumerated by '
                 'TLC; every route combination executed through the real NewConfig and a real one-node server (and the '
                 'collector alone) with the HTTP transport replaced by a recorder; recorded configuration value, '
                 'request count, payload key paths, header names and leak classes judged by TLC (trace validation)',
    'level_text': 'TLC enumerates config-file value x environment value x programmatic value x with/without a config '
                  'file x reporting interval (default / custom / zero / negative, by file or programmatically) x state of the '
                  'instance-id file (422 feasible routes) x every Start/UserData/Tick/Stop interleaving and proves on the '
                  'automaton: disabled by the documented precedence => zero requests, payload keys within the documented '
                  'whitelist, instance id of random-UUID shape, no leak.  All 54 configuration routes plus a stratified sample of '
                  'the interval and id-file dimensions are then executed on the real NewConfig (harness-written YAML and '
                  'LIFTBRIDGE_TELEMETRY_ENABLED) and a real one-node server holding a stream, a published message and NATS '
                  'credentials, with a 1 s interval; the collector alone runs TLC-simulated life cycles with a 40 ms '
                  'interval.  TLC judges every recorded step.',
    'level_note': 'This is the "transcribe a case analysis and turn every model case into an implementation test" use of '
                  'TLC: a small configuration / life-cycle automaton whose value is the complete route product and the '
                  'whitelist pinned in one place, not a deep behavioural model.  "No request" is observed over a window of '
                  '1.7 x the interval after every step; the recorder sees only clients that use http.DefaultTransport '
                  '(a collector with its own transport shows up as conformance drift, not as a verdict).',
    'design_ref': 'DESIGN.md section 6/C19',
}

TRI = ['unset', 'true', 'false']


def route_sig(r):
    return 'file=%s,env=%s,prog=%s,cfgfile=%s,interval=%s/%s,idfile=%s' % (
        r['file'], r['env'], r['prog'], 'yes' if r['hasFile'] else 'no', r.get('ival', 'custom'), r.get('ivalBy', 'prog'),
        r.get('idfile', 'ok')) + ',entry=' + r.get('entry', 'api') + ',progAt=' + r.get('progAt', 'before') + ',other=' + r.get('other', 'none')


def judge(rep, trace, behaviours, level, stats):
    res = core.tlc_trace('Trace_Telemetry.tla', 'Trace_Telemetry.cfg', trace, timeout=900)
    by_id = {b['id']: b for b in behaviours}
    firsts = {}
    for kind, tid, ln, action, name in res['fails']:
        if kind == 'C':
            raise core.Inconclusive('%s harness could not execute a step (behaviour %s, line %s, %s)' % (level, tid, ln, action))
        if kind == 'I':
            rep.drift({'level': level, 'behaviour': tid, 'line': ln, 'action': action, 'what': name,
                       'route': by_id[tid]['cfg']['route'] if tid in by_id else None})
            continue
        key = (tid, name)
        if key not in firsts or ln < firsts[key][0]:
            firsts[key] = (ln, action)
    for (tid, name), (ln, action) in sorted(firsts.items()):
        b = by_id.get(tid)
        r = b['cfg']['route'] if b else {'file': '-', 'env': '-', 'prog': '-', 'hasFile': False, 'ival': '-', 'ivalBy': '-', 'idfile': '-', 'entry': '-'}
        rep.classify('C19|%s|%s|%s|%s' % (name, level, action, route_sig(r)),
                     '%s fails at step %s (line %d) for route %s' % (name, action, ln, route_sig(r)),
                     {'level': level, 'behaviours': [b] if b else behaviours[:1]})
    stats['lines'] = stats.get('lines', 0) + (res['validated'] or 0)


def execute(d, level, behaviours, par, guarded=False):
    if guarded:
        return execute_guarded(d, level, behaviours)
    stim = os.path.join(d, level + '-stim.json')
    trace = os.path.join(d, level + '.ndjson')
    core.write_json(stim, {'behaviours': behaviours})
    if level == 'cli':
        rc, out, wall = core.go_test('.', '^TestVerifC19CLI$', {'VERIF_STIMULI': stim, 'VERIF_TRACE_OUT': trace},
                                     timeout=900, subs=['c19'])
    elif level == 'server':
        rc, out, wall = core.go_test('server', '^TestVerifC19Server$',
                                     {'VERIF_STIMULI': stim, 'VERIF_TRACE_OUT': trace, 'VERIF_PAR': str(par)},
                                     timeout=1500, subs=['c19'])
    else:
        rc, out, wall = core.go_test('server/telemetry', '^TestVerifC19Collector$',
                                     {'VERIF_STIMULI': stim, 'VERIF_TRACE_OUT': trace}, timeout=900, subs=['c19'])
    if rc != 0 or not os.path.exists(trace):
        raise core.Inconclusive('%s harness failed rc=%s: %s' % (level, rc, out[-3000:]))
    return trace


def execute_guarded(d, level, behaviours):
    """One server / collector at a time with an intent file.  A collector that is (wrongly) started with a
    non-positive interval panics in its own goroutine (time.NewTicker) and kills the test process: the runner
    records that as what it is - a collector was running in the pending step - and carries on with the remaining
    behaviours in a fresh process; TLC judges the recorded line (C19_NoCollector)."""
    import json
    import re
    out_lines, unattributed, deaths = [], 0, 0
    remaining = list(behaviours)
    intent = os.path.join(d, level + '-intent.json')
    while remaining:
        stim = os.path.join(d, level + '-g-stim.json')
        part = os.path.join(d, level + '-g-part.ndjson')
        for f in (part, intent):
            if os.path.exists(f):
                os.remove(f)
        core.write_json(stim, {'behaviours': remaining})
        env = {'VERIF_STIMULI': stim, 'VERIF_TRACE_OUT': part, 'VERIF_INTENT': intent}
        if level == 'server':
            rc, out, wall = core.go_test('server', '^TestVerifC19Server$', env, timeout=1500, subs=['c19'])
        else:
            rc, out, wall = core.go_test('server/telemetry', '^TestVerifC19Collector$', env, timeout=900, subs=['c19'])
        got = core.read_ndjson(part) if os.path.exists(part) else []
        unattributed += sum(e.get('unattributed', 0) for e in got if e['a'] == 'Global')
        got = [e for e in got if e['a'] != 'Global']
        out_lines += got
        if rc == 0:
            break
        died = re.search(r'^panic: .*$', out, re.M)
        if (not died or 'telemetry.(*Collector)' not in out or 'INCONCLUSIVE' in out or 'test timed out' in out
                or not os.path.exists(intent)):
            raise core.Inconclusive('%s harness failed rc=%s: %s' % (level, rc, out[-3000:]))
        deaths += 1
        it = json.load(open(intent))
        mine = [e for e in got if e.get('t') == it['t']]
        if len(mine) != it['step'] + 1:
            raise core.Inconclusive('%s process died outside a pending step: %s' % (level, out[-2000:]))
        out_lines.append({'a': it['a'], 't': it['t'], 'route': it['route'], 'st': dict(it['st'], collector=True),
                          'obs': {'a': it['a'], 'err': ''}, 'died': died.group(0)[:200]})
        idx = [k for k, b in enumerate(remaining) if b['id'] == it['t']][0]
        remaining = remaining[idx + 1:]
        if deaths >= 6:
            break
    trace = os.path.join(d, level + '-g.ndjson')
    with open(trace, 'w') as fh:
        for e in out_lines:
            fh.write(json.dumps(e) + '\n')
        fh.write(json.dumps({'a': 'Global', 't': 0, 'unattributed': unattributed, 'total': 0}) + '\n')
    return trace


def lifecycles_from(sims):
    """distinct life cycles (step lists) of the TLC behaviours; in the specification the enabledness of the
    life-cycle actions does not depend on the route, so a life cycle can be paired with any route"""
    out = {}
    for b in sims:
        steps = [{'a': st['last']['a']} for st in b[1:]]
        if not steps or steps[0]['a'] != 'LoadConfig':
            continue
        out[core.sha(steps)] = steps
    return list(out.values())


TRUE_SP = ['true', 'TRUE', '1', 't']                                            # Telemetry!TrueSp
FALSE_SP = ['false', 'FALSE', 'False', '0', 'f', 'off', 'no', 'Off', 'NO']       # Telemetry!FalseSp


def doc_enabled(r):
    if r['prog'] != 'unset':
        return r['prog'] == 'true'
    if r['env'] != 'unset':
        return r['env'] in TRUE_SP
    if r['hasFile'] and r['file'] != 'unset':
        return r['file'] in TRUE_SP
    return True


OTHERS = ['none', 'activityOn', 'activityOff', 'full']          # Telemetry!Others


def norm(r):
    r.setdefault('entry', 'api')
    r.setdefault('progAt', 'before')
    r.setdefault('other', 'none')
    return r


def feasible(r):
    """Feasible(r) of Telemetry.tla"""
    if r.get('progAt', 'before') == 'between' and (r['prog'] == 'unset' or r.get('entry', 'api') != 'api'):
        return False
    if r.get('other', 'none') != 'none' and not r['hasFile']:
        return False
    if r['ival'] in ('zero', 'negative') and doc_enabled(r):
        return False
    if r['ivalBy'] == 'file' and (not r['hasFile'] or r['ival'] == 'default'):
        return False
    if r['ival'] == 'default' and r['ivalBy'] != 'prog':
        return False
    if r.get('entry', 'api') == 'cli' and not (r['prog'] == 'unset' and r['idfile'] == 'ok' and
                                               (r['ival'] == 'default' or r['ivalBy'] == 'file')):
        return False
    return True


def adapt(steps, route):
    """an interval can only be waited for when it is short: Tick steps are kept for the custom interval only"""
    out = [s for s in steps if s['a'] != 'Tick' or route['ival'] == 'custom']
    if route.get('level') != 'collector':
        out = [s for s in out if s['a'] != 'Age']      # the collector's clock can only be moved in package telemetry
    if route.get('entry') == 'cli':
        out = [s for s in out if s['a'] in ('LoadConfig', 'Start', 'Tick')]
        if 'Stop' in [s['a'] for s in steps]:
            out = out[:[s['a'] for s in out].index('Start') + 1] if 'Start' in [s['a'] for s in out] else out
    return out


def run(rep, tier, seed, replay):
    stats = {}
    par = min(8, max(2, core.NCPU // 2))
    if replay:
        r = replay['replay']
        with core.scratch('c19') as d:
            judge(rep, execute(d, r['level'], r['behaviours'], par, guarded=(r['level'] != 'cli')), r['behaviours'],
                  r['level'], stats)
        rep.cov['rule'] = 'replay of a saved behaviour'
        rep.cov['samples'] = r['behaviours'][:1]
        return
    rng = random.Random(seed)
    res = core.tlc_check('MC_Telemetry.tla', 'MC_Telemetry.cfg' if tier == 'quick' else 'MC_Telemetry_thorough.cfg',
                         timeout=600, coverage=(tier == 'thorough'))
    rep.add_design('MC_Telemetry', res)
    if res['violated']:
        raise core.Inconclusive('the automaton itself violates %s - see design_notes/C19.md' % res['violated'])
    # life cycles from the specification (seeded simulation), grouped by route
    sims = core.tlc_simulate('MC_Telemetry.tla', 'Sim_Telemetry.cfg', 600 if tier == 'quick' else 3000, 9, seed)
    cycles = lifecycles_from(sims)
    full = [c for c in cycles if [x['a'] for x in c].count('Start') == 1]
    full.sort(key=lambda c: (-('UserData' in [x['a'] for x in c]), -('Stop' in [x['a'] for x in c]), -len(c), core.sha(c)))
    if len(full) < 4:
        raise core.Inconclusive('simulation produced only %d life cycles with a Start' % len(full))

    def cycle():
        head = full[:6]
        return rng.choice(head) if rng.random() < 0.75 else rng.choice(full)

    def sp(v):
        return v if v == 'unset' else rng.choice(TRUE_SP if v == 'true' else FALSE_SP)

    # the 54 configuration routes; the file / environment values are spelled in one of the accepted ways
    base = [{'file': sp(f), 'env': sp(e), 'prog': p, 'hasFile': h, 'entry': 'api',
             'progAt': rng.choice(['before', 'between']) if p != 'unset' else 'before',
             'other': rng.choice(OTHERS) if h else 'none'}
            for f in TRI for e in TRI for p in TRI for h in (True, False)]
    server_routes = []
    # (1) every configuration route with a short interval (set through the file or programmatically), usable id file
    for r in base:
        by = rng.choice(['file', 'prog']) if r['hasFile'] else 'prog'
        server_routes.append(dict(r, ival='custom', ivalBy=by, idfile='ok'))
    # (2) the interval dimension: zero / negative (only where telemetry must be silent) and default, by file and by prog
    silent = [r for r in base if not doc_enabled(r)]
    kinds = {'prog': [r for r in silent if r['prog'] == 'false'],
             'env': [r for r in silent if r['prog'] == 'unset' and r['env'] in FALSE_SP],
             'file': [r for r in silent if r['prog'] == 'unset' and r['env'] == 'unset']}
    n_iv = 1 if tier == 'quick' else 4
    for ival in ('zero', 'negative'):
        for by in ('file', 'prog'):
            kl = sorted(kinds.items())
            if tier == 'quick':      # two of the three disabling kinds per (interval, by); all three over the four pairs
                k0 = (('zero', 'negative').index(ival) * 2 + ('file', 'prog').index(by)) % 3
                kl = [kl[k0], kl[(k0 + 1) % 3]]
            for kind, lst in kl:
                cands = [dict(r, ival=ival, ivalBy=by, idfile='ok') for r in lst]
                cands = [r for r in cands if feasible(r)]
                rng.shuffle(cands)
                server_routes += cands[:n_iv]
    dflt = [dict(r, ival='default', ivalBy='prog', idfile='ok') for r in base]
    rng.shuffle(dflt)
    server_routes += [r for r in dflt if doc_enabled(r)][:2 * n_iv] + [r for r in dflt if not doc_enabled(r)][:2 * n_iv]
    # (3) the instance-id file cannot be read or written (these servers run alone, one after the other)
    bad = [dict(r, ival='custom', ivalBy='prog', idfile='unusable') for r in base]
    rng.shuffle(bad)
    server_routes += [r for r in bad if doc_enabled(r)][:3 * n_iv] + [r for r in bad if not doc_enabled(r)][:n_iv]
    per_route = 1 if tier == 'quick' else 2
    server_b, coll_b, cli_b = [], [], []
    short = [{'a': 'LoadConfig'}, {'a': 'Start'}, {'a': 'Stop'}]
    # (4) every spelling of "off" on the file route and on the environment route (and every spelling of "on" once)
    for k, v in enumerate(FALSE_SP):
        for r in ({'file': v, 'env': 'unset', 'prog': 'unset', 'hasFile': True},
                  {'file': rng.choice(TRUE_SP) if k % 2 else 'unset', 'env': v, 'prog': 'unset', 'hasFile': k % 2 == 1}):
            r = dict(r, ival='custom', ivalBy='prog', idfile='ok', entry='api')
            server_b.append({'id': len(server_b) + 1, 'cfg': {'route': r}, 'steps': list(short)})
    for v in TRUE_SP:
        r = {'file': rng.choice(FALSE_SP), 'env': v, 'prog': 'unset', 'hasFile': True, 'ival': 'custom', 'ivalBy': 'prog',
             'idfile': 'ok', 'entry': 'api'}
        server_b.append({'id': len(server_b) + 1, 'cfg': {'route': r}, 'steps': list(short)})
    # (6) the programmatic switch assigned between server.New(cfg) and Start(), against every other route saying "on"
    for r in ({'file': 'unset', 'env': 'unset', 'hasFile': False, 'ival': 'custom'},
              {'file': rng.choice(TRUE_SP), 'env': rng.choice(TRUE_SP), 'hasFile': True, 'ival': 'custom'},
              {'file': 'unset', 'env': 'unset', 'hasFile': False, 'ival': 'zero'}):
        r = norm(dict(r, prog='false', ivalBy='prog', idfile='ok', progAt='between'))
        server_b.append({'id': len(server_b) + 1, 'cfg': {'route': r}, 'steps': list(short)})
    # (7) other settings next to telemetry.* in the same file (activity stream on, a fuller configuration)
    for r in ({'file': rng.choice(FALSE_SP), 'env': 'unset', 'other': 'activityOn'},
              {'file': rng.choice(FALSE_SP), 'env': 'unset', 'other': 'full'},
              {'file': 'unset', 'env': rng.choice(FALSE_SP), 'other': 'activityOn'},
              {'file': rng.choice(TRUE_SP), 'env': rng.choice(FALSE_SP), 'other': 'full'}):
        r = norm(dict(r, prog='unset', hasFile=True, ival='custom', ivalBy='file', idfile='ok'))
        server_b.append({'id': len(server_b) + 1, 'cfg': {'route': r}, 'steps': list(short)})
    # (5) the command line entry point (main.start through the cli.App), with and without --config
    cli_routes = [{'file': 'unset', 'env': rng.choice(FALSE_SP), 'hasFile': False},
                  {'file': 'unset', 'env': rng.choice(FALSE_SP), 'hasFile': True},
                  {'file': rng.choice(TRUE_SP), 'env': rng.choice(FALSE_SP), 'hasFile': True},
                  {'file': rng.choice(FALSE_SP), 'env': 'unset', 'hasFile': True},
                  {'file': 'unset', 'env': 'unset', 'hasFile': False},
                  {'file': rng.choice(FALSE_SP), 'env': rng.choice(TRUE_SP), 'hasFile': True},
                  {'file': rng.choice(FALSE_SP), 'env': 'unset', 'hasFile': True, 'other': 'activityOn'}]
    if tier != 'quick':
        cli_routes += [{'file': sp(f), 'env': sp(e), 'hasFile': h} for f in TRI for e in TRI for h in (True, False)]
    for r in cli_routes:
        r = norm(dict(r, prog='unset', ival='default', ivalBy='prog', idfile='ok', entry='cli'))
        if not feasible(r):
            raise core.Inconclusive('infeasible route generated: %s' % r)
        cli_b.append({'id': len(cli_b) + 1, 'cfg': {'route': r}, 'steps': [{'a': 'LoadConfig'}, {'a': 'Start'}]})
    for r in server_routes:
        if not feasible(r):
            raise core.Inconclusive('infeasible route generated: %s' % r)
        for _ in range(per_route):
            # zero / negative intervals run one at a time (guarded): a short life cycle keeps the quick tier in budget
            steps = list(short) if r['ival'] in ('zero', 'negative') and tier == 'quick' else adapt(cycle(), r)
            server_b.append({'id': len(server_b) + 1, 'cfg': {'route': r}, 'steps': steps})
    # collector alone: programmatic switch x interval x id file, every life cycle without user data
    def aged_tick(c):      # a report is made after the collector has aged
        names = [x['a'] for x in c]
        return 'Age' in names and 'Tick' in names[names.index('Age'):]
    ccycles = [c for c in full if 'UserData' not in [x['a'] for x in c]]
    ccycles.sort(key=lambda c: (not aged_tick(c), -len(c), core.sha(c)))
    if not any(aged_tick(c) for c in ccycles[:2]):
        raise core.Inconclusive('simulation produced no life cycle with a report after ageing')
    for prog in TRI:
        for ival in ('custom', 'default', 'zero', 'negative'):
            for idfile in ('ok', 'unusable'):
                r = {'file': 'unset', 'env': 'unset', 'prog': prog, 'hasFile': False, 'ival': ival, 'ivalBy': 'prog',
                     'idfile': idfile, 'entry': 'api', 'level': 'collector'}
                if not feasible(r):
                    continue
                for c in ccycles[:3 if tier == 'quick' else 12]:
                    coll_b.append({'id': len(coll_b) + 1, 'cfg': {'route': r}, 'steps': adapt(c, r)})
    for b in server_b + coll_b + cli_b:
        norm(b['cfg']['route'])
        if not feasible(b['cfg']['route']):
            raise core.Inconclusive('infeasible route generated: %s' % b['cfg']['route'])
    with core.scratch('c19') as d:
        judge(rep, execute(d, 'collector', coll_b, par, guarded=True), coll_b, 'collector', stats)
        risky = [b for b in server_b if b['cfg']['route']['ival'] in ('zero', 'negative')]
        normal = [b for b in server_b if b['cfg']['route']['ival'] not in ('zero', 'negative')]
        judge(rep, execute(d, 'server', normal, par), normal, 'server', stats)
        judge(rep, execute(d, 'server', risky, par, guarded=True), risky, 'server', stats)
        judge(rep, execute(d, 'cli', cli_b, par), cli_b, 'cli', stats)
    allb = server_b + coll_b + cli_b
    rep.cov['cli_behaviours'] = len(cli_b)
    rep.cov['traces_validated_against_impl'] = len(allb)
    rep.cov['trace_lines_validated'] = stats.get('lines', 0)
    rep.cov['evaluations'] = len(allb)
    rep.cov['routes_executed_on_server'] = len({core.sha(b['cfg']['route']) for b in server_b})
    rep.cov['config_routes_executed_on_server'] = len({core.sha([b['cfg']['route'][k] for k in ('file', 'env', 'prog', 'hasFile')]) for b in server_b})
    rep.cov['server_behaviours'] = len(server_b)
    rep.cov['collector_behaviours'] = len(coll_b)
    rep.cov['distinct_nontrivial'] = len({core.sha([b['cfg']['route'], b['steps']]) for b in allb
                                          if 'Start' in [s['a'] for s in b['steps']]})
    rep.cov['rule'] = ('one behaviour = a route (file x env x prog x config file present x interval x id-file state) with a TLC-simulated '
                       'life cycle; all 54 routes are executed on a real server; non-trivial = the server / collector is '
                       'actually started; distinct by hash of (route, step list)')
    rep.cov['exhaustive'] = False   # all 54 configuration routes are executed; the interval / id-file dimensions are sampled
    rep.cov['samples'] = server_b[:2] + coll_b[:1]
    rep.assumptions += ['the collector sends through http.DefaultTransport (recorder); a private transport would be seen as drift',
                        'silence is observed over a window of 1.7 s (interval 1 s) after each step',
                        'documented precedence: default on < config file < LIFTBRIDGE_TELEMETRY_ENABLED < programmatic assignment']
