"""C19 - telemetry can be switched off and never carries user data.

spec/Telemetry.tla (+ MC_Telemetry, Trace_Telemetry); harness/server/c19, harness/telemetry/c19
"""
import os
import random

from vf import core

META = {
    'property_id': 'C19',
    'level': 'model_checking',
    'technique': 'configuration-route decision table and collector life cycle in TLA+ (Telemetry.tla), enumerated by '
                 'TLC; every route combination executed through the real NewConfig and a real one-node server (and the '
                 'collector alone) with the HTTP transport replaced by a recorder; recorded configuration value, '
                 'request count, payload key paths, header names and leak classes judged by TLC (trace validation)',
    'level_text': 'TLC enumerates config-file value x environment value x programmatic value x with/without a config '
                  'file (54 routes) x every Start/UserData/Tick/Stop interleaving with bounded ticks and proves on the '
                  'automaton: disabled by the documented precedence => zero requests, payload keys within the documented '
                  'whitelist, no leak.  All 54 routes are then executed on the real NewConfig (harness-written YAML and '
                  'LIFTBRIDGE_TELEMETRY_ENABLED) and a real one-node server holding a stream, a published message and NATS '
                  'credentials, with a 1 s interval; the collector alone runs TLC-simulated life cycles with a 40 ms '
                  'interval.  TLC judges every recorded step.',
    'level_note': 'This is the "transcribe a case analysis and turn every model case into an implementation test" use of '
                  'TLC: a small configuration / life-cycle automaton whose value is the complete route product and the '
                  'whitelist pinned in one place, not a deep behavioural model.  "No request" is observed over a window of '
                  '1.7 x the interval after every step; the recorder sees only clients that use http.DefaultTransport '
                  '(a collector with its own transport shows up as conformance drift, not as a verdict).',
    'design_ref': 'DESIGN.md section 6/C19',
}

TRI = ['unset', 'true', 'false']


def route_sig(r):
    return 'file=%s,env=%s,prog=%s,cfgfile=%s' % (r['file'], r['env'], r['prog'], 'yes' if r['hasFile'] else 'no')


def judge(rep, trace, behaviours, level, stats):
    res = core.tlc_trace('Trace_Telemetry.tla', 'Trace_Telemetry.cfg', trace, timeout=900)
    by_id = {b['id']: b for b in behaviours}
    firsts = {}
    for kind, tid, ln, action, name in res['fails']:
        if kind == 'C':
            raise core.Inconclusive('%s harness could not execute a step (behaviour %s, line %s, %s)' % (level, tid, ln, action))
        if kind == 'I':
            rep.drift({'level': level, 'behaviour': tid, 'line': ln, 'action': action, 'what': name,
                       'route': by_id[tid]['cfg']['route'] if tid in by_id else None})
            continue
        key = (tid, name)
        if key not in firsts or ln < firsts[key][0]:
            firsts[key] = (ln, action)
    for (tid, name), (ln, action) in sorted(firsts.items()):
        b = by_id.get(tid)
        r = b['cfg']['route'] if b else {'file': '-', 'env': '-', 'prog': '-', 'hasFile': False}
        rep.classify('C19|%s|%s|%s|%s' % (name, level, action, route_sig(r)),
                     '%s fails at step %s (line %d) for route %s' % (name, action, ln, route_sig(r)),
                     {'level': level, 'behaviours': [b] if b else behaviours[:1]})
    stats['lines'] = stats.get('lines', 0) + (res['validated'] or 0)


def execute(d, level, behaviours, par):
    stim = os.path.join(d, level + '-stim.json')
    trace = os.path.join(d, level + '.ndjson')
    core.write_json(stim, {'behaviours': behaviours})
    if level == 'server':
        rc, out, wall = core.go_test('server', '^TestVerifC19Server$',
                                     {'VERIF_STIMULI': stim, 'VERIF_TRACE_OUT': trace, 'VERIF_PAR': str(par)},
                                     timeout=1500, subs=['c19'])
    else:
        rc, out, wall = core.go_test('server/telemetry', '^TestVerifC19Collector$',
                                     {'VERIF_STIMULI': stim, 'VERIF_TRACE_OUT': trace}, timeout=900, subs=['c19'])
    if rc != 0 or not os.path.exists(trace):
        raise core.Inconclusive('%s harness failed rc=%s: %s' % (level, rc, out[-3000:]))
    return trace


def lifecycles_from(sims):
    """TLC behaviours -> {route key: [step lists]}"""
    out = {}
    for b in sims:
        route = core.tlaval.state_var(b[0]['body'], 'route')
        steps = [{'a': st['last']['a']} for st in b[1:]]
        if not steps or steps[0]['a'] != 'LoadConfig':
            continue
        out.setdefault(core.sha(route), (route, []))[1].append(steps)
    return out


def run(rep, tier, seed, replay):
    stats = {}
    par = min(8, max(2, core.NCPU // 2))
    if replay:
        r = replay['replay']
        with core.scratch('c19') as d:
            judge(rep, execute(d, r['level'], r['behaviours'], par), r['behaviours'], r['level'], stats)
        rep.cov['rule'] = 'replay of a saved behaviour'
        rep.cov['samples'] = r['behaviours'][:1]
        return
    rng = random.Random(seed)
    res = core.tlc_check('MC_Telemetry.tla', 'MC_Telemetry.cfg' if tier == 'quick' else 'MC_Telemetry_thorough.cfg',
                         timeout=600, coverage=(tier == 'thorough'))
    rep.add_design('MC_Telemetry', res)
    if res['violated']:
        raise core.Inconclusive('the automaton itself violates %s - see design_notes/C19.md' % res['violated'])
    # life cycles from the specification (seeded simulation), grouped by route
    sims = core.tlc_simulate('MC_Telemetry.tla', 'Sim_Telemetry.cfg', 1200 if tier == 'quick' else 4000, 9, seed)
    by_route = lifecycles_from(sims)
    routes = [{'file': f, 'env': e, 'prog': p, 'hasFile': h} for f in TRI for e in TRI for p in TRI for h in (True, False)]
    missing = [r for r in routes if core.sha(r) not in by_route]
    if missing:
        raise core.Inconclusive('simulation did not produce a life cycle for %d routes' % len(missing))
    per_route = 1 if tier == 'quick' else 3
    server_b, coll_b = [], []
    for r in routes:
        cands = by_route[core.sha(r)][1]
        # server level: life cycles that start the server; prefer the ones that also create user data and stop
        full = [s for s in cands if [x['a'] for x in s].count('Start') == 1]
        full.sort(key=lambda s: (-('UserData' in [x['a'] for x in s]), -('Stop' in [x['a'] for x in s]), -len(s)))
        seen = set()
        pick = []
        for s in full:
            k = core.sha(s)
            if k not in seen:
                seen.add(k)
                pick.append(s)
        head, tail = pick[:4], pick[4:]
        rng.shuffle(head)
        rng.shuffle(tail)
        for s in (head + tail)[:per_route]:
            server_b.append({'id': len(server_b) + 1, 'cfg': {'route': r}, 'steps': s})
        # collector level: programmatic route only
        if r['file'] == 'unset' and r['env'] == 'unset' and not r['hasFile']:
            cs = [s for s in pick if 'UserData' not in [x['a'] for x in s]]
            for s in cs[:12 if tier == 'quick' else 60]:
                coll_b.append({'id': len(coll_b) + 1, 'cfg': {'route': r}, 'steps': s})
    with core.scratch('c19') as d:
        judge(rep, execute(d, 'collector', coll_b, par), coll_b, 'collector', stats)
        judge(rep, execute(d, 'server', server_b, par), server_b, 'server', stats)
    allb = server_b + coll_b
    rep.cov['traces_validated_against_impl'] = len(allb)
    rep.cov['trace_lines_validated'] = stats.get('lines', 0)
    rep.cov['evaluations'] = len(allb)
    rep.cov['routes_executed_on_server'] = len({core.sha(b['cfg']['route']) for b in server_b})
    rep.cov['server_behaviours'] = len(server_b)
    rep.cov['collector_behaviours'] = len(coll_b)
    rep.cov['distinct_nontrivial'] = len({core.sha([b['cfg']['route'], b['steps']]) for b in allb
                                          if 'Start' in [s['a'] for s in b['steps']]})
    rep.cov['rule'] = ('one behaviour = a configuration route (file x env x prog x config file present) with a TLC-simulated '
                       'life cycle; all 54 routes are executed on a real server; non-trivial = the server / collector is '
                       'actually started; distinct by hash of (route, step list)')
    rep.cov['exhaustive'] = rep.cov['routes_executed_on_server'] == 54
    rep.cov['samples'] = server_b[:2] + coll_b[:1]
    rep.assumptions += ['the collector sends through http.DefaultTransport (recorder); a private transport would be seen as drift',
                        'silence is observed over a window of 1.7 s (interval 1 s) after each step',
                        'documented precedence: default on < config file < LIFTBRIDGE_TELEMETRY_ENABLED < programmatic assignment']
