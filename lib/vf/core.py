"""Core plumbing of the verification framework: scratch directories, TLC runs
(design check, simulation, trace validation), go test runs with the harness
overlay, evidence files, known findings and verdict reporting."""
import contextlib
import hashlib
import json
import os
import re
import shutil
import subprocess
import sys
import time

from . import tlaval

VERIF = os.path.dirname(os.path.dirname(os.path.dirname(os.path.abspath(__file__))))
REPO = os.environ.get('VERIF_REPO', '/repo')
SPEC = os.path.join(VERIF, 'spec')
BUILD = os.path.join(VERIF, 'build')
HARNESS = os.path.join(VERIF, 'harness')
def _ncpu():
    """Parallelism of TLC and of the drivers: VERIF_WORKERS if set, else the number of cores, reduced when the
    machine is already overloaded (several checks running at once) - more workers than idle cores only adds
    scheduling noise to the timed parts of the drivers."""
    n = os.cpu_count() or 4
    if os.environ.get('VERIF_WORKERS'):
        return max(1, int(os.environ['VERIF_WORKERS']))
    try:
        load = os.getloadavg()[0]
    except OSError:
        load = 0.0
    if load > 2 * n:
        return max(4, n // 4)
    if load > n:
        return max(4, n // 2)
    return n


NCPU = _ncpu()


class Inconclusive(Exception):
    """infrastructure failure: exit 2, never a violation"""


def log(*a):
    print(*a, file=sys.stderr, flush=True)


_scratch_n = 0


@contextlib.contextmanager
def scratch(tag='run'):
    global _scratch_n
    _scratch_n += 1
    d = os.path.join(BUILD, '%s-%d-%d' % (tag, os.getpid(), _scratch_n))
    os.makedirs(d, exist_ok=True)
    try:
        yield d
    finally:
        if not os.environ.get('VERIF_KEEP'):
            shutil.rmtree(d, ignore_errors=True)


# --------------------------------------------------------------------------- TLC

def _tlc_env(d, heap='4g'):
    """environment of a TLC run; the JVM heap is capped (several checks may run at the same time;
    the JVM default of 25 % of the RAM per process would add up)"""
    env = dict(os.environ)
    tmp = os.path.join(d, 'jtmp')
    os.makedirs(tmp, exist_ok=True)
    opts = env.get('VERIF_JAVA_OPTS', '')
    if '-Xmx' not in opts:
        opts += ' -Xmx' + heap
    env['JAVA_TOOL_OPTIONS'] = (opts + ' -Djava.io.tmpdir=' + tmp + ' -Xss64m').strip()
    return env


def _stage_specs(d, extra=None):
    for f in os.listdir(SPEC):
        if f.endswith('.tla') or f.endswith('.cfg'):
            shutil.copy(os.path.join(SPEC, f), d)
    for src, name in (extra or {}).items():
        shutil.copy(src, os.path.join(d, name))


def _run(cmd, cwd, env, timeout):
    t0 = time.time()
    try:
        p = subprocess.run(cmd, cwd=cwd, env=env, stdout=subprocess.PIPE, stderr=subprocess.STDOUT,
                           timeout=timeout, text=True, errors='replace')
    except subprocess.TimeoutExpired as e:
        out = e.stdout or ''
        if isinstance(out, bytes):
            out = out.decode('utf-8', 'replace')
        return None, out, time.time() - t0
    return p.returncode, p.stdout, time.time() - t0


def _run_tlc(cmd, cwd, env, timeout):
    """_run with a retry when the JVM/TLC did not even start (transient under load)"""
    for attempt in range(3):
        rc, out, wall = _run(cmd, cwd, env, timeout)
        started = ('Starting...' in out) or ('Computing initial states' in out) or ('Error:' in out and 'Parsing' in out)
        if rc is None or started or 'semantic analysis failed' in out:
            return rc, out, wall
        log('TLC did not start (attempt %d, rc=%s): %s' % (attempt + 1, rc, out[-300:].replace('\n', ' | ')))
        time.sleep(3 + 5 * attempt)
        shutil.rmtree(os.path.join(cwd, 'meta'), ignore_errors=True)
    return rc, out, wall


_stat_re = re.compile(r'(\d+) states generated, (\d+) distinct states found, (\d+) states left on queue')
_depth_re = re.compile(r'The depth of the complete state graph search is (\d+)')


def tlc_check(module, cfg, workers=None, timeout=600, coverage=False, extra=None, heap=None):
    """Exhaustive design check.  Returns dict(ok, complete, generated, distinct, depth,
    violated, out, wall, zero_cov)."""
    with scratch('tlc') as d:
        _stage_specs(d, extra)
        cmd = ['tlc', '-workers', str(workers or NCPU), '-metadir', os.path.join(d, 'meta'),
               '-config', cfg, '-noGenerateSpecTE']
        if coverage:
            cmd += ['-coverage', '1']
        cmd += [module]
        env = _tlc_env(d, heap or '10g')
        rc, out, wall = _run_tlc(cmd, d, env, timeout)
        res = {'rc': rc, 'out': out, 'wall': wall, 'generated': 0, 'distinct': 0, 'depth': 0,
               'violated': [], 'complete': False, 'ok': False, 'zero_cov': []}
        for m in _stat_re.finditer(out):
            res['generated'], res['distinct'] = int(m.group(1)), int(m.group(2))
            res['complete'] = int(m.group(3)) == 0
        m = _depth_re.search(out)
        if m:
            res['depth'] = int(m.group(1))
        for m in re.finditer(r'Invariant (\S+) is violated', out):
            res['violated'].append(m.group(1))
        for m in re.finditer(r'Action property (\S+) is violated', out):
            res['violated'].append(m.group(1))
        if 'Temporal properties were violated' in out:
            res['violated'].append('temporal')
        if coverage:
            # actions never taken: "<Name line ...>: 0:0"
            for m in re.finditer(r'^<(\w+) line [^>]*>: 0:0\s*$', out, re.M):
                res['zero_cov'].append(m.group(1))
        res['ok'] = rc == 0 and 'No error has been found' in out and res['complete']
        if rc is None:
            res['timeout'] = True
        return res


def tlc_simulate(module, cfg, num, depth, seed, var='last', timeout=600, extra=None):
    """Random behaviours of the specification.  Returns a list of behaviours, each a list
    of dict(label=<action label with args>, last=<value of var>) for every step after Init
    (the init state's value is element 0 with label 'Init')."""
    with scratch('sim') as d:
        _stage_specs(d, extra)
        sd = os.path.join(d, 'sim')
        os.makedirs(sd)
        cmd = ['tlc', '-workers', '1', '-simulate', 'file=%s/b,num=%d' % (sd, num), '-depth', str(depth),
               '-seed', str(seed), '-metadir', os.path.join(d, 'meta'), '-config', cfg,
               '-noGenerateSpecTE', module]
        rc, out, wall = _run_tlc(cmd, d, _tlc_env(d), timeout)
        if rc != 0:
            raise Inconclusive('TLC simulation failed rc=%s\n%s' % (rc, out[-3000:]))
        behaviours = []
        for f in sorted(os.listdir(sd), key=lambda x: [int(t) for t in re.findall(r'\d+', x)]):
            text = open(os.path.join(sd, f)).read()
            steps = []
            for m in re.finditer(r'^\\\* <(.*?) line \d+, col.*?>\nSTATE_\d+ ==\s*\n(.*?)(?=^\\\* <|\Z|^=====)', text, re.S | re.M):
                label, body = m.group(1), m.group(2)
                steps.append({'label': label, 'last': tlaval.state_var(body, var) if var else None,
                              'body': body})
            behaviours.append(steps)
        return behaviours


def tlc_counterexample(module, cfg, var='last', workers=None, timeout=900, extra=None):
    """Runs TLC expecting an invariant violation; returns (violated_names, behaviour) where the
    behaviour has the same shape as tlc_simulate's (list of dict(label, last, body)), or
    ([], None) when TLC finishes without a violation."""
    with scratch('cex') as d:
        _stage_specs(d, extra)
        cmd = ['tlc', '-workers', str(workers or NCPU), '-metadir', os.path.join(d, 'meta'), '-config', cfg,
               '-noGenerateSpecTE', module]
        rc, out, wall = _run_tlc(cmd, d, _tlc_env(d), timeout)
        if rc is None:
            raise Inconclusive('TLC timed out on %s' % cfg)
        names = re.findall(r'Invariant (\S+) is violated', out)
        if not names:
            if 'No error has been found' in out:
                return [], None
            raise Inconclusive('TLC failed on %s: %s' % (cfg, out[-2000:]))
        steps = []
        for m in re.finditer(r'^State \d+: <(.*?)>\n(.*?)(?=^State \d+:|\Z|^\d+ states generated)', out, re.S | re.M):
            label = re.sub(r' line \d+, col.*$', '', m.group(1))
            steps.append({'label': label, 'last': tlaval.state_var(m.group(2), var) if var else None, 'body': m.group(2)})
        return names, steps


def tlc_trace(module, cfg, ndjson, timeout=900, extra=None, deque=False):
    """Validate recorded traces.  Returns dict(fails=[(kind, tid, line, action, name)],
    lines=<number of trace lines>, validated=<lines TLC consumed>, out)."""
    with scratch('trace') as d:
        _stage_specs(d, extra)
        shutil.copy(ndjson, os.path.join(d, 'trace.ndjson'))
        with open(os.path.join(d, 'trace.ndjson'), 'a') as fh:
            fh.write('{"a":"End"}\n')
        env = _tlc_env(d)
        if deque:
            env['JAVA_TOOL_OPTIONS'] += ' -Dtlc2.tool.queue.IStateQueue=StateDeque'
        cmd = ['tlc', '-workers', '1', '-metadir', os.path.join(d, 'meta'), '-config', cfg,
               '-noGenerateSpecTE', module]
        rc, out, wall = _run_tlc(cmd, d, env, timeout)
        fails = []
        # TLC's pretty printer breaks a tuple longer than ~80 characters over several lines
        # (`<< "FAIL",\n   "P",\n ... >>`): both layouts count - a wrapped FAIL line must never be lost
        for m in re.finditer(r'^<<\s*"FAIL",\s(.*?)\s*>>\s*$', out, re.M | re.S):
            vals = tlaval.parse('<<' + re.sub(r'\s+', ' ', m.group(1)) + '>>')
            fails.append(tuple(vals))
        done = re.search(r'^<<"DONE", (\d+), (\d+)>>', out, re.M)
        res = {'fails': sorted(set(fails), key=lambda x: [str(y) for y in x]), 'out': out, 'rc': rc, 'wall': wall,
               'lines': None, 'validated': None}
        if done:
            res['validated'], res['lines'] = int(done.group(1)), int(done.group(2))
        if rc != 0 or not done or res['validated'] + 1 != res['lines']:  # the End line is not consumed
            raise Inconclusive('trace validation did not complete (rc=%s): %s' % (rc, out[-3000:]))
        return res


# --------------------------------------------------------------------------- go

def go_env():
    env = dict(os.environ)
    env.pop('GOTOOLCHAIN', None)
    env.pop('GOSUMDB', None)
    env['GOFLAGS'] = '-mod=mod'
    env['GOPROXY'] = 'off'
    return env


HARNESS_PKGS = {
    'server/commitlog': 'commitlog',
    'server': 'server',
    'server/protocol': 'protocol',
    'server/telemetry': 'telemetry',
    'server/encryption': 'encryption',
    '.': 'main',            # the command line entry point (package main in the repository root)
}


def make_overlay(d, pkg, subs):
    """overlay.json mapping harness files into package REPO/<pkg>: the shared files in
    harness/<pkgdir>/*.go plus those of every harness/<pkgdir>/<sub>/*.go"""
    rep = {}
    base = os.path.join(HARNESS, HARNESS_PKGS[pkg])
    dirs = [base] + [os.path.join(base, s) for s in subs]
    for src in dirs:
        if not os.path.isdir(src):
            continue
        for f in sorted(os.listdir(src)):
            if f.endswith('.go'):
                rep[os.path.join(REPO, pkg, 'zz_' + f)] = os.path.join(src, f)
        # harness-only exports of package commitlog that a driver in package server needs (harness/server/<sub>/export/*.go):
        # overlaid into REPO/server/commitlog under the name the owning check uses (checks/c11.py), so that the
        # sub-directory also compiles on its own (bin/setup)
        exp = os.path.join(src, 'export')
        if src != base and os.path.isdir(exp):
            gos = sorted(f for f in os.listdir(exp) if f.endswith('.go'))
            for i, f in enumerate(gos):
                name = 'zz_%s_export_verif%s.go' % (os.path.basename(src), '' if i == 0 else str(i))
                rep[os.path.join(REPO, 'server', 'commitlog', name)] = os.path.join(exp, f)
    p = os.path.join(d, 'overlay.json')
    with open(p, 'w') as fh:
        json.dump({'Replace': rep}, fh)
    return p


def go_test(pkg, run, env_extra=None, timeout=600, race=False, tags='verif', subs=(), count=1, extra_args=()):
    """Runs `go test` for REPO/<pkg> with the harness overlay (shared harness files of the
    package + the sub-directories named in subs, e.g. subs=['c01']).  Returns (rc, out, wall)."""
    with scratch('go') as sd:
        ov = make_overlay(sd, pkg, subs)
        env = go_env()
        tmp = os.path.join(sd, 'tmp')
        os.makedirs(tmp, exist_ok=True)
        env['TMPDIR'] = tmp
        env.update(env_extra or {})
        cmd = ['go', 'test', '-tags', tags, '-overlay', ov, '-vet=off', '-count=%d' % count,
               '-timeout', '%ds' % timeout, '-run', run]
        if race:
            cmd.append('-race')
        cmd += list(extra_args)
        cmd.append('./' + pkg)
        rc, out, wall = _run(cmd, REPO, env, timeout + 60)
        return rc, out, wall


# --------------------------------------------------------------------------- findings / evidence

def load_findings(prop):
    p = os.path.join(VERIF, 'known_findings.json')
    if not os.path.exists(p):
        return []
    with open(p) as fh:
        data = json.load(fh)
    return [f for f in data.get('findings', []) if f.get('property') == prop]


def sha(obj):
    return hashlib.sha1(json.dumps(obj, sort_keys=True).encode()).hexdigest()[:12]


class Report:
    """Collects what a check run covered and found, writes the evidence file and
    prints KNOWN-FINDING / VIOLATION lines."""

    def __init__(self, prop, tier, seed, level='model_checking'):
        self.prop, self.tier, self.seed, self.level = prop, tier, seed, level
        self.t0 = time.time()
        self.cov = {'states': 0, 'transitions': 0, 'traces_validated_against_impl': 0, 'samples': [],
                    'evaluations': 0, 'distinct_nontrivial': 0, 'rule': '', 'exhaustive': False,
                    'conformance_drift': [], 'known_findings_hit': [], 'design_checks': [],
                    'coverage_zero_actions': []}
        self.assumptions = []
        self.violations = []   # (signature, description, replay_obj)
        self.known_hit = {}    # id -> count
        self.findings = load_findings(prop)
        self.inconclusive = None

    # -- design check bookkeeping
    def add_design(self, name, res, expect_ok=True):
        self.cov['states'] += res['distinct']
        self.cov['transitions'] += res['generated']
        self.cov['design_checks'].append({'config': name, 'distinct_states': res['distinct'],
                                          'states_generated': res['generated'], 'depth': res['depth'],
                                          'complete': res['complete'], 'violated': res['violated'],
                                          'wall_s': round(res['wall'], 1)})
        for z in res.get('zero_cov', []):
            self.cov['coverage_zero_actions'].append(name + ':' + z)
        if expect_ok and not res['ok']:
            if res['violated']:
                # a design-level counterexample is not a verdict by itself
                log('design check %s: TLC reports %s' % (name, res['violated']))
            else:
                raise Inconclusive('design check %s did not complete: %s' % (name, res['out'][-2000:]))

    def drift(self, what):
        if len(self.cov['conformance_drift']) < 50:
            self.cov['conformance_drift'].append(what)

    def classify(self, signature, description, replay_obj):
        """signature: string; matched against open known findings (regex in 'signature')."""
        for f in self.findings:
            if f.get('status') == 'open' and re.fullmatch(f['signature'], signature):
                self.known_hit[f['id']] = self.known_hit.get(f['id'], 0) + 1
                return f
        self.violations.append((signature, description, replay_obj))
        return None

    def finish(self):
        for f in self.findings:
            if f.get('status') == 'open' and f['id'] in self.known_hit:
                print('KNOWN-FINDING: property=%s %s [%s, seen %d times this run]' % (
                    self.prop, f['what'], f['id'], self.known_hit[f['id']]))
                self.cov['known_findings_hit'].append({'id': f['id'], 'count': self.known_hit[f['id']]})
        rc = 0
        seen = set()
        os.makedirs(os.path.join(VERIF, 'replays'), exist_ok=True)
        for sig, desc, obj in self.violations:
            if sig in seen:
                continue
            seen.add(sig)
            path = os.path.join(VERIF, 'replays', '%s-%s.json' % (self.prop, sha([sig, obj])))
            with open(path, 'w') as fh:
                json.dump({'property': self.prop, 'signature': sig, 'description': desc, 'replay': obj}, fh, indent=1)
            print('VIOLATION property=%s replay=%s' % (self.prop, path))
            print('  signature=%s  %s' % (sig, desc))
            rc = 1
        ev = {
            'property_id': self.prop, 'tier': self.tier, 'seed': self.seed, 'level': self.level,
            'coverage': self.cov, 'assumptions': self.assumptions,
            'wall_s': round(time.time() - self.t0, 1), 'violations': len(seen),
        }
        if not ev['coverage']['samples']:
            ev['coverage']['samples'] = ['(none)']
        # evidence describes runs against /repo itself; runs against another tree (VERIF_REPO,
        # used for mutant experiments) must not overwrite it
        evdir = os.path.join(VERIF, 'evidence') if REPO == '/repo' else os.path.join(BUILD, 'evidence-alt')
        if REPO == '/repo' and self.prop.upper().startswith('X'):
            # additional checks beyond the listed properties (ids X..): evidence/ is reserved for listed ids
            evdir = os.path.join(VERIF, 'evidence-extra')
        os.makedirs(evdir, exist_ok=True)
        with open(os.path.join(evdir, self.prop + '.json'), 'w') as fh:
            json.dump(ev, fh, indent=1, sort_keys=True)
        if REPO == '/repo' and self.tier == 'thorough':
            # evidence/<id>.json is rewritten by every run; the last thorough run is kept as well
            tdir = os.path.join(VERIF, 'evidence-thorough')
            os.makedirs(tdir, exist_ok=True)
            with open(os.path.join(tdir, self.prop + '.json'), 'w') as fh:
                json.dump(ev, fh, indent=1, sort_keys=True)
        return rc


def write_json(path, obj):
    with open(path, 'w') as fh:
        json.dump(obj, fh)


def read_ndjson(path):
    out = []
    with open(path) as fh:
        for line in fh:
            line = line.strip()
            if line:
                out.append(json.loads(line))
    return out
