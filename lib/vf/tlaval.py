"""Parser for TLA+ values as printed by TLC (states in simulation files, dot labels).

records -> dict, sequences/tuples -> list, sets -> {'__set__': [...]},
functions (a :> b @@ c :> d) -> dict with str keys, strings/ints/booleans -> python.
"""
import re

_tok = re.compile(r'''\s*(?:
    (?P<str>"(?:[^"\\]|\\.)*") |
    (?P<int>-?\d+) |
    (?P<sym><<|>>|\|->|:>|@@|\.\.|[\[\]{}(),]) |
    (?P<id>[A-Za-z_][A-Za-z0-9_!]*)
)''', re.X)


def tokenize(s, pos=0):
    out = []
    n = len(s)
    while pos < n:
        m = _tok.match(s, pos)
        if not m:
            if s[pos:].strip() == '':
                break
            raise ValueError('bad TLA value at %r' % s[pos:pos + 40])
        pos = m.end()
        k = m.lastgroup
        out.append((k, m.group(k)))
    return out


class _P:
    def __init__(self, toks):
        self.t = toks
        self.i = 0

    def peek(self):
        return self.t[self.i] if self.i < len(self.t) else (None, None)

    def next(self):
        x = self.t[self.i]
        self.i += 1
        return x

    def expect(self, v):
        k, x = self.next()
        if x != v:
            raise ValueError('expected %s got %s' % (v, x))

    def value(self):
        k, x = self.next()
        if k == 'str':
            return bytes(x[1:-1], 'utf-8').decode('unicode_escape')
        if k == 'int':
            if self.peek()[1] == '..':   # interval a..b as TLC prints integer ranges
                self.next()
                k2, y = self.next()
                return {'__set__': list(range(int(x), int(y) + 1))}
            return int(x)
        if k == 'id':
            if x == 'TRUE':
                return True
            if x == 'FALSE':
                return False
            return x  # model value
        if x == '<<':
            out = []
            if self.peek()[1] == '>>':
                self.next()
                return out
            while True:
                out.append(self.value())
                k, y = self.next()
                if y == '>>':
                    return out
                if y != ',':
                    raise ValueError('bad tuple')
        if x == '{':
            out = []
            if self.peek()[1] == '}':
                self.next()
                return {'__set__': out}
            while True:
                out.append(self.value())
                k, y = self.next()
                if y == '}':
                    return {'__set__': out}
                if y != ',':
                    raise ValueError('bad set')
        if x == '[':
            out = {}
            while True:
                k, name = self.next()
                self.expect('|->')
                out[name] = self.value()
                k, y = self.next()
                if y == ']':
                    return out
                if y != ',':
                    raise ValueError('bad record')
        if x == '(':
            out = {}
            while True:
                key = self.value()
                self.expect(':>')
                out[str(key)] = self.value()
                k, y = self.next()
                if y == ')':
                    return out
                if y != '@@':
                    raise ValueError('bad function')
        raise ValueError('unexpected token %s' % x)


def parse(s):
    p = _P(tokenize(s))
    return p.value()


def parse_state(text):
    """text of one state:  /\\ var = value  conjuncts -> dict var -> value"""
    out = {}
    parts = re.split(r'^/\\ ', text, flags=re.M)
    for part in parts:
        part = part.strip()
        if not part:
            continue
        m = re.match(r'([A-Za-z_][A-Za-z0-9_]*) = (.*)$', part, re.S)
        if m:
            out[m.group(1)] = parse(m.group(2))
    return out


def state_var(text, var):
    """extract only one variable from a state's text"""
    m = re.search(r'^/\\ ' + re.escape(var) + r' = (.*?)(?=^/\\ |\Z)', text, re.S | re.M)
    if not m:
        return None
    return parse(m.group(1))
