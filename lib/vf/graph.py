"""State graph of a bounded TLC model (`-dump dot,actionlabels`) -> behaviours that
cover every transition at least once (spanning tree + one path per uncovered edge).

Edge labels carry the action name with its bound arguments (`MCJoin("c1",{"sa"})`),
node labels the full state text, so stimuli can be read off the graph."""
import os
import re

from . import core, tlaval

_node_re = re.compile(r'^(-?\d+) \[label="((?:[^"\\]|\\.)*)"(.*)\]\s*;?\s*$')
_edge_re = re.compile(r'^(-?\d+) -> (-?\d+) \[label="((?:[^"\\]|\\.)*)"')


def _unesc(s):
    return s.replace('\\n', '\n').replace('\\"', '"').replace('\\\\', '\\')


def parse_label(label):
    """'MCJoin("c1",{"sa"})' -> ('MCJoin', ['c1', {'__set__': ['sa']}])"""
    m = re.match(r'^(\w+)(?:\((.*)\))?$', label, re.S)
    if not m:
        return label, []
    name, args = m.group(1), m.group(2)
    if args is None or args.strip() == '':
        return name, []
    return name, tlaval.parse('<<' + args + '>>')


def tlc_dump(module, cfg, workers=4, timeout=900, extra=None):
    """Runs TLC exhaustively with a dot dump.  Returns dict(nodes={id: state text}, inits=[ids],
    edges=[(src, dst, label)], distinct, generated, out)."""
    with core.scratch('dump') as d:
        core._stage_specs(d, extra)
        dot = os.path.join(d, 'graph.dot')
        cmd = ['tlc', '-workers', str(workers), '-metadir', os.path.join(d, 'meta'), '-config', cfg,
               '-noGenerateSpecTE', '-dump', 'dot,actionlabels', dot, module]
        rc, out, wall = core._run(cmd, d, core._tlc_env(d), timeout)
        if rc != 0 or not os.path.exists(dot):
            raise core.Inconclusive('TLC dot dump failed rc=%s\n%s' % (rc, out[-3000:]))
        nodes, inits, edges = {}, [], []
        with open(dot) as fh:
            for line in fh:
                line = line.rstrip('\n')
                m = _edge_re.match(line)
                if m:
                    edges.append((m.group(1), m.group(2), _unesc(m.group(3))))
                    continue
                m = _node_re.match(line)
                if m:
                    nid = m.group(1)
                    if nid not in nodes:
                        nodes[nid] = _unesc(m.group(2))
                    if 'style = filled' in m.group(3) and nid not in inits:
                        inits.append(nid)
        res = {'nodes': nodes, 'inits': inits, 'edges': edges, 'out': out, 'wall': wall, 'distinct': 0,
               'generated': 0}
        for m in core._stat_re.finditer(out):
            res['generated'], res['distinct'] = int(m.group(1)), int(m.group(2))
        return res


def cover(graph, max_paths=None):
    """Behaviours (init id, [edge index, ...]) such that every edge of the graph occurs in at
    least one of them.  Shortest-path tree from the initial states; for every edge not yet
    covered (deepest sources first) the tree path to its source plus the edge."""
    edges = graph['edges']
    out_edges = {}
    for i, (u, v, _) in enumerate(edges):
        out_edges.setdefault(u, []).append(i)
    parent = {n: None for n in graph['inits']}   # node -> edge index that reaches it
    depth = {n: 0 for n in graph['inits']}
    queue = list(graph['inits'])
    qi = 0
    while qi < len(queue):
        u = queue[qi]
        qi += 1
        for i in out_edges.get(u, []):
            v = edges[i][1]
            if v not in parent:
                parent[v] = i
                depth[v] = depth[u] + 1
                queue.append(v)

    def path_to(n):
        p = []
        while parent[n] is not None:
            i = parent[n]
            p.append(i)
            n = edges[i][0]
        p.reverse()
        return n, p

    covered = [False] * len(edges)
    order = sorted(range(len(edges)), key=lambda i: -depth.get(edges[i][0], 0))
    paths = []
    for i in order:
        if covered[i] or edges[i][0] not in parent:
            continue
        root, p = path_to(edges[i][0])
        p = p + [i]
        for j in p:
            covered[j] = True
        paths.append((root, p))
        if max_paths and len(paths) >= max_paths:
            break
    return paths, sum(covered), len(edges)
