SPECIFICATION TraceSpec
CONSTANTS
  Fix = {}
POSTCONDITION Done
CHECK_DEADLOCK FALSE
