----------------------- MODULE Trace_CleanerConfig -----------------------
(* Trace validation of the configuration route: every line is one stream    *)
(* created on a real Server (newPartition) with the recorded server         *)
(* defaults and StreamConfig overrides, and what arrived in the options of  *)
(* its commit log and in the retention settings of its delete cleaner.      *)
EXTENDS CleanerConfig, Sequences, TLC, Json
Trace == ndJsonDeserialize("trace.ndjson")
VARIABLES l
Fail(kind, e, name) == PrintT(<<"FAIL", kind, e.t, l, e.a, name>>)
Chk(ok, kind, e, name) == IF ok THEN TRUE ELSE Fail(kind, e, name)
\* argument class of a failure: an explicit zero / false among the overrides
Name(e) == IF e.args.ovr.age = 0 \/ e.args.ovr.msgs = 0 \/ e.args.ovr.bytes = 0 \/ e.args.ovr.compact = "false"
           THEN "C09_Route:explicit-zero" ELSE "C09_Route:other"
TraceInit == l = 2     \* line 1 is the "Open" line of the first behaviour
TraceNext ==
  /\ Trace[l].a # "End"
  /\ l' = l + 1
  /\ LET e == Trace[l] IN
     IF e.a = "Route"
     THEN Chk(e.obs.err = "" /\ C09_Route(e.args.def, e.args.ovr, e.obs.opts, e.obs.ret), "P", e, Name(e))
     ELSE TRUE
TraceSpec == TraceInit /\ [][TraceNext]_l
Done == PrintT(<<"DONE", TLCGet("stats").diameter, Len(Trace)>>)
=============================================================================
