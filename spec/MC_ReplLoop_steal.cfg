SPECIFICATION MCLive1
CONSTANTS
  F = {"b"}
  MaxRec = 2
  MaxEp = 2
  FetchMax = 1
  WideEvery = 0
  SlowTimeouts = FALSE
  ZombieSteals = TRUE
  MaxTick = 0
  MaxSlow = 0
  MaxIdleT = 0
  MaxKill = 0
  TrackLast = TRUE
PROPERTIES X03_LiveStore
CHECK_DEADLOCK FALSE
