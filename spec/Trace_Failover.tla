------------------------- MODULE Trace_Failover -------------------------
(* Trace validation for Failover.tla.  Every line of trace.ndjson is one     *)
(* call executed on a real one-node controller, with the abstract state      *)
(* projected from the real objects after the call (partition leader, epochs, *)
(* ISR, the partition's entry in partitionFailovers with its witness set).   *)
(* `good` (who reported the current leader in the current window - what the  *)
(* property talks about) and `armed` are not observable; they are computed   *)
(* by the specification's own bookkeeping operators from the recorded steps. *)
(*   - P_<step> and C07_LeaderInISR: a failure is a violation of C07 on real *)
(*     behaviour (FAIL "P"),                                                 *)
(*   - the step as the specification performs it and the mechanism           *)
(*     invariants: a failure is conformance drift (FAIL "I").                *)
EXTENDS Failover, Sequences, TLC, Json

Trace == ndJsonDeserialize("trace.ndjson")

VARIABLES l
tvars == <<vars, l>>

ToSet(s) == {s[i] : i \in DOMAIN s}

BindObserved(e) ==
  /\ exists' = e.st.exists /\ isr' = ToSet(e.st.isr) /\ pisr' = ToSet(e.st.pisr) /\ leader' = e.st.leader
  /\ lepoch' = e.st.lepoch /\ pepoch' = e.st.pepoch /\ e0' = e.st.e0
  /\ fo' = [on |-> e.st.fo.on, wit |-> ToSet(e.st.fo.wit)]
  /\ obs' = e.obs
  /\ pend' = e.st.pend

TraceInit ==
  LET e == Trace[1] IN
  /\ exists = e.st.exists /\ isr = ToSet(e.st.isr) /\ pisr = ToSet(e.st.pisr) /\ leader = e.st.leader
  /\ lepoch = e.st.lepoch /\ pepoch = e.st.pepoch /\ e0 = e.st.e0
  /\ fo = [on |-> e.st.fo.on, wit |-> ToSet(e.st.fo.wit)]
  /\ obs = e.obs /\ pend = e.st.pend
  /\ armed = FALSE /\ good = {} /\ taint = FALSE
  /\ l = 2

Fail(kind, e, name) == PrintT(<<"FAIL", kind, e.t, l, e.a, name>>)
Chk(ok, kind, e, name) == IF ok THEN TRUE ELSE Fail(kind, e, name)

\* the specification's bookkeeping of the unobservable parts
GoodAfter(e) ==
  CASE e.a = "Open" -> {}
    [] e.a = "Report" -> GoodAfterReport(e.args.w, e.args.l, e.args.e)
    [] e.a = "ReportApply" -> GoodAfterReport(pend[e.args.i].w, pend[e.args.i].l, pend[e.args.i].e)
    [] e.a = "ElectCheck" -> GoodAfterReport(e.args.w, e.args.l, e.args.e)
    [] e.a = "ElectApply" -> GoodAfterISR
    [] e.a \in {"Shrink", "Expand"} -> IF Stale(e.args.l, e.args.e) THEN good ELSE GoodAfterISR
    [] e.a = "ISRApply" -> GoodAfterISR
    [] e.a \in {"Skip", "ReportCheck", "ISRCheck", "Rebuild"} -> good
    [] OTHER -> {}      \* Expire, Lose, Remove
ArmedAfter(e) ==
  CASE e.a = "Open" -> FALSE
    [] e.a = "Report" -> ArmedAfterReport(e.args.w, e.args.l, e.args.e)
    [] e.a = "ReportApply" -> ArmedAfterApply(pend[e.args.i].l, pend[e.args.i].e)
    [] e.a = "ElectCheck" -> IF Stale(e.args.l, e.args.e) THEN armed
                             ELSE IF Len(pend') > Len(pend) THEN FALSE ELSE ArmedAfterEffect
    [] e.a = "ElectApply" -> IF fo'.on THEN armed ELSE FALSE
    [] e.a \in {"Shrink", "Expand", "Skip", "ReportCheck", "ISRCheck", "ISRApply"} -> armed
    [] e.a = "Expire" -> IF fo.on /\ armed THEN FALSE ELSE armed
    [] e.a \in {"Remove", "Rebuild"} -> IF exists THEN FALSE ELSE armed
    [] OTHER -> FALSE   \* Lose

TaintAfter(e) ==
  CASE e.a = "Open" -> FALSE
    [] e.a \in {"ReportApply", "ISRApply", "ElectApply"} -> TaintAfterApply(pend[e.args.i].l, pend[e.args.i].e)
    [] OTHER -> taint

PropOf(e) ==
  CASE e.a = "Report" -> P_ReportLeader(e.args.w, e.args.l, e.args.e)
    [] e.a = "ReportCheck" -> P_ReportCheck(e.args.w, e.args.l, e.args.e)
    [] e.a = "ReportApply" -> P_ReportApply(e.args.i)
    [] e.a = "ISRCheck" -> P_ReportCheck(e.args.r, e.args.l, e.args.e)
    [] e.a = "ISRApply" -> P_ISRApply(e.args.i)
    [] e.a = "ElectCheck" -> P_ElectCheck(e.args.w, e.args.l, e.args.e)
    [] e.a = "ElectApply" -> P_ElectApply(e.args.i)
    [] e.a = "Shrink" -> P_ShrinkISR(e.args.r, e.args.l, e.args.e)
    [] e.a = "Expand" -> P_ExpandISR(e.args.r, e.args.l, e.args.e)
    [] e.a = "Remove" -> P_RemoveStream
    [] e.a = "Rebuild" -> P_Rebuild
    [] OTHER -> P_Quiet

ImplOf(e) ==
  CASE e.a = "Report" -> DoReportLeader(e.args.w, e.args.l, e.args.e, e.args.ok)
    [] e.a = "ReportCheck" -> DoReportCheck(e.args.w, e.args.l, e.args.e)
    [] e.a = "ReportApply" -> DoReportApply(e.args.i)
    [] e.a = "ISRCheck" -> DoISRCheck(e.args.k, e.args.r, e.args.l, e.args.e)
    [] e.a = "ISRApply" -> DoISRApply(e.args.i)
    [] e.a = "ElectCheck" -> DoElectCheck(e.args.w, e.args.l, e.args.e)
    [] e.a = "ElectApply" -> DoElectApply(e.args.i)
    [] e.a = "Shrink" -> DoShrinkISR(e.args.r, e.args.l, e.args.e, e.args.ok)
    [] e.a = "Expand" -> DoExpandISR(e.args.r, e.args.l, e.args.e, e.args.ok)
    [] e.a = "Expire" -> DoExpire
    [] e.a = "Lose" -> DoLoseControllership
    [] e.a = "Remove" -> DoRemoveStream
    [] e.a = "Rebuild" -> DoRebuild(e.args.how)
    [] e.a = "Skip" -> UNCHANGED <<exists, isr, pisr, leader, lepoch, pepoch, e0, fo, pend>>
    [] OTHER -> FALSE

TraceNext ==
  /\ Trace[l].a # "End"
  /\ l' = l + 1
  /\ LET e == Trace[l] IN
     /\ BindObserved(e)
     /\ good' = GoodAfter(e)
     /\ armed' = ArmedAfter(e)
     /\ taint' = TaintAfter(e)
     /\ IF e.a = "Open" THEN TRUE
        ELSE /\ Chk(PropOf(e), "P", e, "step")
             /\ Chk(ImplOf(e), "I", e, "step")
     /\ Chk(C07_LeaderInISR', "P", e, "C07_LeaderInISR")
     /\ Chk(TypeOK', "I", e, "TypeOK")
     /\ Chk(PersistedISR', "I", e, "PersistedISR")
     /\ Chk(StatusLive', "I", e, "StatusLive")
     /\ Chk(WitnessesAreGood', "I", e, "WitnessesAreGood")

TraceSpec == TraceInit /\ [][TraceNext]_tvars

Done == PrintT(<<"DONE", TLCGet("stats").diameter, Len(Trace)>>)
=============================================================================
