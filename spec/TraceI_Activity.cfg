SPECIFICATION TraceSpec
CONSTANTS
  Nodes = {"a", "b", "c"}
  SnapCarriesLP = TRUE
POSTCONDITION Post
CHECK_DEADLOCK FALSE
