SPECIFICATION TraceSpec
CONSTANTS
  Nodes = {"a", "b", "c"}
POSTCONDITION Post
CHECK_DEADLOCK FALSE
