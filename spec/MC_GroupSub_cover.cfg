SPECIFICATION MCSpec
CONSTANTS
  Groups = {"g1"}
  CleanupById = FALSE
  Consumers = {"c1", "c2"}
  MaxEpoch = 2
  MaxSubs = 3
  MaxOps = 5
  UsePlain = FALSE
  UseBurst = FALSE
  UseBad = TRUE
INVARIANTS TypeOK C13_OneActive ActiveRegistered RegOK
PROPERTIES StepsOK
VIEW MCView
CHECK_DEADLOCK FALSE
