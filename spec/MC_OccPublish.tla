------------------------- MODULE MC_OccPublish -------------------------
(* Bounded instance of OccPublish: exhaustive design check (every order of *)
(* sends, arrivals at the leader loop, loop iterations and ack deliveries  *)
(* of 2-3 publishers with every expectation kind) and stimulus generation. *)
(* `last` = the last action with its arguments, n* = budgets; neither is   *)
(* part of the VIEW.  Mut selects a deliberately broken leader loop (the   *)
(* design-level self-test: TLC must then find a violation).                *)
EXTENDS OccPublish, TLC

CONSTANTS MaxMsgs,      \* publishes per behaviour
          MaxPerPub,    \* publishes per publisher
          MaxReads,     \* explicit metadata reads per behaviour
          MaxPauses,    \* PauseStream calls per behaviour
          MaxRestarts,  \* server restarts per behaviour
          OccSet, BatchSet, PathSet, Kinds, Pols,
          SrcSet,       \* where the stream's setting comes from: subset of {"request", "server", "override"}
          Vias,         \* who publishes: subset of {"api", "subj", "nats", "natsq", "plain"}
          MaxHolds,     \* PublishAsync publishes whose in-flight count is a step of its own
          MaxSnaps,     \* Raft snapshots per behaviour (between waves)
          MaxInstalls,  \* snapshot installs on the running server per behaviour
          Snap0Set,     \* what the newest snapshot holds when the first wave starts
          SnapKeeps,    \* FALSE = defective variant: the snapshot's copy of the stream loses the setting
          Mut           \* "none" | "after_write" | "newest" | "batch" | "none_paused" | "neg_waives" |
                        \* "nack_leader_only" | "drop_idle_ack" | "noinbox_exp"

VARIABLES last, nReads, nPauses, nRestarts, nHolds, nSnaps, nInstalls
budgets == <<nReads, nPauses, nRestarts, nHolds, nSnaps, nInstalls>>
mcvars == <<vars, last, budgets>>

SentBy(p) == Cardinality({id \in Ids : msgs[id].p = p})

MCInit ==
  /\ cfg \in [occ : OccSet, batch : BatchSet, path : PathSet, src : SrcSet]
  /\ msgs = <<>> /\ net = {} /\ chan = <<>> /\ log = <<>> /\ ackq = {}
  /\ clk = 1 /\ known = [p \in Pubs |-> 0] /\ paused = FALSE
  /\ eocc = cfg.occ /\ snap \in Snap0Set /\ infl = [p \in Pubs |-> 0] /\ unc = {}
  /\ last = [a |-> "Open"] /\ nReads = 0 /\ nPauses = 0 /\ nRestarts = 0
  /\ nHolds = 0 /\ nSnaps = 0 /\ nInstalls = 0

\* a call that returns with the answer (unary Publish RPC, PublishToSubject)
Blocking(id) == msgs[id].via = "subj" \/ (msgs[id].via = "api" /\ cfg.path = "sync")

MCSend(p, kind, pol, via, hold) ==
  /\ Len(msgs) < MaxMsgs /\ SentBy(p) < MaxPerPub
  /\ kind = "stale" => known[p] > 0          \* otherwise the same as "equal"
  /\ pol = "none" => (via = "api" /\ \A id \in Ids : msgs[id].pol # "none")
  \* canonical form of what does not matter: no field => no kind, no inbox => no ack policy
  /\ via \in NoExp => kind = "waive"
  /\ via \in Silent => pol = "leader"
  /\ hold => (via = "api" /\ cfg.path = "async" /\ pol # "none" /\ nHolds < MaxHolds)
  \* a blocking call returns with the answer: the publisher does nothing while one is outstanding
  /\ \A id \in Ids : (msgs[id].p = p /\ Blocking(id)) => msgs[id].ackT < Inf
  \* (d') seeded defect: ack policy NONE is not refused while the partition is paused
  /\ IF Mut = "none_paused" THEN SendAs(p, kind, pol, via, hold, via = "api" /\ eocc /\ pol = "none" /\ ~paused)
                            ELSE DoSend(p, kind, pol, via, hold)
  /\ last' = [a |-> "Send", p |-> p, kind |-> kind, pol |-> pol, via |-> via, hold |-> hold]
  /\ nHolds' = IF hold THEN nHolds + 1 ELSE nHolds
  /\ UNCHANGED <<nReads, nPauses, nRestarts, nSnaps, nInstalls>>

MCCount(id) == DoCount(id) /\ last' = [a |-> "Count", id |-> id] /\ UNCHANGED budgets

\* server restart between two waves (nothing in flight): the metadata is rebuilt
\* from the newest snapshot + the Raft log tail, or from the whole Raft log; the
\* stream - with the settings of its latest creation - and its commit log are
\* reopened
MCRestart ==
  /\ nRestarts < MaxRestarts /\ Len(msgs) < MaxMsgs /\ msgs # <<>>
  /\ DoRestartAs(SnapKeeps)
  /\ last' = [a |-> "Restart", from |-> snap] /\ nRestarts' = nRestarts + 1
  /\ UNCHANGED <<nReads, nPauses, nHolds, nSnaps, nInstalls>>

\* the metadata Raft group persists a snapshot (between two waves)
MCSnapshot ==
  /\ nSnaps < MaxSnaps /\ Len(msgs) < MaxMsgs /\ snap # "cur"
  /\ DoSnapshot
  /\ last' = [a |-> "Snapshot"] /\ nSnaps' = nSnaps + 1
  /\ UNCHANGED <<nReads, nPauses, nRestarts, nHolds, nInstalls>>

\* the running server installs a snapshot of its own state machine
MCInstall ==
  /\ nInstalls < MaxInstalls /\ Len(msgs) < MaxMsgs /\ msgs # <<>>
  /\ DoInstallAs(SnapKeeps)
  /\ last' = [a |-> "Install"] /\ nInstalls' = nInstalls + 1
  /\ UNCHANGED <<nReads, nPauses, nRestarts, nHolds, nSnaps>>

\* PauseStream between two waves (everybody has his answers)
MCPause ==
  /\ nPauses < MaxPauses /\ Len(msgs) < MaxMsgs
  /\ DoPause
  /\ last' = [a |-> "Pause"] /\ nPauses' = nPauses + 1 /\ UNCHANGED <<nReads, nRestarts, nHolds, nSnaps, nInstalls>>

MCRead(p) ==
  /\ nReads < MaxReads /\ known[p] # Len(log)
  /\ DoRead(p)
  /\ last' = [a |-> "Read", p |-> p] /\ nReads' = nReads + 1 /\ UNCHANGED <<nPauses, nRestarts, nHolds, nSnaps, nInstalls>>

\* all publishers wait for their answers, then look at the log end
MCBarrier ==
  /\ Quiescent /\ msgs # <<>> /\ \E p \in Pubs : known[p] # Len(log)
  /\ known' = [p \in Pubs |-> Len(log)]
  /\ last' = [a |-> "Barrier"]
  /\ UNCHANGED <<cfg, msgs, net, chan, log, ackq, clk, paused, eocc, snap, infl, unc>> /\ UNCHANGED budgets

MCArrive(id) == DoArrive(id) /\ last' = [a |-> "Arrive", id |-> id] /\ UNCHANGED budgets

\* (g) seeded defect: a PublishAsync session throws away an answer that arrives
\* while it counts nothing as in flight
MutAckDrop(id) ==
  /\ id \in ackq
  /\ \A j \in ackq : SameLine(j, id) => id <= j
  /\ InSession(id) /\ infl[msgs[id].p] = 0
  /\ ackq' = ackq \ {id}
  /\ UNCHANGED <<cfg, msgs, net, chan, log, clk, known, paused, eocc, snap, infl, unc>>

MCAck(id) ==
  /\ IF Mut = "drop_idle_ack" /\ InSession(id) /\ infl[msgs[id].p] = 0 THEN MutAckDrop(id) ELSE DoAckDeliver(id)
  /\ last' = [a |-> "Ack", id |-> id] /\ UNCHANGED budgets

-----------------------------------------------------------------------------
(* deliberately broken variants of the loop iteration *)

\* (a) the expected offset is checked after the write
MutAfterWrite(n) ==
  /\ n = 1 /\ n <= Len(chan)
  /\ LET b == SubSeq(chan, 1, n)
         base == Len(log)
         bad == cfg.occ /\ msgs[b[1]].exp # -1 /\ msgs[b[1]].exp # base
     IN /\ chan' = Tail(chan)
        /\ log' = log \o Stamped(b, base)
        /\ msgs' = [msgs EXCEPT ![b[1]].res = IF bad THEN "incorrect_offset" ELSE "ok",
                                ![b[1]].off = IF bad THEN -1 ELSE base]
        /\ ackq' = ackq \cup {b[1]}
  /\ UNCHANGED <<cfg, net, clk, known, paused, eocc, snap, infl, unc>>

\* (c) compared with the newest offset instead of the next one
MutNewest(n) ==
  /\ n = 1 /\ n <= Len(chan)
  /\ LET b == SubSeq(chan, 1, n)
         base == Len(log)
         bad == cfg.occ /\ msgs[b[1]].exp # -1 /\ msgs[b[1]].exp # base - 1
     IN /\ chan' = Tail(chan)
        /\ IF bad THEN /\ log' = log
                       /\ msgs' = [msgs EXCEPT ![b[1]].res = "incorrect_offset"]
           ELSE /\ log' = log \o Stamped(b, base)
                /\ msgs' = [msgs EXCEPT ![b[1]].res = "ok", ![b[1]].off = base]
        /\ ackq' = ackq \cup {b[1]}
  /\ UNCHANGED <<cfg, net, clk, known, paused, eocc, snap, infl, unc>>

\* (b) batch size not forced to 1 (and no panic): message i of the batch is
\* checked against base + i - 1, one mismatch refuses the whole batch and only
\* the first message gets the INCORRECT_OFFSET ack
MutBatch(n) ==
  /\ n \in 1..cfg.batch /\ n <= Len(chan)
  /\ LET b == SubSeq(chan, 1, n)
         base == Len(log)
         bad == cfg.occ /\ \E i \in 1..n : msgs[b[i]].exp # -1 /\ msgs[b[i]].exp # base + i - 1
     IN /\ chan' = SubSeq(chan, n + 1, Len(chan))
        /\ IF bad THEN /\ log' = log
                       /\ msgs' = [msgs EXCEPT ![b[1]].res = "incorrect_offset"]
                       /\ ackq' = ackq \cup {b[1]}
           ELSE /\ log' = log \o Stamped(b, base)
                /\ msgs' = [id \in DOMAIN msgs |->
                              IF InBatch(b, id)
                              THEN [msgs[id] EXCEPT !.res = "ok", !.off = base + IdxIn(b, id) - 1]
                              ELSE msgs[id]]
                /\ ackq' = ackq \cup {b[i] : i \in 1..n}
  /\ UNCHANGED <<cfg, net, clk, known, paused, eocc, snap, infl, unc>>

\* (f) the INCORRECT_OFFSET answer is sent only for ack policy LEADER
MutNackLeaderOnly(n) ==
  /\ n = 1 /\ n <= Len(chan)
  /\ LET b == SubSeq(chan, 1, n)
         base == Len(log)
         bad == cfg.occ /\ msgs[b[1]].exp # -1 /\ msgs[b[1]].exp # base
     IN /\ chan' = Tail(chan)
        /\ IF bad THEN /\ log' = log
                       /\ msgs' = IF msgs[b[1]].pol = "leader"
                                  THEN [msgs EXCEPT ![b[1]].res = "incorrect_offset"] ELSE msgs
                       /\ ackq' = IF msgs[b[1]].pol = "leader" THEN ackq \cup {b[1]} ELSE ackq
           ELSE /\ log' = log \o Stamped(b, base)
                /\ msgs' = [msgs EXCEPT ![b[1]].res = "ok", ![b[1]].off = base]
                /\ ackq' = ackq \cup {b[1]}
  /\ UNCHANGED <<cfg, net, clk, known, paused, eocc, snap, infl, unc>>

\* (e) every negative expected offset waives the check (not only -1)
MutNegWaives(n) ==
  /\ n = 1 /\ n <= Len(chan)
  /\ LET b == SubSeq(chan, 1, n)
         base == Len(log)
         bad == cfg.occ /\ msgs[b[1]].exp >= 0 /\ msgs[b[1]].exp # base
     IN /\ chan' = Tail(chan)
        /\ IF bad THEN /\ log' = log
                       /\ msgs' = [msgs EXCEPT ![b[1]].res = "incorrect_offset"]
           ELSE /\ log' = log \o Stamped(b, base)
                /\ msgs' = [msgs EXCEPT ![b[1]].res = "ok", ![b[1]].off = base]
        /\ ackq' = ackq \cup {b[1]}
  /\ UNCHANGED <<cfg, net, clk, known, paused, eocc, snap, infl, unc>>

\* (h) seeded defect: the expected offset is taken only from an envelope that
\* carries an ack inbox (otherwise the zero value stays: "expected offset 0")
MutNoInboxExp(n) ==
  /\ n = 1 /\ n <= Len(chan)
  /\ LET b == SubSeq(chan, 1, n)
         base == Len(log)
         e == IF msgs[b[1]].via \in Silent THEN 0 ELSE EffExp(b[1])
         bad == eocc /\ e # -1 /\ e # base
         mute == msgs[b[1]].pol = "none" \/ msgs[b[1]].via \in Silent
     IN /\ chan' = Tail(chan)
        /\ IF bad THEN /\ log' = log
                       /\ msgs' = IF mute THEN msgs ELSE [msgs EXCEPT ![b[1]].res = "incorrect_offset"]
           ELSE /\ log' = log \o Stamped(b, base)
                /\ msgs' = IF mute THEN msgs ELSE [msgs EXCEPT ![b[1]].res = "ok", ![b[1]].off = base]
        /\ ackq' = IF mute THEN ackq ELSE ackq \cup {b[1]}
  /\ UNCHANGED <<cfg, net, clk, known, paused, eocc, snap, infl, unc>>

MCProcess(n) ==
  /\ CASE Mut = "none" -> DoProcess(n)
       [] Mut = "after_write" -> MutAfterWrite(n)
       [] Mut = "newest" -> MutNewest(n)
       [] Mut = "batch" -> MutBatch(n)
       [] Mut = "neg_waives" -> MutNegWaives(n)
       [] Mut = "nack_leader_only" -> MutNackLeaderOnly(n)
       [] Mut = "noinbox_exp" -> MutNoInboxExp(n)
       [] OTHER -> DoProcess(n)
  /\ last' = [a |-> "Process", b |-> SubSeq(chan, 1, n)]
  /\ UNCHANGED budgets

MCNext ==
  \/ \E p \in Pubs, kind \in Kinds, pol \in Pols, via \in Vias, hold \in BOOLEAN : MCSend(p, kind, pol, via, hold)
  \/ \E id \in unc : MCCount(id)
  \/ MCSnapshot
  \/ MCInstall
  \/ \E p \in Pubs : MCRead(p)
  \/ MCBarrier
  \/ MCPause
  \/ MCRestart
  \/ \E id \in net : MCArrive(id)
  \/ \E n \in 1..SetMax(BatchSet) : MCProcess(n)
  \/ \E id \in ackq : MCAck(id)

MCSpec == MCInit /\ [][MCNext]_mcvars

\* every loop iteration, as the code performs it, does what C16 demands
StepOK == last'.a = "Process" => P_Process(last'.b)
StepsOK == [][StepOK]_mcvars

\* the log only grows (single node, nothing truncates)
LogGrows == [][Len(log') >= Len(log) /\ SubSeq(log', 1, Len(log)) = log]_mcvars

MCView == <<vars, budgets>>
=============================================================================
