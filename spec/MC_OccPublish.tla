------------------------- MODULE MC_OccPublish -------------------------
(* Bounded instance of OccPublish: exhaustive design check (every order of *)
(* sends, arrivals at the leader loop, loop iterations and ack deliveries  *)
(* of 2-3 publishers with every expectation kind) and stimulus generation. *)
(* `last` = the last action with its arguments, n* = budgets; neither is   *)
(* part of the VIEW.  Mut selects a deliberately broken leader loop (the   *)
(* design-level self-test: TLC must then find a violation).                *)
EXTENDS OccPublish, TLC

CONSTANTS MaxMsgs,      \* publishes per behaviour
          MaxPerPub,    \* publishes per publisher
          MaxReads,     \* explicit metadata reads per behaviour
          MaxPauses,    \* PauseStream calls per behaviour
          MaxRestarts,  \* server restarts per behaviour
          OccSet, BatchSet, PathSet, Kinds, Pols,
          Mut           \* "none" | "after_write" | "newest" | "batch" | "none_paused" | "neg_waives" | "nack_leader_only"

VARIABLES last, nReads, nPauses, nRestarts
mcvars == <<vars, last, nReads, nPauses, nRestarts>>

SentBy(p) == Cardinality({id \in Ids : msgs[id].p = p})

MCInit ==
  /\ cfg \in [occ : OccSet, batch : BatchSet, path : PathSet]
  /\ msgs = <<>> /\ net = {} /\ chan = <<>> /\ log = <<>> /\ ackq = {}
  /\ clk = 1 /\ known = [p \in Pubs |-> 0] /\ paused = FALSE
  /\ last = [a |-> "Open"] /\ nReads = 0 /\ nPauses = 0 /\ nRestarts = 0

MCSend(p, kind, pol) ==
  /\ Len(msgs) < MaxMsgs /\ SentBy(p) < MaxPerPub
  /\ kind = "stale" => known[p] > 0          \* otherwise the same as "equal"
  /\ pol = "none" => \A id \in Ids : msgs[id].pol # "none"
  \* the unary Publish RPC returns with the answer: one outstanding publish per publisher
  /\ cfg.path = "sync" => \A id \in Ids : msgs[id].p = p => msgs[id].ackT < Inf
  \* (d') seeded defect: ack policy NONE is not refused while the partition is paused
  /\ IF Mut = "none_paused" THEN SendAs(p, kind, pol, cfg.occ /\ pol = "none" /\ ~paused)
                            ELSE DoSend(p, kind, pol)
  /\ last' = [a |-> "Send", p |-> p, kind |-> kind, pol |-> pol]
  /\ UNCHANGED <<nReads, nPauses, nRestarts>>

\* server restart between two waves (nothing in flight): the metadata is rebuilt
\* from the Raft log, the stream - with the settings of its latest creation -
\* and its commit log are reopened; the abstract state does not change
MCRestart ==
  /\ nRestarts < MaxRestarts /\ Len(msgs) < MaxMsgs /\ msgs # <<>>
  /\ net = {} /\ chan = <<>> /\ ackq = {}
  /\ last' = [a |-> "Restart"] /\ nRestarts' = nRestarts + 1
  /\ UNCHANGED <<vars, nReads, nPauses>>

\* PauseStream between two waves (everybody has his answers)
MCPause ==
  /\ nPauses < MaxPauses /\ Len(msgs) < MaxMsgs
  /\ DoPause
  /\ last' = [a |-> "Pause"] /\ nPauses' = nPauses + 1 /\ UNCHANGED <<nReads, nRestarts>>

MCRead(p) ==
  /\ nReads < MaxReads /\ known[p] # Len(log)
  /\ DoRead(p)
  /\ last' = [a |-> "Read", p |-> p] /\ nReads' = nReads + 1 /\ UNCHANGED <<nPauses, nRestarts>>

\* all publishers wait for their answers, then look at the log end
MCBarrier ==
  /\ Quiescent /\ msgs # <<>> /\ \E p \in Pubs : known[p] # Len(log)
  /\ known' = [p \in Pubs |-> Len(log)]
  /\ last' = [a |-> "Barrier"]
  /\ UNCHANGED <<cfg, msgs, net, chan, log, ackq, clk, paused, nReads, nPauses, nRestarts>>

MCArrive(id) == DoArrive(id) /\ last' = [a |-> "Arrive", id |-> id] /\ UNCHANGED <<nReads, nPauses, nRestarts>>
MCAck(id) == DoAckDeliver(id) /\ last' = [a |-> "Ack", id |-> id] /\ UNCHANGED <<nReads, nPauses, nRestarts>>

-----------------------------------------------------------------------------
(* deliberately broken variants of the loop iteration *)

\* (a) the expected offset is checked after the write
MutAfterWrite(n) ==
  /\ n = 1 /\ n <= Len(chan)
  /\ LET b == SubSeq(chan, 1, n)
         base == Len(log)
         bad == cfg.occ /\ msgs[b[1]].exp # -1 /\ msgs[b[1]].exp # base
     IN /\ chan' = Tail(chan)
        /\ log' = log \o Stamped(b, base)
        /\ msgs' = [msgs EXCEPT ![b[1]].res = IF bad THEN "incorrect_offset" ELSE "ok",
                                ![b[1]].off = IF bad THEN -1 ELSE base]
        /\ ackq' = ackq \cup {b[1]}
  /\ UNCHANGED <<cfg, net, clk, known, paused>>

\* (c) compared with the newest offset instead of the next one
MutNewest(n) ==
  /\ n = 1 /\ n <= Len(chan)
  /\ LET b == SubSeq(chan, 1, n)
         base == Len(log)
         bad == cfg.occ /\ msgs[b[1]].exp # -1 /\ msgs[b[1]].exp # base - 1
     IN /\ chan' = Tail(chan)
        /\ IF bad THEN /\ log' = log
                       /\ msgs' = [msgs EXCEPT ![b[1]].res = "incorrect_offset"]
           ELSE /\ log' = log \o Stamped(b, base)
                /\ msgs' = [msgs EXCEPT ![b[1]].res = "ok", ![b[1]].off = base]
        /\ ackq' = ackq \cup {b[1]}
  /\ UNCHANGED <<cfg, net, clk, known, paused>>

\* (b) batch size not forced to 1 (and no panic): message i of the batch is
\* checked against base + i - 1, one mismatch refuses the whole batch and only
\* the first message gets the INCORRECT_OFFSET ack
MutBatch(n) ==
  /\ n \in 1..cfg.batch /\ n <= Len(chan)
  /\ LET b == SubSeq(chan, 1, n)
         base == Len(log)
         bad == cfg.occ /\ \E i \in 1..n : msgs[b[i]].exp # -1 /\ msgs[b[i]].exp # base + i - 1
     IN /\ chan' = SubSeq(chan, n + 1, Len(chan))
        /\ IF bad THEN /\ log' = log
                       /\ msgs' = [msgs EXCEPT ![b[1]].res = "incorrect_offset"]
                       /\ ackq' = ackq \cup {b[1]}
           ELSE /\ log' = log \o Stamped(b, base)
                /\ msgs' = [id \in DOMAIN msgs |->
                              IF InBatch(b, id)
                              THEN [msgs[id] EXCEPT !.res = "ok", !.off = base + IdxIn(b, id) - 1]
                              ELSE msgs[id]]
                /\ ackq' = ackq \cup {b[i] : i \in 1..n}
  /\ UNCHANGED <<cfg, net, clk, known, paused>>

\* (f) the INCORRECT_OFFSET answer is sent only for ack policy LEADER
MutNackLeaderOnly(n) ==
  /\ n = 1 /\ n <= Len(chan)
  /\ LET b == SubSeq(chan, 1, n)
         base == Len(log)
         bad == cfg.occ /\ msgs[b[1]].exp # -1 /\ msgs[b[1]].exp # base
     IN /\ chan' = Tail(chan)
        /\ IF bad THEN /\ log' = log
                       /\ msgs' = IF msgs[b[1]].pol = "leader"
                                  THEN [msgs EXCEPT ![b[1]].res = "incorrect_offset"] ELSE msgs
                       /\ ackq' = IF msgs[b[1]].pol = "leader" THEN ackq \cup {b[1]} ELSE ackq
           ELSE /\ log' = log \o Stamped(b, base)
                /\ msgs' = [msgs EXCEPT ![b[1]].res = "ok", ![b[1]].off = base]
                /\ ackq' = ackq \cup {b[1]}
  /\ UNCHANGED <<cfg, net, clk, known, paused>>

\* (e) every negative expected offset waives the check (not only -1)
MutNegWaives(n) ==
  /\ n = 1 /\ n <= Len(chan)
  /\ LET b == SubSeq(chan, 1, n)
         base == Len(log)
         bad == cfg.occ /\ msgs[b[1]].exp >= 0 /\ msgs[b[1]].exp # base
     IN /\ chan' = Tail(chan)
        /\ IF bad THEN /\ log' = log
                       /\ msgs' = [msgs EXCEPT ![b[1]].res = "incorrect_offset"]
           ELSE /\ log' = log \o Stamped(b, base)
                /\ msgs' = [msgs EXCEPT ![b[1]].res = "ok", ![b[1]].off = base]
        /\ ackq' = ackq \cup {b[1]}
  /\ UNCHANGED <<cfg, net, clk, known, paused>>

MCProcess(n) ==
  /\ CASE Mut = "none" -> DoProcess(n)
       [] Mut = "after_write" -> MutAfterWrite(n)
       [] Mut = "newest" -> MutNewest(n)
       [] Mut = "batch" -> MutBatch(n)
       [] Mut = "neg_waives" -> MutNegWaives(n)
       [] Mut = "nack_leader_only" -> MutNackLeaderOnly(n)
       [] OTHER -> DoProcess(n)
  /\ last' = [a |-> "Process", b |-> SubSeq(chan, 1, n)]
  /\ UNCHANGED <<nReads, nPauses, nRestarts>>

MCNext ==
  \/ \E p \in Pubs, kind \in Kinds, pol \in Pols : MCSend(p, kind, pol)
  \/ \E p \in Pubs : MCRead(p)
  \/ MCBarrier
  \/ MCPause
  \/ MCRestart
  \/ \E id \in net : MCArrive(id)
  \/ \E n \in 1..SetMax(BatchSet) : MCProcess(n)
  \/ \E id \in ackq : MCAck(id)

MCSpec == MCInit /\ [][MCNext]_mcvars

\* every loop iteration, as the code performs it, does what C16 demands
StepOK == last'.a = "Process" => P_Process(last'.b)
StepsOK == [][StepOK]_mcvars

\* the log only grows (single node, nothing truncates)
LogGrows == [][Len(log') >= Len(log) /\ SubSeq(log', 1, Len(log)) = log]_mcvars

MCView == <<cfg, msgs, net, chan, log, ackq, clk, known, paused, nReads, nPauses, nRestarts>>
=============================================================================
