--------------------------- MODULE GroupOps ---------------------------
(***************************************************************************)
(* Pure operators over ONE consumer group value, written the way           *)
(* server/groups.go computes them.  No variables: Groups.tla (C12) and     *)
(* MetadataFSM.tla (C06) both build on this module.                        *)
(*                                                                         *)
(* A group value is the record                                             *)
(*   [exists |-> TRUE,                                                     *)
(*    subs  : member id -> set of streams        (consumer.streams)        *)
(*    heap  : stream -> set of member ids        (c.subscribers; a key     *)
(*            exists iff the stream has a subscriber: dropped by           *)
(*            StreamDeleted and when its last subscriber leaves)           *)
(*    asg   : member id -> (stream -> sequence of partition ids)           *)
(*            (consumer.assignments; a key exists iff >= 1 partition)      *)
(*    cnt   : member id -> assignedCount  (ONE counter per consumer,       *)
(*            shared by all its streams: this is what the heaps compare)   *)
(*    epoch, coord]                                                        *)
(* NoGroup = [exists |-> FALSE].                                           *)
(*                                                                         *)
(* The per-stream heaps are container/heap structures, but the code only   *)
(* ever Peeks right after heap.Init, and Less is a total order             *)
(* (assignedCount, then id), so only the minimum is observable: the heap   *)
(* is modelled as a set.                                                   *)
(*                                                                         *)
(* Ids are strings; Go compares them lexicographically.  TLA+ has no order *)
(* on strings, so the (sorted) universes are fixed here.                   *)
(***************************************************************************)
EXTENDS Integers, Sequences, FiniteSets

ConsumerOrder == <<"c1", "c2", "c3", "c4">>
StreamOrder   == <<"sa", "sb", "sc">>

RankIn(seq, x) == CHOOSE i \in DOMAIN seq : seq[i] = x
CLess(c, d) == RankIn(ConsumerOrder, c) < RankIn(ConsumerOrder, d)
\* rangeStreamsOrdered: the streams of a set in sorted order
SortedStreams(S) == SelectSeq(StreamOrder, LAMBDA s : s \in S)

NoGroup == [exists |-> FALSE]
NewGroup(coord, epoch) == [exists |-> TRUE, subs |-> <<>>, heap |-> <<>>, asg |-> <<>>,
                           cnt |-> <<>>, epoch |-> epoch, coord |-> coord]

Put(f, k, v) == [x \in (DOMAIN f) \cup {k} |-> IF x = k THEN v ELSE f[x]]
Del(f, k) == [x \in (DOMAIN f) \ {k} |-> f[x]]
PartsOf(parts, s) == IF s \in DOMAIN parts THEN parts[s] ELSE 0

Members(g) == IF g.exists THEN DOMAIN g.subs ELSE {}
AsgLen(g, c, s) == IF c \in DOMAIN g.asg /\ s \in DOMAIN g.asg[c] THEN Len(g.asg[c][s]) ELSE 0

-----------------------------------------------------------------------------
(* balanceAssignmentsForStream *)

\* "Reset assignments for stream": every subscriber drops its partitions of s
\* and its (shared) counter goes down by that many
ResetStream(g, s) ==
  [g EXCEPT
     !.cnt = [c \in DOMAIN @ |-> IF c \in g.heap[s] THEN @[c] - AsgLen(g, c, s) ELSE @[c]],
     !.asg = [c \in DOMAIN @ |-> IF c \in g.heap[s] THEN Del(@[c], s) ELSE @[c]]]

\* subscribers.Peek() after heap.Init: least assignedCount, ties by id
MinSub(g, s) ==
  LET S == g.heap[s] \cap DOMAIN g.cnt IN
  CHOOSE c \in S : \A d \in S : d = c \/ g.cnt[c] < g.cnt[d] \/ (g.cnt[c] = g.cnt[d] /\ CLess(c, d))

\* consumer.assignPartition
AssignOne(g, c, s, p) ==
  [g EXCEPT !.cnt[c] = @ + 1,
            !.asg[c] = Put(@, s, IF s \in DOMAIN @ THEN Append(@[s], p) ELSE <<p>>)]

RECURSIVE AssignFrom(_, _, _, _)
AssignFrom(g, s, p, n) ==
  IF p >= n THEN g ELSE AssignFrom(AssignOne(g, MinSub(g, s), s, p), s, p + 1, n)

Balance(g, s, parts) ==
  IF s \notin DOMAIN g.heap \/ (g.heap[s] \cap DOMAIN g.cnt) = {} THEN g
  ELSE AssignFrom(ResetStream(g, s), s, 0, PartsOf(parts, s))

RECURSIVE BalanceAll(_, _, _)
BalanceAll(g, ss, parts) ==
  IF ss = <<>> THEN g ELSE BalanceAll(Balance(g, Head(ss), parts), Tail(ss), parts)

-----------------------------------------------------------------------------
(* addMember / addConsumer: push onto the heap of each stream (sorted order),
   rebalancing that stream right away *)

RECURSIVE AddToStreams(_, _, _, _)
AddToStreams(g, c, ss, parts) ==
  IF ss = <<>> THEN g
  ELSE LET s  == Head(ss)
           g1 == [g EXCEPT !.heap = Put(@, s, (IF s \in DOMAIN @ THEN @[s] ELSE {}) \cup {c})]
       IN AddToStreams(Balance(g1, s, parts), c, Tail(ss), parts)

GAddMember(g, c, streams, parts) ==
  LET g0 == [g EXCEPT !.subs = Put(@, c, streams), !.asg = Put(@, c, <<>>), !.cnt = Put(@, c, 0)]
  IN AddToStreams(g0, c, SortedStreams(streams), parts)

(* RemoveMember / removeConsumer: leave each heap (sorted order); a heap that
   lost its last subscriber is dropped (fix a339921: a group rebuilt by Restore
   does not have it either); otherwise the stream is rebalanced only if the
   leaving consumer held partitions of it *)

RECURSIVE RemoveFromStreams(_, _, _, _)
RemoveFromStreams(g, c, ss, parts) ==
  IF ss = <<>> THEN g
  ELSE LET s == Head(ss) IN
       IF s \notin DOMAIN g.heap THEN RemoveFromStreams(g, c, Tail(ss), parts)
       ELSE LET left == g.heap[s] \ {c}
                g1 == IF left = {} THEN [g EXCEPT !.heap = Del(@, s)] ELSE [g EXCEPT !.heap[s] = left]
                g2 == IF left # {} /\ AsgLen(g, c, s) > 0 THEN Balance(g1, s, parts) ELSE g1
            IN RemoveFromStreams(g2, c, Tail(ss), parts)

GRemoveMember(g, c, parts) ==
  LET g1 == RemoveFromStreams(g, c, SortedStreams(g.subs[c]), parts)
  IN [g1 EXCEPT !.subs = Del(@, c), !.asg = Del(@, c), !.cnt = Del(@, c)]

(* StreamDeleted(stream, epoch): refused when epoch < group epoch; a stream
   nobody subscribes to changes nothing (not even the epoch); otherwise
   the subscribers forget the stream and every other stream they consume is
   rebalanced, in sorted order *)
SDRefused(g, e) == e < g.epoch

GStreamDeleted(g, s, e, parts) ==
  IF SDRefused(g, e) THEN g
  ELSE IF s \notin DOMAIN g.heap THEN g
  ELSE LET S  == g.heap[s] \cap DOMAIN g.subs
           g1 == [g EXCEPT
                    !.subs = [c \in DOMAIN @ |-> IF c \in S THEN @[c] \ {s} ELSE @[c]],
                    !.cnt  = [c \in DOMAIN @ |-> IF c \in S THEN @[c] - AsgLen(g, c, s) ELSE @[c]],
                    !.asg  = [c \in DOMAIN @ |-> IF c \in S THEN Del(@[c], s) ELSE @[c]],
                    !.heap = Del(@, s)]
           reb == UNION {g1.subs[c] : c \in S}
       IN [BalanceAll(g1, SortedStreams(reb), parts) EXCEPT !.epoch = e]

(* GetAssignments(consumer, epoch) on server `me` *)
GGetAssignments(g, c, e, me) ==
  IF g.coord # me THEN [err |-> "not_coordinator", ret |-> <<>>]
  ELSE IF e # g.epoch THEN [err |-> "epoch", ret |-> <<>>]
  ELSE IF c \notin DOMAIN g.subs THEN [err |-> "not_member", ret |-> <<>>]
  ELSE [err |-> "", ret |-> g.asg[c]]

-----------------------------------------------------------------------------
(* What property C12 demands of a group value, given the partition counts  *)

Subscribers(g, s) == {c \in Members(g) : s \in g.subs[c]}
Holders(g, s, p) == {c \in Members(g) : s \in DOMAIN g.asg[c] /\ \E i \in DOMAIN g.asg[c][s] : g.asg[c][s][i] = p}
Total(g, c) == LET ks == DOMAIN g.asg[c]
                   RECURSIVE Sum(_)
                   Sum(K) == IF K = {} THEN 0 ELSE LET k == CHOOSE k \in K : TRUE IN Len(g.asg[c][k]) + Sum(K \ {k})
               IN Sum(ks)

\* every partition of a stream with >= 1 subscribed member has exactly one
\* holder, who subscribed to it, and holds it once
ExactlyOneFor(g, s, n) ==
  Subscribers(g, s) # {} =>
    \A p \in 0..(n - 1) :
      /\ Cardinality(Holders(g, s, p)) = 1
      /\ Holders(g, s, p) \subseteq Subscribers(g, s)
      /\ \A c \in Holders(g, s, p) : Cardinality({i \in DOMAIN g.asg[c][s] : g.asg[c][s][i] = p}) = 1

\* no member holds a partition of a stream it did not subscribe to
NoForeign(g) == \A c \in Members(g) : DOMAIN g.asg[c] \subseteq g.subs[c]

\* nobody holds a partition the stream does not have
AssignedExistFor(g, s, n) ==
  \A c \in Members(g) : s \in DOMAIN g.asg[c] => \A i \in DOMAIN g.asg[c][s] : g.asg[c][s][i] \in 0..(n - 1)

\* a group consuming a single stream: the subscribers' counts differ by <= 1
Balanced(g) ==
  LET used == UNION {g.subs[c] : c \in Members(g)} IN
  Cardinality(used) = 1 =>
    \A c, d \in {m \in Members(g) : g.subs[m] # {}} : Total(g, c) - Total(g, d) \in {-1, 0, 1}

\* bookkeeping of the implementation (conformance level): counter = sum, heaps = subscriptions
CountersOK(g) == \A c \in Members(g) : g.cnt[c] = Total(g, c)
HeapsOK(g) == /\ \A s \in DOMAIN g.heap : g.heap[s] = Subscribers(g, s)
              /\ \A c \in Members(g) : g.subs[c] \subseteq DOMAIN g.heap
=============================================================================
