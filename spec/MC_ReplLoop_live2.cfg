SPECIFICATION MCLive2
CONSTANTS
  F = {"b"}
  MaxRec = 1
  MaxEp = 2
  FetchMax = 1
  WideEvery = 0
  SlowTimeouts = FALSE
  ZombieSteals = FALSE
  MaxTick = 99
  MaxSlow = 0
  MaxIdleT = 99
  MaxKill = 1
  TrackLast = FALSE
PROPERTIES X03_LiveDetect X03_LiveFollowerHW
CHECK_DEADLOCK FALSE
