SPECIFICATION MCSpec
CONSTANTS
  MaxApp = 8
  MaxTog = 3
  Starts = {0, 1, 2, 3, 4, 5, 6, 7}
  CapSet = {1, 2, 3}
  AtomicSet = {TRUE, FALSE}
  TrackLast = TRUE
  UseRoller = TRUE
  SplitNew = FALSE
  NewLoads = 1
CHECK_DEADLOCK FALSE
