------------------------- MODULE Trace_OccPublish -------------------------
(* Trace validation for OccPublish.tla.  Every "Round" line of trace.ndjson  *)
(* is one round executed on a real one-node server: the stream setting, every *)
(* publish (who, expected offset actually sent, ack policy, logical send and  *)
(* answer times, the answer) and the partition log read back at the end.      *)
(* The history variables are bound to the record (the in-flight variables are *)
(* empty: the round is over) and TLC evaluates                               *)
(*   - the C16_* predicates of OccPublish.tla  (failure = property violation  *)
(*     on real behaviour, printed as FAIL "P" ...),                           *)
(*   - the I_* predicates (failure = conformance drift, FAIL "I" ...).        *)
(* "Begin" lines mark the start of a round (no check); a "Died" line says the *)
(* server process died in the publish path while executing that round.        *)
EXTENDS OccPublish, TLC, Json

Trace == ndJsonDeserialize("trace.ndjson")

VARIABLES l
tvars == <<vars, l>>

Empty == [occ |-> TRUE, batch |-> 1, path |-> "async"]

Fail(kind, e, name) == PrintT(<<"FAIL", kind, e.t, l, e.a, name>>)
Chk(ok, kind, e, name) == IF ok THEN TRUE ELSE Fail(kind, e, name)

TraceInit ==
  /\ cfg = Empty /\ msgs = <<>> /\ net = {} /\ chan = <<>> /\ log = <<>> /\ ackq = {}
  /\ clk = 1 /\ known = <<>> /\ paused = FALSE
  /\ eocc = TRUE /\ snap = "none" /\ infl = <<>> /\ unc = {}
  /\ Trace[1].a = "Open"     \* first line: the driver's start marker
  /\ l = 2

BindRound(e) ==
  /\ cfg' = e.cfg /\ msgs' = e.msgs /\ log' = e.log
  /\ net' = {} /\ chan' = <<>> /\ ackq' = {}
  /\ clk' = e.clk /\ known' = e.known
  /\ paused' = e.paused       \* state of the partition when the round ended
  /\ eocc' = e.eocc           \* setting of the running commit log when the round ended
  /\ snap' = e.snap           \* what the newest snapshot in the Raft snapshot store says about the stream
  /\ infl' = [p \in DOMAIN e.known |-> 0] /\ unc' = {}     \* (not observable, not used by the history predicates)

Reset ==
  /\ cfg' = Empty /\ msgs' = <<>> /\ log' = <<>> /\ net' = {} /\ chan' = <<>> /\ ackq' = {}
  /\ clk' = 1 /\ known' = <<>> /\ paused' = FALSE
  /\ eocc' = TRUE /\ snap' = "none" /\ infl' = <<>> /\ unc' = {}

TraceNext ==
  /\ Trace[l].a # "End"
  /\ l' = l + 1
  /\ LET e == Trace[l] IN
     CASE e.a = "Round" ->
          /\ BindRound(e)
          /\ Chk(C16_Dense', "P", e, "C16_Dense")
          /\ Chk(C16_Once', "P", e, "C16_Once")
          /\ Chk(C16_StoredAtExpected', "P", e, "C16_StoredAtExpected")
          /\ Chk(C16_AckOffset', "P", e, "C16_AckOffset")
          /\ Chk(C16_RejectNotStored', "P", e, "C16_RejectNotStored")
          /\ Chk(C16_RejectJustified', "P", e, "C16_RejectJustified")
          /\ Chk(C16_WaivedAccepted', "P", e, "C16_WaivedAccepted")
          /\ Chk(C16_OneWinner', "P", e, "C16_OneWinner")
          /\ Chk(C16_NoneNotSilent', "P", e, "C16_NoneNotSilent")
          /\ Chk(C16_Answered', "P", e, "C16_Answered")
          /\ Chk(C16_UnstoredJustified', "P", e, "C16_UnstoredJustified")
          /\ Chk(I_NoExpAsZero', "I", e, "I_NoExpAsZero")
          /\ Chk(I_OccKept', "I", e, "I_OccKept")
          /\ Chk(TypeOK', "I", e, "TypeOK")
          /\ Chk(I_Resolved', "I", e, "I_Resolved")
          /\ Chk(I_NonOccAll', "I", e, "I_NonOccAll")
          /\ Chk(I_Order', "I", e, "I_Order")
          /\ Chk(I_RejectWindow', "I", e, "I_RejectWindow")
       [] e.a = "Died" -> Reset /\ Fail("P", e, "C16_ServerSurvives")
       [] OTHER -> Reset

TraceSpec == TraceInit /\ [][TraceNext]_tvars

Done == PrintT(<<"DONE", TLCGet("stats").diameter, Len(Trace)>>)
=============================================================================
