SPECIFICATION MCSpec
CONSTANTS
  Servers = {"A", "B"}
  ConsumerSet = {"c1", "c2"}
  StreamSet = {"sa"}
  MaxParts = 2
  MaxOps = 6
  MaxDeletes = 1
  Coords = {"A"}
  MaxRestores = 0
  MaxPauseOps = 0
  Shapes = {"plain", "dup", "empty"}
  GetDs = {}
VIEW MCView
CHECK_DEADLOCK FALSE
