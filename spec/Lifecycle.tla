------------------------------ MODULE Lifecycle ------------------------------
(* X02 - life cycle of a stream and its partitions on a live one-node server *)
(* (additional check, not one of the listed properties).                     *)
(*                                                                           *)
(* One stream with the partitions Parts on one server that is metadata       *)
(* leader and partition leader (replication factor 1).  Per partition:       *)
(* paused / read-only flags, "leader loops running" (NATS subscription,      *)
(* message loop, auto-pause timer), the stored log.  Per stream: exists,     *)
(* the ResumeAll flag.  Operations as server/api.go, server/metadata.go,     *)
(* server/partition.go, server/stream.go, server/fsm.go perform them:        *)
(*   PauseStream(partitions, resumeAll)   SetStreamReadonly(partitions, b)   *)
(*   DeleteStream / CreateStream (re-creation)                               *)
(*   Publish over the three API paths: Publish (sync), PublishAsync - both   *)
(*     check read-only FIRST, then resume-on-publish (resumeStream: the      *)
(*     partition published to, or every paused partition when the stream     *)
(*     was paused with ResumeAll), then send over NATS to the leader loop -  *)
(*     and PublishToSubject (plain NATS: never resumes, a paused or          *)
(*     read-only partition does not answer)                                  *)
(*   Subscribe with / without Resume; subscription loops end when their      *)
(*     partition is paused / deleted, or at the end of a read-only log       *)
(*   the auto-pause timer (autoPauseTime, autoPauseDisableIfSubscribers):    *)
(*     DoIdle = a quiet period longer than autoPauseTime                     *)
(*   server restart (Raft log replay: PAUSE / RESUME / SET_READONLY /        *)
(*     DELETE replayed, paused partitions stay closed)                       *)
(* A sync Publish and a Subscribe(Resume) are also available in phases       *)
(* (DoPubStart .. DoPubEnd, DoSubStart .. DoSubEnd) split at the points      *)
(* where the code leaves one critical section and enters the next (the       *)
(* verif gates api.publish.checked, metadata.resume_stream.applied,          *)
(* api.publish.resumed, api.subscribe.resumed), so that any other            *)
(* operation can be scheduled in between: publish vs pause, publish vs       *)
(* delete, publish vs read-only, resume vs subscribe.                        *)
(*                                                                           *)
(* Do<Action>  = the action exactly as the code performs it (conformance).   *)
(* P_<Action>  = what X02 demands (see design_notes/X02.md): only these and  *)
(*               the X02_* invariants produce verdicts.                      *)
EXTENDS Integers, Sequences, FiniteSets, TLC

CONSTANTS Parts,     \* partition ids, e.g. {0, 1}
          SubIds,    \* subscription handles
          NilFix     \* TRUE: ResumeStream tolerates a partition that vanished after the apply (repaired code)

VARIABLES cfg,        \* [auto: BOOLEAN, dis: BOOLEAN]  stream-level AutoPauseTime > 0 / AutoPauseDisableIfSubscribers
          exists,     \* the stream exists (not deleted)
          paused,     \* [Parts -> BOOLEAN]
          ro,         \* [Parts -> BOOLEAN]
          leading,    \* [Parts -> BOOLEAN] leader loops of the partition are running
          resumeAll,  \* the stream's ResumeAll flag (in memory only)
          lastRA,     \* ghost: ResumeAll flag of the last PAUSE_STREAM entry of this stream in the Raft log
          log,        \* [Parts -> Seq(message id)]
          subs,       \* [SubIds -> [p, st, got]]  st: "" none/cancelled, "wait" open, or the terminal status
          acked,      \* ghost: set of <<p, m>> acknowledged to a publisher (current incarnation of the stream)
          refused,    \* ghost: message ids refused with a documented error
          pend,       \* the publish / subscribe that is parked at a gate
          obs         \* observable result of the last call

vars == <<cfg, exists, paused, ro, leading, resumeAll, lastRA, log, subs, acked, refused, pend, obs>>

NoSub == [p |-> -1, st |-> "", got |-> <<>>]
NoPend == [on |-> FALSE, kind |-> "", p |-> -1, m |-> 0, s |-> "", ph |-> "", R |-> {}]
AllF == [q \in Parts |-> FALSE]
Results == {"ok", "readonly", "notfound", "timeout", "paused", "panic"}

\* ---------------------------------------------------------------- state as a record
Cur == [exists |-> exists, paused |-> paused, ro |-> ro, leading |-> leading, resumeAll |-> resumeAll,
        lastRA |-> lastRA, log |-> log, subs |-> subs, acked |-> acked, refused |-> refused]

Set(S) == /\ exists' = S.exists /\ paused' = S.paused /\ ro' = S.ro /\ leading' = S.leading
          /\ resumeAll' = S.resumeAll /\ lastRA' = S.lastRA /\ log' = S.log /\ subs' = S.subs
          /\ acked' = S.acked /\ refused' = S.refused

Open(S, s) == S.subs[s].st = "wait"
SubCount(S, p) == Cardinality({s \in SubIds : Open(S, s) /\ S.subs[s].p = p})

\* the subscription loops on the partitions Q end with the status st
EndSubs(S, Q, st) == [S EXCEPT !.subs = [s \in SubIds |-> IF Open(S, s) /\ S.subs[s].p \in Q
                                                        THEN [S.subs[s] EXCEPT !.st = st] ELSE S.subs[s]]]

\* stream.Pause(partitions, resumeAll) -> partition.Pause: flag, close the log, stop the leader loops
PausedSet(S, Q, ra) ==
  LET S1 == EndSubs(S, Q, "paused") IN
  [S1 EXCEPT !.paused = [q \in Parts |-> S.paused[q] \/ q \in Q],
             !.leading = [q \in Parts |-> S.leading[q] /\ q \notin Q],
             !.resumeAll = ra, !.lastRA = ra]

\* RESUME_STREAM applied (metadata.ResumePartition: replacePartition + SetLeader)
ResumedSet(S, R) ==
  [S EXCEPT !.paused = [q \in Parts |-> S.paused[q] /\ q \notin R],
            !.leading = [q \in Parts |-> S.leading[q] \/ (q \in R /\ S.paused[q])]]

\* apiServer.resumeStream: which partitions the call asks to resume
ResumeSet(S, p) == IF S.resumeAll THEN {q \in Parts : S.paused[q]} ELSE (IF S.paused[p] THEN {p} ELSE {})

\* ---------------------------------------------------------------- Publish (sync / async) in phases
\* A : getPublishSubject + ensurePublishPreconditions          | gate api.publish.checked
\* B1: resumeStream up to and including the Raft apply          | gate metadata.resume_stream.applied (only if it proposed)
\* B2: rest of ResumeStream (GetPartition, barrier) + SetResumeAll(false)   | gate api.publish.resumed
\* C : NATS publish -> leader loop -> append -> ack
\* result record: [s, next, res, R]   next = "done" means finished with res
PhA(S, p, m) ==
  IF ~S.exists THEN [s |-> [S EXCEPT !.refused = @ \cup {m}], next |-> "done", res |-> "notfound", R |-> {}]
  ELSE IF S.ro[p] THEN [s |-> [S EXCEPT !.refused = @ \cup {m}], next |-> "done", res |-> "readonly", R |-> {}]
  ELSE [s |-> S, next |-> "B1", res |-> "", R |-> {}]

PhB1(S, p, m) ==
  IF ~S.exists THEN [s |-> [S EXCEPT !.refused = @ \cup {m}], next |-> "done", res |-> "notfound", R |-> {}]
  ELSE LET R == ResumeSet(S, p) IN
       IF R = {} THEN [s |-> S, next |-> "C", res |-> "", R |-> {}]
       ELSE [s |-> ResumedSet(S, R), next |-> "B2", res |-> "", R |-> R]

PhB2(S, p, m, R) ==
  IF ~S.exists /\ ~NilFix THEN [s |-> S, next |-> "done", res |-> "panic", R |-> R]   \* partition.Partition of a nil partition
  ELSE [s |-> (IF S.exists THEN [S EXCEPT !.resumeAll = FALSE] ELSE S), next |-> "C", res |-> "", R |-> R]

PhC(S, p, m) ==
  IF S.exists /\ S.leading[p] /\ ~S.ro[p]
  THEN [s |-> [S EXCEPT !.log[p] = Append(@, m), !.acked = @ \cup {<<p, m>>},
                        !.subs = [s \in SubIds |-> IF Open(S, s) /\ S.subs[s].p = p
                                                   THEN [S.subs[s] EXCEPT !.got = Append(@, m)] ELSE S.subs[s]]],
        next |-> "done", res |-> "ok", R |-> {}]
  ELSE [s |-> S, next |-> "done", res |-> "timeout", R |-> {}]    \* nobody listens / the append fails: no answer

PubPhase(S, ph, p, m, R) ==
  CASE ph = "A" -> PhA(S, p, m) [] ph = "B1" -> PhB1(S, p, m) [] ph = "B2" -> PhB2(S, p, m, R) [] ph = "C" -> PhC(S, p, m)

GateBefore(ph) == CASE ph = "B1" -> "checked" [] ph = "B2" -> "applied" [] ph = "C" -> "resumed" [] OTHER -> ""

\* run the publish from phase ph until it is done or about to pass the gate stopAt ("" = never park)
RECURSIVE PubRun(_, _, _, _, _, _)
PubRun(S, ph, p, m, R, stopAt) ==
  LET a == PubPhase(S, ph, p, m, R) IN
  IF a.next = "done" THEN a
  ELSE IF stopAt # "" /\ GateBefore(a.next) = stopAt THEN [a EXCEPT !.res = "parked"]
  ELSE PubRun(a.s, a.next, p, m, a.R, stopAt)

\* PublishToSubject: plain NATS publish to the partition's subject
SubjectRun(S, p, m) == PhC(S, p, m)

DoPublish(p, path, m) ==
  /\ LET a == IF path = "subject" THEN SubjectRun(Cur, p, m) ELSE PubRun(Cur, "A", p, m, {}, "") IN
     /\ Set(a.s) /\ obs' = [a |-> "Publish", res |-> a.res] /\ UNCHANGED <<pend, cfg>>

DoPubStart(p, gate, m) ==
  /\ ~pend.on
  /\ LET a == PubRun(Cur, "A", p, m, {}, gate) IN
     /\ Set(a.s) /\ UNCHANGED cfg
     /\ IF a.res = "parked"
        THEN /\ pend' = [on |-> TRUE, kind |-> "pub", p |-> p, m |-> m, s |-> "", ph |-> a.next, R |-> a.R]
             /\ obs' = [a |-> "PubStart", res |-> "parked"]
        ELSE pend' = NoPend /\ obs' = [a |-> "PubStart", res |-> a.res]

DoPubEnd ==
  /\ pend.on /\ pend.kind = "pub"
  /\ LET a == PubRun(Cur, pend.ph, pend.p, pend.m, pend.R, "") IN
     /\ Set(a.s) /\ pend' = NoPend /\ obs' = [a |-> "PubEnd", res |-> a.res] /\ UNCHANGED cfg

\* ---------------------------------------------------------------- Subscribe
\* SA: GetPartition, (Resume: resumeStream)            | gate api.subscribe.resumed (only with Resume)
\* SB: partition re-fetched, partition.Subscribe, the loop delivers what is stored
SubA(S, s, p, resume) ==
  IF ~S.exists THEN [s |-> S, next |-> "done", res |-> "notfound"]
  ELSE IF ~resume THEN [s |-> S, next |-> "SB", res |-> ""]
  ELSE LET R == ResumeSet(S, p) IN
       [s |-> (IF R = {} THEN S ELSE [ResumedSet(S, R) EXCEPT !.resumeAll = FALSE]), next |-> "SB", res |-> ""]

SubB(S, s, p) ==
  IF ~S.exists THEN [s |-> S, next |-> "done", res |-> "notfound"]
  ELSE IF S.paused[p]      \* a reader on a closed log: refused when the log holds a segment with messages,
       THEN IF S.log[p] # <<>> THEN [s |-> S, next |-> "done", res |-> "paused"]       \* else the loop ends at once
            ELSE [s |-> [S EXCEPT !.subs[s] = [p |-> p, st |-> "paused", got |-> <<>>]], next |-> "done", res |-> "ok"]
  ELSE [s |-> [S EXCEPT !.subs[s] = [p |-> p, st |-> IF S.ro[p] THEN "readonly" ELSE "wait", got |-> S.log[p]]],
        next |-> "done", res |-> "ok"]

SubRun(S0, s, p, resume, stop) ==
  LET S == [S0 EXCEPT !.subs[s] = NoSub]       \* the handle's previous (ended) subscription is forgotten
      a == SubA(S, s, p, resume) IN
  IF a.next = "done" THEN a
  ELSE IF stop /\ resume THEN [a EXCEPT !.res = "parked"]
  ELSE SubB(a.s, s, p)

DoSub(s, p, resume) ==
  /\ subs[s].st # "wait" /\ (pend.on => pend.s # s)
  /\ LET a == SubRun(Cur, s, p, resume, FALSE) IN
     Set(a.s) /\ obs' = [a |-> "Sub", res |-> a.res] /\ UNCHANGED <<pend, cfg>>

DoSubStart(s, p) ==
  /\ ~pend.on /\ subs[s].st # "wait"
  /\ LET a == SubRun(Cur, s, p, TRUE, TRUE) IN
     /\ Set(a.s) /\ UNCHANGED cfg
     /\ IF a.res = "parked"
        THEN /\ pend' = [on |-> TRUE, kind |-> "sub", p |-> p, m |-> 0, s |-> s, ph |-> "SB", R |-> {}]
             /\ obs' = [a |-> "SubStart", res |-> "parked"]
        ELSE pend' = NoPend /\ obs' = [a |-> "SubStart", res |-> a.res]

DoSubEnd ==
  /\ pend.on /\ pend.kind = "sub"
  /\ LET a == SubB(Cur, pend.s, pend.p) IN
     Set(a.s) /\ pend' = NoPend /\ obs' = [a |-> "SubEnd", res |-> a.res] /\ UNCHANGED cfg

\* the client cancels its subscription
DoUnsub(s) ==
  /\ subs[s].st # ""
  /\ subs' = [subs EXCEPT ![s] = NoSub] /\ obs' = [a |-> "Unsub", res |-> "ok"]
  /\ UNCHANGED <<cfg, exists, paused, ro, leading, resumeAll, lastRA, log, acked, refused, pend>>

\* ---------------------------------------------------------------- metadata operations
\* PauseStream: the API replaces an empty partition list by all partitions
PauseFn(S, Q, ra) ==
  IF ~S.exists THEN [s |-> S, res |-> "notfound"]
  ELSE [s |-> PausedSet(S, IF Q = {} THEN Parts ELSE Q, ra), res |-> "ok"]

DoPause(Q, ra) ==
  LET a == PauseFn(Cur, Q, ra) IN
  Set(a.s) /\ obs' = [a |-> "Pause", res |-> a.res] /\ UNCHANGED <<pend, cfg>>

\* SetStreamReadonly: the flag of the named partitions (also of paused ones); a subscription
\* waiting at the end of a partition that becomes read-only ends with the read-only status
ReadonlyFn(S, Q, b) ==
  IF ~S.exists THEN [s |-> S, res |-> "notfound"]
  ELSE LET QQ == IF Q = {} THEN Parts ELSE Q
           S1 == IF b THEN EndSubs(S, {q \in QQ : ~S.paused[q]}, "readonly") ELSE S IN
       [s |-> [S1 EXCEPT !.ro = [q \in Parts |-> IF q \in QQ THEN b ELSE S.ro[q]]], res |-> "ok"]

DoReadonly(Q, b) ==
  LET a == ReadonlyFn(Cur, Q, b) IN
  Set(a.s) /\ obs' = [a |-> "Readonly", res |-> a.res] /\ UNCHANGED <<pend, cfg>>

DeleteFn(S) ==
  IF ~S.exists THEN [s |-> S, res |-> "notfound"]
  ELSE LET S1 == EndSubs(S, Parts, "deleted") IN
       [s |-> [S1 EXCEPT !.exists = FALSE, !.paused = AllF, !.ro = AllF, !.leading = AllF, !.resumeAll = FALSE,
                         !.lastRA = FALSE, !.log = [q \in Parts |-> <<>>], !.acked = {}],
        res |-> "ok"]

DoDelete ==
  LET a == DeleteFn(Cur) IN
  Set(a.s) /\ obs' = [a |-> "Delete", res |-> a.res] /\ UNCHANGED <<pend, cfg>>

\* CreateStream with the same name (and the same stream-level configuration)
CreateFn(S) ==
  IF S.exists THEN [s |-> S, res |-> "exists"]
  ELSE [s |-> [S EXCEPT !.exists = TRUE, !.leading = [q \in Parts |-> TRUE]], res |-> "ok"]

DoCreate ==
  LET a == CreateFn(Cur) IN
  Set(a.s) /\ obs' = [a |-> "Create", res |-> a.res] /\ UNCHANGED <<pend, cfg>>

\* ---------------------------------------------------------------- auto pause
Eligible(S) == {p \in Parts : S.exists /\ cfg.auto /\ S.leading[p] /\ (~cfg.dis \/ SubCount(S, p) = 0)}

\* the timers of the partitions Q fire: each proposes PauseStream(partitions = {p}, resumeAll = FALSE)
AutoPausedSet(S, Q) == IF Q = {} THEN S ELSE PausedSet(S, Q, FALSE)

\* a quiet period longer than the auto-pause time: every eligible partition is paused
DoIdle ==
  /\ ~pend.on
  /\ Set(AutoPausedSet(Cur, Eligible(Cur))) /\ obs' = [a |-> "Idle", res |-> "ok"] /\ UNCHANGED <<pend, cfg>>

\* ---------------------------------------------------------------- restart
\* Stop + start over the same data directory: the Raft log is replayed (streams re-created with recovered
\* partitions, PAUSE closes them again, RESUME replaces them, SET_READONLY, DELETE tombstones); afterwards every
\* partition that is not paused starts leading.  ResumeAll is not persisted: it comes back as the flag of the
\* last PAUSE entry.  The driver cancels the subscriptions before the stop.
\* (Server.Apply calls finishedRecovery at the last REPLAYED entry; when the snapshot covers the whole log nothing
\* is replayed and Server.Start ends the recovery itself - finishRestore - once the API server is initialised:
\* either way the partitions that are not paused are started.  Repaired defect C06-no-finish-when-snapshot-covers-log.)
RestartFn(S, snap) ==
  [s |-> [S EXCEPT !.leading = [q \in Parts |-> S.exists /\ ~S.paused[q]],
                   !.resumeAll = (IF snap THEN FALSE ELSE S.lastRA), !.lastRA = (IF snap THEN FALSE ELSE S.lastRA),
                   !.subs = [s \in SubIds |-> NoSub]],
   res |-> "ok"]

\* snap: a Raft snapshot is taken right before the stop (the restart then restores the snapshot, which
\* carries the paused / read-only flags of the partition protobufs but not ResumeAll, instead of replaying)
DoRestart(snap) ==
  /\ ~pend.on
  /\ LET a == RestartFn(Cur, snap) IN Set(a.s) /\ obs' = [a |-> "Restart", res |-> a.res] /\ UNCHANGED <<pend, cfg>>

\* a short time passes (less than the auto-pause time since the last activity of every partition)
DoWait == obs' = [a |-> "Wait", res |-> "ok"]
          /\ UNCHANGED <<cfg, exists, paused, ro, leading, resumeAll, lastRA, log, subs, acked, refused, pend>>

\* ---------------------------------------------------------------- initial state
InitWith(c) ==
  /\ cfg = c /\ exists = TRUE /\ paused = AllF /\ ro = AllF /\ leading = [q \in Parts |-> TRUE]
  /\ resumeAll = FALSE /\ lastRA = FALSE /\ log = [q \in Parts |-> <<>>]
  /\ subs = [s \in SubIds |-> NoSub] /\ acked = {} /\ refused = {} /\ pend = NoPend
  /\ obs = [a |-> "Open", res |-> "ok"]

TypeOK ==
  /\ cfg \in [auto : BOOLEAN, dis : BOOLEAN] /\ exists \in BOOLEAN /\ resumeAll \in BOOLEAN /\ lastRA \in BOOLEAN
  /\ paused \in [Parts -> BOOLEAN] /\ ro \in [Parts -> BOOLEAN] /\ leading \in [Parts -> BOOLEAN]
  /\ \A p \in Parts : \A i \in 1..Len(log[p]) : log[p][i] \in Nat
  /\ \A s \in SubIds : subs[s].st \in {"", "wait", "paused", "readonly", "deleted"}
  /\ pend.on \in BOOLEAN

\* ================================================================= what X02 demands
Count(q, m) == Cardinality({i \in 1..Len(q) : q[i] = m})
IsPrefix(a, b) == Len(a) <= Len(b) /\ SubSeq(b, 1, Len(a)) = a

\* acknowledged => stored exactly once (as long as the stream is not deleted); nothing is stored twice;
\* a message refused with a documented error is not stored
X02_AckedStored ==
  /\ \A x \in acked : exists /\ Count(log[x[1]], x[2]) = 1
  /\ \A p \in Parts : \A i, j \in 1..Len(log[p]) : i # j => log[p][i] # log[p][j]
  /\ \A p \in Parts : \A i \in 1..Len(log[p]) : log[p][i] \notin refused

\* a paused partition has no running leader loops and no subscription loops
X02_PausedQuiet == \A p \in Parts : paused[p] => ~leading[p] /\ SubCount(Cur, p) = 0

\* a partition that is neither paused nor deleted is served (no partition is left closed for ever)
X02_ActiveServed == (~pend.on /\ exists) => \A p \in Parts : ~paused[p] => leading[p]

\* a deleted stream is gone: no flags, no loops, no log, no subscription
X02_DeletedGone == ~exists => /\ \A p \in Parts : ~paused[p] /\ ~leading[p] /\ ~ro[p] /\ log[p] = <<>>
                              /\ \A s \in SubIds : subs[s].st # "wait"

\* an open subscription has received everything that is stored in its partition, in order
X02_SubsSeeLog == \A s \in SubIds : subs[s].st = "wait" => exists /\ subs[s].got = log[subs[s].p]

\* no call ever crashes the server or the caller, or fails to return
X02_NoCrash == obs.res \notin {"panic", "hang"}

\* --- step predicates: unprimed = before the call, primed = after; parameters as the call names them
LogsKept == \A q \in Parts : IsPrefix(log[q], log'[q])
OnlyLog(p, m) == /\ \A q \in Parts \ {p} : log'[q] = log[q]
                 /\ log'[p] \in {log[p], Append(log[p], m)}
FlagsKept(Q) == \A q \in Q : paused'[q] = paused[q] /\ ro'[q] = ro[q]

P_Publish(p, path, m) ==
  LET r == obs'.res IN
  /\ r \in {"ok", "readonly", "notfound", "timeout"}
  /\ OnlyLog(p, m) /\ exists' = exists /\ ro' = ro
  /\ (r = "ok") => log'[p] = Append(log[p], m)
  /\ (r \in {"readonly", "notfound"}) => log' = log /\ paused' = paused
  /\ (r = "readonly") = (exists /\ ro[p] /\ path # "subject")
  /\ (exists /\ ro[p]) => log' = log                       \* a read-only partition takes nothing, over any path
  /\ (r = "notfound") = (~exists /\ path # "subject")
  \* a publish over the Liftbridge API to a partition that can take it is stored and acknowledged:
  \* a paused partition is resumed - the message that triggers the resume is not dropped
  /\ (exists /\ ~ro[p] /\ path # "subject") => r = "ok" /\ ~paused'[p]
  \* a plain NATS publish does not resume; a partition that is not served does not answer
  /\ (path = "subject") => /\ paused' = paused
                           /\ (r = "ok") = (exists /\ ~paused[p] /\ ~ro[p])
  \* only resumes; of the partition published to, or of all when the stream was paused with ResumeAll
  /\ \A q \in Parts : paused'[q] # paused[q] => paused[q] /\ (q = p \/ resumeAll)
  /\ (resumeAll /\ r = "ok" /\ path # "subject") => \A q \in Parts : ~paused'[q]

P_Pause(Q, ra) ==
  LET QQ == IF Q = {} THEN Parts ELSE Q IN
  /\ obs'.res = (IF exists THEN "ok" ELSE "notfound")
  /\ log' = log /\ ro' = ro /\ exists' = exists
  /\ exists => /\ \A q \in QQ : paused'[q]
               /\ FlagsKept(Parts \ QQ)
               /\ resumeAll' = ra                  \* the promise "a publish to any partition resumes all" is taken

P_Readonly(Q, b) ==
  LET QQ == IF Q = {} THEN Parts ELSE Q IN
  /\ obs'.res = (IF exists THEN "ok" ELSE "notfound")
  /\ log' = log /\ paused' = paused /\ exists' = exists
  /\ exists => /\ \A q \in QQ : ro'[q] = b
               /\ FlagsKept(Parts \ QQ)

P_Delete ==
  /\ obs'.res = (IF exists THEN "ok" ELSE "notfound")
  /\ ~exists'

P_Create ==
  /\ obs'.res = (IF exists THEN "exists" ELSE "ok")
  /\ exists'
  /\ ~exists => \A q \in Parts : log'[q] = <<>> /\ ~paused'[q] /\ ~ro'[q]    \* nothing of the deleted stream comes back
  /\ exists => log' = log /\ paused' = paused /\ ro' = ro

P_Sub(s, p, resume) ==
  LET r == obs'.res IN
  /\ log' = log /\ ro' = ro /\ exists' = exists
  /\ (r = "notfound") = ~exists
  /\ (~resume) => paused' = paused                              \* only a Resume subscription resumes
  /\ \A q \in Parts : paused'[q] # paused[q] => paused[q] /\ (q = p \/ resumeAll)
  /\ (exists /\ (resume \/ ~paused[p])) => r = "ok" /\ ~paused'[p]
  \* a subscriber to a paused partition is told so: refused, or ended at once with the paused status
  /\ (exists /\ ~resume /\ paused[p]) => (r = "paused" \/ (r = "ok" /\ subs'[s].st = "paused" /\ subs'[s].got = <<>>))
  /\ (r = "ok" /\ ~paused'[p]) => subs'[s].got = log[p] /\ subs'[s].st = (IF ro[p] THEN "readonly" ELSE "wait")

P_Restart ==
  /\ log' = log /\ paused' = paused /\ ro' = ro /\ exists' = exists     \* replay neither loses nor reopens anything

\* the ResumeAll promise given by PauseStream survives a restart as long as a partition is still paused
P_RestartResumeAll == (\E q \in Parts : paused[q]) => resumeAll' = resumeAll

P_Wait == log' = log /\ paused' = paused /\ ro' = ro /\ exists' = exists

\* auto pause: only eligible partitions are paused, nothing else changes
P_Idle ==
  /\ log' = log /\ ro' = ro /\ exists' = exists
  /\ \A q \in Parts : paused'[q] = (paused[q] \/ q \in Eligible(Cur))

P_PubStart(p, gate, m) ==
  LET r == obs'.res IN
  /\ r \in {"parked", "readonly", "notfound", "ok", "timeout"}
  /\ OnlyLog(p, m) /\ ro' = ro /\ exists' = exists
  /\ (r = "parked" /\ gate = "checked") => paused' = paused
  /\ (r = "ok") => log'[p] = Append(log[p], m)

\* the rest of a publish that was overtaken by other calls: never a crash; acknowledged => stored;
\* a documented refusal => not stored; a deleted stream is not touched (no resurrection)
P_PubEnd ==
  LET r == obs'.res IN
  /\ r \in {"ok", "readonly", "notfound", "timeout"}
  /\ OnlyLog(pend.p, pend.m) /\ ro' = ro /\ exists' = exists
  /\ (r = "ok") => log'[pend.p] = Append(log[pend.p], pend.m)
  /\ (r \in {"readonly", "notfound"}) => log' = log
  /\ (~exists \/ ro[pend.p]) => log' = log /\ r # "ok"
  /\ \A q \in Parts : paused'[q] # paused[q] => paused[q] /\ (q = pend.p \/ resumeAll)

P_SubEnd ==
  LET r == obs'.res IN
  /\ log' = log /\ ro' = ro /\ exists' = exists /\ paused' = paused
  /\ r \in {"ok", "notfound", "paused"}
  /\ (r = "notfound") = ~exists
  /\ (exists /\ ~paused[pend.p]) => r = "ok" /\ subs'[pend.s].st \in {"wait", "readonly"} /\ subs'[pend.s].got = log[pend.p]
  /\ (exists /\ paused[pend.p]) => (r = "paused" \/ (r = "ok" /\ subs'[pend.s].st = "paused"))

P_Unsub == log' = log /\ ro' = ro /\ exists' = exists /\ paused' = paused
=============================================================================
