--------------------------- MODULE MC_Propagation ---------------------------
(* Bounded instance of Propagation: exhaustive design check and stimulus    *)
(* generation.  last = the intent of the step; nT = leadership transfers;   *)
(* taint = a request was proposed in another leadership term than the one   *)
(* in which its preconditions were checked (the node mutex is held across   *)
(* both, but leadership moved away and came back in between) - the known    *)
(* window of the code as it is; reachability is reported separately.        *)
EXTENDS Propagation

CONSTANTS MaxReq, MaxTransfers, MaxCancels, MaxSlow, OpSet, MaxLog
VARIABLES last, nT, nC, taint
mcvars == <<vars, last, nT, nC, taint>>

MCInit == Init /\ Cardinality(slow) <= MaxSlow /\ rleader = "a"
          /\ last = [a |-> "Open"] /\ nT = 0 /\ nC = 0 /\ taint = FALSE

Keep == nT' = nT /\ nC' = nC /\ taint' = taint

MCStart(r, s, op, x, to) ==
  /\ op \in OpSet /\ Len(log) < MaxLog
  /\ \A q \in 1..(r - 1) : \E i \in Ids : inst[i].r = q        \* requests are numbered in order
  /\ DoStart(r, s, op, x, to) /\ Keep
  /\ last' = [a |-> "Start", r |-> r, s |-> s, op |-> op, x |-> x, to |-> to]
MCHandle(i, to) == DoHandle(i, to) /\ Keep /\ last' = [a |-> "Handle", i |-> i, to |-> to]
MCLock(i) == DoLock(i) /\ Keep /\ last' = [a |-> "Lock", i |-> i]
MCPropose(i, x) ==
  /\ DoPropose(i, x) /\ nT' = nT /\ nC' = nC
  /\ taint' = (taint \/ (Len(log') > Len(log) /\ inst[i].term # term))
  /\ last' = [a |-> "Propose", i |-> i, x |-> x]
MCApply(s) == DoApply(s) /\ Keep /\ last' = [a |-> "Apply", s |-> s]
MCCancel(i) == nC < MaxCancels /\ DoCancel(i) /\ nT' = nT /\ nC' = nC + 1 /\ taint' = taint
               /\ last' = [a |-> "Cancel", i |-> i]
MCTransfer(t) == nT < MaxTransfers /\ DoTransfer(t) /\ nT' = nT + 1 /\ nC' = nC /\ taint' = taint
                 /\ last' = [a |-> "Transfer", t |-> t]
MCLost(s) == DoLost(s) /\ Keep /\ last' = [a |-> "Lost", s |-> s]
MCAcquired(s) == DoAcquired(s) /\ Keep /\ last' = [a |-> "Acquired", s |-> s]

XArgs == Servers \cup {"-"}

MCNext ==
  \/ \E r \in 1..MaxReq, s \in Servers, op \in Ops, x \in XArgs, to \in XArgs : MCStart(r, s, op, x, to)
  \/ \E i \in Ids, to \in XArgs : MCHandle(i, to)
  \/ \E i \in Ids : MCLock(i)
  \/ \E i \in Ids, x \in XArgs : MCPropose(i, x)
  \/ \E s \in Servers : MCApply(s)
  \/ \E i \in Ids : MCCancel(i)
  \/ \E t \in Servers : MCTransfer(t)
  \/ \E s \in Servers : MCLost(s)
  \/ \E s \in Servers : MCAcquired(s)

MCSpec == MCInit /\ [][MCNext]_mcvars

\* the step as the code performs it satisfies what X04 demands of it
StepOK ==
  LET a == last' IN
  taint' \/
  /\ P_LogStep(a.a = "Propose")
  /\ a.a = "Propose" => P_Propose(a.i)
StepsOK == [][StepOK]_mcvars

Inv_Current == taint \/ X04_Current
Inv_AtMostOneEffect == taint \/ X04_AtMostOneEffect
Inv_OkCommitted == X04_OkCommitted
Inv_RefusedNoEntry == X04_RefusedNoEntry
Inv_NoCrash == taint \/ X04_NoCrash
NoTaint == ~taint

MCView == <<log, applied, slow, rleader, flag, sub, evq, lp, inst, crashed, nT, nC, taint>>
=============================================================================
