SPECIFICATION MCSpec
CONSTANTS
  GroupIds = {"g1"}
  StreamSet = {"sa", "sb"}
  MaxParts = 1
  Brokers = {"r1", "r2", "r3"}
  ConsumerSet = {"c1"}
  Coords = {"A"}
  OpKinds = {"CreateStream", "DeleteStream", "CreateGroup", "LeaveGroup"}
  MaxOps = 3
  MaxSnaps = 1
  MaxRestarts = 1
CHECK_DEADLOCK FALSE
