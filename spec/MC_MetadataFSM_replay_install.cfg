SPECIFICATION MCSpec
CONSTANTS
  GroupIds = {"g1"}
  StreamSet = {"sa"}
  MaxParts = 1
  Brokers = {"r1", "r2", "r3"}
  ConsumerSet = {"c1", "c2"}
  Coords = {"A"}
  OpKinds = {"CreateStream", "DeleteStream", "CreateGroup", "JoinGroup", "LeaveGroup"}
  Variants = {"custom"}
  Extras = {}
  MaxOps = 4
  MaxSnaps = 1
  MaxRestarts = 1
CHECK_DEADLOCK FALSE
