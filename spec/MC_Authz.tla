------------------------------ MODULE MC_Authz ------------------------------
(* Bounded instance of Authz.tla.  A behaviour is: a start situation (state *)
(* class of stream s1, a busy neighbour stream s2, cursor, group membership *)
(* and a loaded policy), one API call, then optionally the policy entry of  *)
(* that call is toggled in the file, (reloaded,) and the same call is made  *)
(* again.  `Callers` are the clients that make calls (the other clients     *)
(* only own policy entries).                                                *)
EXTENDS Authz, TLC

CONSTANTS Callers, PolicyClients, DeepReload, LenSet,
          Canon     \* TRUE (quick design check): start-situation dimensions that the method of the first call never
                    \* reads are held at one value (group membership for non-group methods, the stored cursor
                    \* for methods other than SetCursor / FetchCursor); FALSE: the full product
VARIABLES last, phase
mcvars == <<vars, last, phase>>

Owner == [cid |-> "owner", epoch |-> 1]
Present == [exists : {TRUE}, paused : BOOLEAN, readonly : BOOLEAN, len : LenSet, plain : {0, 1}, gsub : {NoSub, Owner}]
\* pausing a partition closes its subscriptions
StreamClasses == {Absent} \cup {r \in Present : r.paused => (r.plain = 0 /\ r.gsub = NoSub)}
Busy == [exists |-> TRUE, paused |-> FALSE, readonly |-> FALSE, len |-> 1, plain |-> 1, gsub |-> Owner]

\* policies: empty, full, full minus one entry, a single entry, everything for the other clients only
E0 == {e \in Entries : e[1] \in PolicyClients}
SysClass == [exists |-> TRUE, paused |-> FALSE, readonly |-> FALSE, len |-> 1, plain |-> 0, gsub |-> NoSub]
\* calls that would damage the cursors stream for the rest of the run are only made when they must be refused
HarmlessOnSys == {"FetchPartitionMetadata", "FetchCursor", "SetCursor", "Subscribe", "CreateStream", "DeleteStream"}
PolicyChoices == {{}, Entries} \cup {Entries \ {e} : e \in E0} \cup {{e} : e \in E0}
                 \cup {{e \in Entries : e[1] \notin PolicyClients}}

\* canonical request shapes (fields a method does not read are fixed)
\* (built from the calls with a verified certificate; the other credentials are variants of the plain shapes)
BaseChoices ==
  {c \in [m : Methods, c : Callers, s : Streams, resume : BOOLEAN, grp : BOOLEAN, epoch : 0..2, ro : BOOLEAN,
           cred : {"verified"}] :
     /\ (c.m # "Subscribe" => (~c.resume /\ ~c.grp))
     /\ (~c.grp => c.epoch = 0)
     /\ (c.m # "SetStreamReadonly" => ~c.ro)
     /\ (c.m = "FetchMetadata" => c.s = "s1")
     /\ (c.m = "PublishToSubject" => c.s # CursorsStream)
     /\ (c.m \in GroupMethods => c.s = "s2")}
CallChoices ==
  BaseChoices \cup {[c EXCEPT !.cred = k] : c \in {x \in BaseChoices : ~x.resume /\ ~x.grp /\ ~x.ro}, k \in {"forged", "none"}}

EntryOf(call) == <<call.c, ResourceOf(call), ActionOf(call.m)>>
Toggle(p, e) == IF e \in p THEN p \ {e} ELSE p \cup {e}

MCInit ==
  /\ policy \in PolicyChoices /\ policyFile = policy
  /\ st \in {f \in [Streams -> StreamClasses \cup {Busy, SysClass}] :
               f["s2"] = Busy /\ f["s1"] \in StreamClasses /\ f[CursorsStream] = SysClass}
  /\ cursors \in {f \in [Streams -> {-1, 0}] : f["s2"] = 0 /\ f[CursorsStream] = -1}
  /\ fileOK = TRUE
  /\ members \in {{"owner"}, {"owner"} \cup Callers}
  /\ sessions = {}
  /\ enforcer \in BOOLEAN /\ (~enforcer => policy = {})     \* no enforcer: nothing is loaded
  \* client-certificate verification off: explored with the policy that grants everything (nothing may pass)
  /\ clientAuth \in BOOLEAN /\ (~clientAuth => (policy = Entries /\ enforcer))
  /\ obs = [a |-> "Open", res |-> "Ok"]
  /\ last = [a |-> "Open"] /\ phase = 0

MCCall(call) ==
  /\ \/ /\ phase = 0 /\ phase' = 1
        /\ Canon => /\ (call.m \notin GroupMethods => members = {"owner"})
                    /\ (call.m \notin {"SetCursor", "FetchCursor"} => cursors["s1"] = -1)
     \/ phase = 2 /\ call = last.call /\ phase' = 5      \* edited, not yet reloaded: the loaded policy still decides
     \/ phase \in {3, 9} /\ call = last.call /\ phase' = 4
  /\ (call.s = CursorsStream) => (call.m \in HarmlessOnSys \/ Unauthorised(EffPolicy, call))
  /\ (call.cred # "verified") => policy = Entries     \* a caller without verified identity against the full policy
  /\ DoCall(call)
  /\ last' = [a |-> "Call", call |-> call, held |-> (call.m = "Subscribe" /\ obs'.res = "Ok")]

\* DeepReload = FALSE: the edit / reload / call-again tail only from the empty and the full policy
\* the file disappears, a reload fails, then the corrected file is written and reloaded
MCBreak ==
  /\ phase = 1 /\ phase' = 6
  /\ enforcer /\ (DeepReload \/ policy = {} \/ policy = Entries)
  /\ \E kind \in {"removed", "torn"} :
       /\ \E e \in (IF kind = "torn" THEN Needs(last.call) ELSE {EntryOf(last.call)}) :
            DoBreakFile(IF kind = "torn" THEN Toggle(policyFile, e) ELSE policyFile)
       /\ last' = [a |-> "BreakFile", call |-> last.call, held |-> last.held, kind |-> kind]
MCReloadFail ==
  /\ phase = 6 /\ phase' = 7
  /\ DoReload
  /\ last' = [a |-> "Reload", call |-> last.call, held |-> last.held, kind |-> last.kind]

\* after the reload the client cancels its streaming call, then makes it again
MCCancel ==
  /\ phase = 3 /\ phase' = 9
  /\ DoCancel(last.call, last.held)
  /\ last' = [a |-> "Cancel", call |-> last.call, held |-> last.held]

\* after a call, ANOTHER client makes the same request on the other user stream (a decision made for one
\* (client, resource, action) must not leak to a different triple)
MCOther(call) ==
  /\ phase = 1 /\ phase' = 8
  /\ call.c \in Callers /\ call.c # last.call.c /\ call.s \in UserStreams \ {last.call.s}
  /\ last.call.s \in UserStreams /\ last.call.cred = "verified"
  /\ call = [last.call EXCEPT !.c = call.c, !.s = call.s]
  /\ call.m \notin GroupMethods      \* their resource is the one group, whatever stream the request names
  /\ DoCall(call)
  /\ last' = [a |-> "Call", call |-> call, held |-> FALSE]

MCEdit ==
  /\ phase \in {1, 7} /\ phase' = 2
  /\ enforcer
  /\ DeepReload \/ policy = {} \/ policy = Entries
  \* (after a write that stopped half-way the corrected file holds the revision that was being written)
  \* the entry toggled is any of the entries the call needs (its own, or one a nested call needs)
  /\ \E e \in (IF phase = 7 /\ last.kind = "torn" THEN {EntryOf(last.call)} ELSE Needs(last.call)) :
       DoEditPolicy(IF phase = 7 /\ last.kind = "torn" THEN policyFile ELSE Toggle(policyFile, e))
  /\ \E how \in {"inplace", "rename"} : last' = [a |-> "EditPolicy", call |-> last.call, held |-> last.held, how |-> how]

MCReload ==
  /\ phase = 2 /\ phase' = 3
  /\ DoReload
  /\ last' = [a |-> "Reload", call |-> last.call, held |-> last.held]

MCNext ==
  \/ (phase \in {0, 2, 3, 9}) /\ \E call \in CallChoices : MCCall(call)
  \/ MCCancel
  \/ MCEdit
  \/ MCReload
  \/ (phase = 1 /\ last.call.s \in UserStreams) /\
       \E c \in Callers \ {last.call.c}, s \in UserStreams \ {last.call.s} : MCOther([last.call EXCEPT !.c = c, !.s = s])
  \/ MCBreak
  \/ MCReloadFail

MCSpec == MCInit /\ [][MCNext]_mcvars

\* design-check view: how the operator put the revision in place (`how`) is an instruction to the driver only
MCView == <<vars, phase, IF "how" \in DOMAIN last THEN [last EXCEPT !.how = "-"] ELSE last>>

\* (GroupAuthz = FALSE is the pinned variant of the group handlers: TLC then reports the unauthorised group call)
StepOK ==
  LET a == last' IN
  CASE a.a = "Call" -> P_Call(a.call) /\ P_Denial
    [] a.a = "EditPolicy" -> P_Edit
    [] a.a = "Reload" -> P_Reload
    [] a.a = "BreakFile" -> P_Edit
    [] a.a = "Cancel" -> policy' = policy
    [] OTHER -> TRUE
StepsOK == [][StepOK]_mcvars
=============================================================================
