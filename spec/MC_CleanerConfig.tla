------------------------- MODULE MC_CleanerConfig -------------------------
(* Stimulus generation for the configuration route: every step creates a   *)
(* stream with some server defaults and some overrides.                    *)
EXTENDS CleanerConfig, TLC
CONSTANTS Vals, MaxOps
VARIABLES last, nOps
Ovr == Vals \cup {Unset}
MCInit == last = [a |-> "Open"] /\ nOps = 0
MCNext ==
  /\ nOps < MaxOps /\ nOps' = nOps + 1
  /\ \E def \in [age : Vals, msgs : Vals, bytes : Vals, compact : BOOLEAN],
        ovr \in [age : Ovr, msgs : Ovr, bytes : Ovr, compact : {"unset", "true", "false"}] :
        last' = [a |-> "Route", def |-> def, ovr |-> ovr, eff |-> Effective(def, ovr)]
MCSpec == MCInit /\ [][MCNext]_<<last, nOps>>
=============================================================================
