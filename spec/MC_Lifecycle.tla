---------------------------- MODULE MC_Lifecycle ----------------------------
(* Bounded instance of Lifecycle: every sequence of at most MaxOps calls     *)
(* (every partition subset, both ResumeAll values, the three publish paths,  *)
(* subscriptions with and without Resume, the phases of a publish and of a   *)
(* Resume subscription with any other call in between, quiet periods,        *)
(* restarts, delete and re-creation) for every stream configuration.         *)
EXTENDS Lifecycle

CONSTANTS MaxOps, MaxMsgs, Paths, Gates, Cfgs, SubsetsOf
VARIABLES last, nOps, nmsg
mcvars == <<vars, last, nOps, nmsg>>

AllCfgs == {[auto |-> FALSE, dis |-> FALSE], [auto |-> TRUE, dis |-> FALSE], [auto |-> TRUE, dis |-> TRUE]}
NoAuto == {[auto |-> FALSE, dis |-> FALSE]}
AllPaths == {"sync", "async", "subject"}
SyncOnly == {"sync"}
AllGates == {"checked", "applied", "resumed"}
NoGates == {}
PartSets == SUBSET Parts          \* {} = all partitions (as the API treats an empty list)

Step(a) == nOps < MaxOps /\ nOps' = nOps + 1 /\ last' = a
Msg == nmsg < MaxMsgs /\ nmsg' = nmsg + 1
NoMsg == nmsg' = nmsg

MCInit == /\ \E c \in Cfgs : InitWith(c)
          /\ last = [a |-> "Open"] /\ nOps = 0 /\ nmsg = 0

MCPublish(p, path) == Msg /\ DoPublish(p, path, nmsg + 1) /\ Step([a |-> "Publish", p |-> p, path |-> path, m |-> nmsg + 1])
MCPubStart(p, g) == Msg /\ DoPubStart(p, g, nmsg + 1) /\ Step([a |-> "PubStart", p |-> p, gate |-> g, m |-> nmsg + 1])
MCPubEnd == NoMsg /\ DoPubEnd /\ Step([a |-> "PubEnd"])
MCSub(s, p, r) == NoMsg /\ DoSub(s, p, r) /\ Step([a |-> "Sub", s |-> s, p |-> p, resume |-> r])
MCSubStart(s, p) == NoMsg /\ DoSubStart(s, p) /\ Step([a |-> "SubStart", s |-> s, p |-> p])
MCSubEnd == NoMsg /\ DoSubEnd /\ Step([a |-> "SubEnd"])
MCUnsub(s) == NoMsg /\ DoUnsub(s) /\ Step([a |-> "Unsub", s |-> s])
MCPause(Q, ra) == NoMsg /\ DoPause(Q, ra) /\ Step([a |-> "Pause", ps |-> Q, ra |-> ra])
MCReadonly(Q, b) == NoMsg /\ DoReadonly(Q, b) /\ Step([a |-> "Readonly", ps |-> Q, b |-> b])
MCDelete == NoMsg /\ DoDelete /\ Step([a |-> "Delete"])
MCCreate == NoMsg /\ ~exists /\ DoCreate /\ Step([a |-> "Create"])
MCIdle == NoMsg /\ cfg.auto /\ DoIdle /\ Step([a |-> "Idle"])
MCRestart(sn) == NoMsg /\ DoRestart(sn) /\ Step([a |-> "Restart", snap |-> sn])
MCWait == NoMsg /\ cfg.auto /\ last.a # "Wait" /\ DoWait /\ Step([a |-> "Wait"])

MCNext ==
  \/ \E p \in Parts, path \in Paths : MCPublish(p, path)
  \/ \E p \in Parts, g \in Gates : MCPubStart(p, g)
  \/ MCPubEnd
  \/ \E s \in SubIds, p \in Parts, r \in BOOLEAN : MCSub(s, p, r)
  \/ (Gates # {} /\ \E s \in SubIds, p \in Parts : MCSubStart(s, p))
  \/ MCSubEnd
  \/ \E s \in SubIds : MCUnsub(s)
  \/ \E Q \in SubsetsOf, ra \in BOOLEAN : MCPause(Q, ra)
  \/ \E Q \in SubsetsOf, b \in BOOLEAN : MCReadonly(Q, b)
  \/ MCDelete \/ MCCreate \/ MCIdle \/ MCWait
  \/ \E sn \in BOOLEAN : MCRestart(sn)

MCSpec == MCInit /\ [][MCNext]_mcvars

StepOK ==
  LET a == last' IN
  CASE a.a = "Publish" -> P_Publish(a.p, a.path, a.m)
    [] a.a = "PubStart" -> P_PubStart(a.p, a.gate, a.m)
    [] a.a = "PubEnd" -> P_PubEnd
    [] a.a = "Sub" -> P_Sub(a.s, a.p, a.resume)
    [] a.a = "SubEnd" -> P_SubEnd
    [] a.a = "Unsub" -> P_Unsub
    [] a.a = "Pause" -> P_Pause(a.ps, a.ra)
    [] a.a = "Readonly" -> P_Readonly(a.ps, a.b)
    [] a.a = "Delete" -> P_Delete
    [] a.a = "Create" -> P_Create
    [] a.a = "Idle" -> P_Idle
    [] a.a = "Restart" -> P_Restart
    [] a.a = "Wait" -> P_Wait
    [] OTHER -> TRUE
StepsOK == [][StepOK]_mcvars
\* (expected to fail: a snapshot does not carry ResumeAll - the counterexample is replayed on the real server)
RestartKeepsResumeAll == [][last'.a = "Restart" => P_RestartResumeAll]_mcvars

MCView == <<vars, nOps, nmsg>>
=============================================================================
