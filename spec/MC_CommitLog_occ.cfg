SPECIFICATION MCSpec
CONSTANTS
  MaxRecs = 4
  MaxBatch = 1
  MaxOps = 6
  MaxEpoch = 2
  CapSet = {2, 3}
  OccSet = {TRUE}
  UseReaders = FALSE
INVARIANTS TypeOK C01_Ordered C01_Dense
PROPERTIES StepsOK ReaderMonotone
VIEW MCView
CHECK_DEADLOCK FALSE
