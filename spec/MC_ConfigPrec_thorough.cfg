SPECIFICATION MCSpec
CONSTANTS
  SageFix = TRUE
  FocusSize = 2
  MaxOps = 2
  Streams = {1, 2}
  ChangeOne = FALSE
INVARIANTS TypeOK X07_Effective SrvIsFile
PROPERTIES StepsOK
VIEW MCView
CHECK_DEADLOCK FALSE
