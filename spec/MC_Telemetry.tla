---------------------------- MODULE MC_Telemetry ----------------------------
(* Bounded instance of Telemetry.tla: every route combination (54) x every  *)
(* life-cycle interleaving with at most MaxTicks interval expiries.         *)
EXTENDS Telemetry, TLC
CONSTANTS MaxTicks
VARIABLES last, nTicks
mcvars == <<vars, last, nTicks>>

MCInit == Init /\ last = [a |-> "Open"] /\ nTicks = 0
Step(a) == last' = [a |-> a]
MCNext ==
  \/ DoLoadConfig /\ Step("LoadConfig") /\ UNCHANGED nTicks
  \/ DoStart /\ Step("Start") /\ UNCHANGED nTicks
  \/ DoUserData /\ ~userData /\ Step("UserData") /\ UNCHANGED nTicks
  \/ DoAge /\ Step("Age") /\ UNCHANGED nTicks
  \/ nTicks < MaxTicks /\ DoTick /\ Step("Tick") /\ nTicks' = nTicks + 1
  \/ DoStop /\ Step("Stop") /\ UNCHANGED nTicks
MCSpec == MCInit /\ [][MCNext]_mcvars
MCView == <<vars, nTicks>>
=============================================================================
