------------------------------ MODULE Encryption ------------------------------
(* C17 - encrypted streams never store plaintext and always return it.      *)
(*                                                                          *)
(* Two parts.                                                               *)
(*                                                                          *)
(* 1. CODEC (server/encryption/localkey_handler.go): a decision-table       *)
(*    transcription over an ABSTRACT stored form, in the style of           *)
(*    Envelope.tla.  `Seal` writes                                          *)
(*        | KS | WK ............ | NONCE ...... | CT ........ | TAG ...... |*)
(*        | 1  | 40              | 12           | len(value)  | 16         |*)
(*    KS = length of WK, WK = the handler's 32-byte data key wrapped under  *)
(*    the master key (AES-KWP, RFC 5649: 32 + 8 bytes), NONCE random,       *)
(*    CT+TAG = AES-256-GCM of the value under the data key.  `Read` is      *)
(*    transcribed branch by branch (ReadT).  What the code can distinguish  *)
(*    in a byte string is                                                   *)
(*        len   number of bytes                                             *)
(*        ks    byte 0                                                      *)
(*        wk    "ok": bytes [1, 1+ks) are a valid AES-KWP wrapping, under   *)
(*              the READER's master key, of some key of `dek` bytes         *)
(*        body  "ok": bytes [1+ks, len) are nonce + AES-GCM ciphertext +    *)
(*              tag valid under that key                                    *)
(*    ASSUMPTION (ideal authenticated encryption, stated in the check's     *)
(*    level_note): a byte string that was not produced by wrapping/sealing  *)
(*    under a key is not valid under that key, and ciphertext bytes are     *)
(*    unrelated to the plaintext.  The cryptographic strength of AES-GCM    *)
(*    and AES-KWP is NOT decided here; what is decided is the framing: that *)
(*    every byte of the stored form is covered by one of the two checks,    *)
(*    that no malformed length crashes or yields data, and that a different *)
(*    master key can never yield data.  `Abs(c, n)` maps every corruption   *)
(*    case c of a sealed value of n bytes to the abstract input it yields.  *)
(*                                                                          *)
(* 2. PIPELINE (server/partition.go messageProcessingLoop / subscribe loop, *)
(*    newPartition): the life of published values on a running server with  *)
(*    one encrypted and one plain stream: publish in batches (seal before   *)
(*    append, a failed seal is a negative ack and nothing is stored), raw   *)
(*    log contents, subscribers (read before delivery, an unreadable entry  *)
(*    ends the subscription with an error), pause/resume and restart (the   *)
(*    partition gets a new handler with the master key that is in the       *)
(*    environment THEN), change of the environment, tampering on disk.      *)
(*    The stream may be replicated (Replicas): replication carries the      *)
(*    stored form, every replica has its own partition object and handler,  *)
(*    a subscriber may be served by an in-sync follower, the leadership may  *)
(*    move to another replica, which then seals.                            *)
(*    Whether a stream is encrypted is part of the stream's metadata, which *)
(*    every server keeps in its Raft state machine and PERSISTS in two      *)
(*    forms: the CREATE entry of the Raft log and, once a snapshot is taken, *)
(*    the snapshot.  A partition object - and with it the handler - is      *)
(*    rebuilt from the metadata on resume, on restart (from the latest      *)
(*    snapshot if there is one, else by replaying the log) and when a       *)
(*    running server installs a snapshot (Raft restore).                    *)
EXTENDS Integers, Sequences, FiniteSets

CONSTANTS BoundsChecked,   \* TRUE: Read as repaired (fix: commit); FALSE: as pinned (index/slice panics)
          Masks,           \* xor masks applied to every byte position of a region
          KSValues         \* key-size byte values tried in place of the genuine one

-----------------------------------------------------------------------------
(* layout *)
DekLen   == 32
NonceLen == 12
TagLen   == 16
WrapSize(d) == d + (7 - ((d + 7) % 8)) + 8        \* AES-KWP output size for a d-byte key
WKLen    == WrapSize(DekLen)                      \* 40
Overhead == 1 + WKLen + NonceLen + TagLen         \* 69
StoredLen(n) == Overhead + n
MinWrap  == WrapSize(16)                          \* 24: smallest wrapping tink accepts

RegionLen(r, n) ==
  CASE r = "KS" -> 1 [] r = "WK" -> WKLen [] r = "NONCE" -> NonceLen [] r = "CT" -> n
    [] r = "TAG" -> TagLen [] r = "BODY" -> NonceLen + n + TagLen [] r = "END" -> 1 [] OTHER -> 0
RegionStart(r, n) ==
  CASE r = "KS" -> 0 [] r = "WK" -> 1 [] r = "NONCE" -> 1 + WKLen [] r = "CT" -> 1 + WKLen + NonceLen
    [] r = "TAG" -> 1 + WKLen + NonceLen + n [] r = "BODY" -> 1 + WKLen [] r = "END" -> StoredLen(n) [] OTHER -> 0

-----------------------------------------------------------------------------
(* outcomes of Read *)
Ok         == [k |-> "Ok",    why |-> ""]
Err(why)   == [k |-> "Err",   why |-> why]
Crash(why) == [k |-> "Crash", why |-> why]
\* a malformed length: error in the repaired code, index/slice panic in the pinned code
Frame(why) == IF BoundsChecked THEN Err("frame") ELSE Crash(why)

(* LocalEncryptionHandler.Read, branch by branch, in code order: key size   *)
(* byte, slice of the wrapped key, KWP.Unwrap (size tests, then integrity), *)
(* aes.NewCipher(dek), nonce slice, gcm.Open.                               *)
ReadT(i) ==
  IF i.len = 0 THEN Frame("encryptedData[0]")
  ELSE IF 1 + i.ks > i.len THEN Frame("encryptedData[1:keyEndPos]")
  ELSE IF i.ks < MinWrap \/ i.ks % 8 # 0 THEN Err("kwp")
  ELSE IF i.wk # "ok" THEN Err("kwp")
  ELSE IF i.dek \notin {16, 24, 32} THEN Err("aes")
  ELSE IF i.len - 1 - i.ks < NonceLen THEN Frame("encryptedData[:nonceSize]")
  ELSE IF i.len - 1 - i.ks < NonceLen + TagLen THEN Err("gcm")
  ELSE IF i.body # "ok" THEN Err("gcm")
  ELSE Ok

\* what Seal writes for a value of n bytes
Genuine(n) == [len |-> StoredLen(n), ks |-> WKLen, wk |-> "ok", dek |-> DekLen, body |-> "ok"]

-----------------------------------------------------------------------------
(* Corruption cases of a genuine stored form.  c = [cor, reg, p, key, q]:   *)
(*   none                    untouched                                      *)
(*   setks   KS   p          the key size byte replaced by p                *)
(*   flip    r    p          every single byte of region r xor mask p       *)
(*   drop    r    p          every single byte of region r removed (r = KS: *)
(*                           p = the byte that becomes byte 0)              *)
(*   insert  r    p          byte p inserted before every position of r     *)
(*                           (END: appended)                                *)
(*   trunc   -    p          cut to p bytes                                 *)
(*   extend  -    p          p bytes appended                               *)
(*   swap    r    p          region r replaced by the same region of        *)
(*                           another stored form: p = 1 another message of  *)
(*                           the same handler, 2 a message of another       *)
(*                           handler with the same master key (other data   *)
(*                           key), 3 a message sealed under another master  *)
(*                           key                                            *)
(*   foreign -    p          a form built independently with a data key of  *)
(*                           p bytes wrapped under the same master key      *)
(* key: who reads.  same = the sealing handler; twin = another handler      *)
(* created with the same master key bytes (restart); stale = the sealing    *)
(* handler after the environment variable was changed; other = a handler    *)
(* created under a different master key: q = 1 another key of the same      *)
(* length, 2 a key of the other length, 3 every single-byte alteration of   *)
(* the master key, 4 the environment variable changed while the sealing     *)
(* handler is alive and a new handler created.                              *)
Case(cor, reg, p, key, q) == [cor |-> cor, reg |-> reg, p |-> p, key |-> key, q |-> q]

KeyHeld(key) == key \in {"same", "twin", "stale"}     \* the reader holds the sealing master key

Bad(g) == [g EXCEPT !.wk = "bad", !.dek = 0, !.body = "bad"]

Abs(c, n) ==
  LET L == StoredLen(n)
      g == Genuine(n)
      base ==
        CASE c.cor = "none"   -> g
          [] c.cor = "setks"  -> [Bad(g) EXCEPT !.ks = c.p]
          [] c.cor = "flip"   -> IF c.reg = "WK" THEN Bad(g) ELSE [g EXCEPT !.body = "bad"]
          [] c.cor = "drop"   -> IF c.reg = "KS" THEN [Bad(g) EXCEPT !.len = L - 1, !.ks = c.p]
                                 ELSE IF c.reg = "WK" THEN [Bad(g) EXCEPT !.len = L - 1]
                                 ELSE [g EXCEPT !.len = L - 1, !.body = "bad"]
          [] c.cor = "insert" -> IF c.reg = "KS" THEN [Bad(g) EXCEPT !.len = L + 1, !.ks = c.p]
                                 ELSE IF c.reg = "WK" THEN [Bad(g) EXCEPT !.len = L + 1]
                                 ELSE [g EXCEPT !.len = L + 1, !.body = "bad"]
          [] c.cor = "trunc"  -> IF c.p >= 1 + WKLen THEN [g EXCEPT !.len = c.p, !.body = "bad"]
                                 ELSE [Bad(g) EXCEPT !.len = c.p]
          [] c.cor = "extend" -> [g EXCEPT !.len = L + c.p, !.body = "bad"]
          [] c.cor = "swap"   -> IF c.reg = "WK" /\ c.p = 3 THEN Bad(g) ELSE [g EXCEPT !.body = "bad"]
          [] c.cor = "foreign" -> [len |-> 1 + WrapSize(c.p) + NonceLen + n + TagLen, ks |-> WrapSize(c.p),
                                   wk |-> "ok", dek |-> c.p, body |-> "ok"]
  IN IF KeyHeld(c.key) THEN base ELSE [base EXCEPT !.wk = "bad", !.dek = 0]

\* truncation lengths: every length for small values, else the region boundaries +-2
TruncSet(n) ==
  LET L == StoredLen(n)
      B == {0, 1, 1 + WKLen, 1 + WKLen + NonceLen, 1 + WKLen + NonceLen + n, L}
  IN {t \in 0..(L - 1) : n <= 64 \/ \E b \in B : t - b \in -2..2}

SwapCases(n) ==
  {<<"WK", 2>>, <<"WK", 3>>, <<"NONCE", 1>>, <<"NONCE", 2>>, <<"TAG", 1>>, <<"TAG", 2>>, <<"BODY", 2>>, <<"BODY", 3>>}
  \cup (IF n >= 1 THEN {<<"CT", 1>>, <<"CT", 2>>} ELSE {})

Cases(n) ==
       {Case("none", "-", 0, key, 0) : key \in {"same", "twin", "stale"}}
  \cup {Case("none", "-", 0, "other", q) : q \in 1..4}
  \cup {Case("setks", "KS", p, "same", 0) : p \in KSValues \ {WKLen}}
  \cup {Case("flip", r, m, key, 0) : r \in {"WK", "NONCE", "CT", "TAG"}, m \in Masks, key \in {"same", "twin"}}
  \cup {Case("drop", r, 0, "same", 0) : r \in {"WK", "NONCE", "CT", "TAG"}}
  \cup {Case("drop", "KS", p, "same", 0) : p \in 0..255}
  \cup {Case("insert", "KS", p, "same", 0) : p \in {0, 24, WKLen, 48, 255}}
  \cup {Case("insert", r, p, "same", 0) : r \in {"WK", "NONCE", "CT", "TAG", "END"}, p \in {0, 255}}
  \cup {Case("trunc", "-", t, "same", 0) : t \in TruncSet(n)}
  \cup {Case("extend", "-", p, "same", 0) : p \in {1, 16}}
  \cup {Case("swap", x[1], x[2], "same", 0) : x \in SwapCases(n)}
  \cup {Case("foreign", "-", d, "same", 0) : d \in {16, 20, 24, 32}}
  \cup {Case("foreign", "-", 32, "other", 1)}

\* the key under which cases of one value are compared with what the harness executed:
\* the first byte after dropping byte 0 is a random byte of the wrapped key
CaseKey(c) == IF c.cor = "drop" /\ c.reg = "KS" THEN [c EXCEPT !.p = 0] ELSE c

\* number of concrete byte strings a case stands for (every position of the region)
Positions(c, n) ==
  CASE c.cor = "flip" -> RegionLen(c.reg, n)
    [] c.cor = "drop" -> RegionLen(c.reg, n)
    [] c.cor = "insert" -> RegionLen(c.reg, n)
    [] OTHER -> 1

-----------------------------------------------------------------------------
(* What the property statement demands of Read (P level): never a crash,    *)
(* never bytes other than the value ("Data"), the value for an untouched    *)
(* form read with the sealing master key, an error for every tampered form  *)
(* and for every other master key.  Silent on WHICH error, and on forms     *)
(* that a different but correct implementation produced (foreign).          *)
Untouched(c) == c.cor = "none"
P_Read(o, c) ==
  /\ o.k \notin {"Crash", "Data"}
  /\ (Untouched(c) /\ c.key \in {"same", "twin"}) => o.k = "Ok"
  /\ (~Untouched(c) /\ c.cor # "foreign") => o.k = "Err"
  /\ c.key = "other" => o.k = "Err"

(* Seal.  s = [ok, len, contains, equal, leak, fresh, frame].  `contains`:  *)
(* the stored bytes contain the value; `equal`: they are the value; `leak`  *)
(* (values of 1..15 bytes, for which containment by chance is possible):    *)
(* the value occurs at one and the same offset in every one of 8            *)
(* independent seals while a different value of the same length does not.   *)
P_Seal(s, n) ==
  /\ s.k # "Crash"
  /\ s.k = "Ok" => /\ n >= 16 => ~s.contains
                   /\ n >= 1 => ~s.equal
                   /\ n \in 1..15 => ~s.leak
SealT(n) == [k |-> "Ok", len |-> StoredLen(n), contains |-> (n = 0), equal |-> FALSE, leak |-> FALSE, fresh |-> TRUE,
             frame |-> [ks |-> WKLen, wk |-> "ok", dek |-> DekLen, body |-> "ok", same |-> TRUE]]

\* NewLocalEncryptionHandler under a master key of m bytes
NewT(m) == m \in {16, 32}

-----------------------------------------------------------------------------
(* PIPELINE *)
CONSTANTS Keys,            \* valid master keys, e.g. {"k1", "k2"}; "bad" = unset / wrong length
          Replicas,        \* servers holding a replica of both streams, e.g. {"a"} or {"a", "b"}
          SnapKeeps        \* TRUE (every registered cfg): a metadata snapshot carries the stream's encryption
                           \* setting.  FALSE = defective variant of that one decision, used as a generator of
                           \* directed scenarios (its counterexamples are replayed on the real code)

Streams == {"enc", "plain"}
Classes == {"empty", "short", "long"}     \* 0 bytes, 1..15 bytes, >= 16 bytes

VARIABLES up,       \* every server process is alive
          env,      \* master key in the environment variable: a key of Keys or "bad"
          lead,     \* per stream: the replica that leads the partition
          hk,       \* per replica, per stream: master key of the handler of that server's partition object
                    \* ("none": no handler).  EVERY replica of an encrypted stream has one: it may have to
                    \* serve subscribers (ReadISRReplica) and may become the leader.
          paused,   \* per stream
          log,      \* per replica, per stream: what that server's partition log holds, entries [v, k, clear]:
                    \*   v value id it carries (0: none), k master key it opens under / "plain" / "none",
                    \*   clear: the raw stored value contains (>= 16 bytes) or equals (>= 1 byte) a published value
          menc,     \* per replica, per stream: that server's metadata says the stream is encrypted (the stream
                    \* configuration over the server default) - what the next partition object is built from
          snap,     \* per replica, per stream: what the latest persisted metadata snapshot of that server says:
                    \* "none" (no snapshot, or one that does not know the stream), "on", "off"
          obs       \* observable result of the last call

vars == <<up, env, lead, hk, paused, log, menc, snap, obs>>

Reps == DOMAIN hk          \* the replica set of the behaviour at hand (a recorded behaviour brings its own)

Entry(v, k, clear) == [v |-> v, k |-> k, clear |-> clear]

Init ==
  /\ up = TRUE /\ env \in Keys
  /\ lead \in [Streams -> Replicas]
  /\ hk = [r \in Replicas |-> [s \in Streams |-> IF s = "enc" THEN env ELSE "none"]]
  /\ paused = [s \in Streams |-> FALSE]
  /\ log = [r \in Replicas |-> [s \in Streams |-> <<>>]]
  /\ menc = [r \in Replicas |-> [s \in Streams |-> s = "enc"]]
  /\ snap = [r \in Replicas |-> [s \in Streams |-> "none"]]
  /\ obs = [a |-> "Open"]

\* the handler a partition object of stream s gets when server r builds it from metadata saying `on`
Built(on) == IF on THEN env ELSE "none"

\* the values of a batch that are not hit by an injected seal failure, in order
Keep(vals, fails) ==
  LET F[i \in 0..Len(vals)] == IF i = 0 THEN <<>> ELSE IF i \in fails THEN F[i - 1] ELSE Append(F[i - 1], vals[i])
  IN F[Len(vals)]

(* messageProcessingLoop of the LEADER: every message of a batch is sealed  *)
(* on its own with the leader's handler (three code sites: first message,   *)
(* drained message, awaited message), a seal error is answered with a       *)
(* negative ack and the message is skipped, the rest is appended.  An       *)
(* unencrypted partition appends verbatim.  Replication carries the stored  *)
(* form: once the publish is acknowledged by all replicas, every replica's  *)
(* log has the same new entries.                                            *)
DoPublish(s, vals, fails) ==
  /\ up /\ ~paused[s]
  /\ (s = "plain" => fails = {})
  /\ LET acc == Keep(vals, fails)
         k == IF hk[lead[s]][s] = "none" THEN "plain" ELSE hk[lead[s]][s]      \* no handler: appended verbatim
         new == [j \in 1..Len(acc) |-> Entry(acc[j].id, k, k = "plain" /\ acc[j].cls # "empty")] IN
     log' = [r \in Reps |-> [log[r] EXCEPT ![s] = @ \o new]]
  /\ obs' = [a |-> "Publish", acks |-> [i \in 1..Len(vals) |-> IF i \in fails THEN "nack" ELSE "ack"]]
  /\ UNCHANGED <<up, env, lead, hk, paused, menc, snap>>

P_Publish(s, vals, fails) ==
  LET acc == Keep(vals, fails) IN
  /\ up'
  /\ obs'.acks = [i \in 1..Len(vals) |-> IF i \in fails THEN "nack" ELSE "ack"]   \* seal failure <=> negative ack
  /\ \A r \in Reps :
       /\ Len(log'[r][s]) = Len(log[r][s]) + Len(acc)                             \* ... and nothing stored for it
       /\ SubSeq(log'[r][s], 1, Len(log[r][s])) = log[r][s]
       /\ \A t \in Streams \ {s} : log'[r][t] = log[r][t]
       /\ s = "enc" => \A j \in (Len(log[r][s]) + 1)..Len(log'[r][s]) : ~log'[r][s][j].clear
  /\ UNCHANGED <<env, lead, hk, paused>>     \* (menc, snap: implementation level)

\* the entries a subscriber served by replica `at` can be given: the handler of that server's partition opens them
Readable(s, at, e) == s = "plain" \/ (e.k = hk[at][s] /\ hk[at][s] \in Keys)
Lead(s, at, tail) == CHOOSE m \in 0..Len(tail) : /\ \A j \in 1..m : Readable(s, at, tail[j])
                                                 /\ m = Len(tail) \/ ~Readable(s, at, tail[m + 1])

(* a subscriber from offset `from`, served by replica `at` (the leader, or  *)
(* an in-sync follower when the subscriber opts in with ReadISRReplica):    *)
(* forward up to the newest message, or in reverse down to the oldest (the  *)
(* read path of the cursors stream): every entry is Read before delivery;   *)
(* the first entry that cannot be read ends the subscription with an error  *)
Rev(q) == [j \in 1..Len(q) |-> q[Len(q) + 1 - j]]
Range(s, at, from, rev) == IF rev THEN Rev(SubSeq(log[at][s], 1, from + 1)) ELSE SubSeq(log[at][s], from + 1, Len(log[at][s]))

\* as the code does it: a partition WITHOUT handler hands out the stored bytes as they are (the value for an
\* entry stored verbatim, bytes that are no published value - id 0 - for a sealed one)
DoSubscribe(s, from, rev, at) ==
  /\ up /\ ~paused[s] /\ at \in Reps /\ from \in 0..(Len(log[at][s]) - 1)
  /\ LET tail == Range(s, at, from, rev)
         m == IF hk[at][s] = "none" THEN Len(tail) ELSE Lead(s, at, tail) IN
     obs' = [a |-> "Subscribe",
             got |-> [j \in 1..m |-> IF hk[at][s] = "none" /\ tail[j].k # "plain" THEN 0 ELSE tail[j].v],
             end |-> IF m < Len(tail) THEN "err" ELSE "eos"]
  /\ UNCHANGED <<up, env, lead, hk, paused, log, menc, snap>>

\* exactly the published values, in order, up to the first entry that is tampered / under another
\* master key, where the subscription ends with an error and delivers nothing further - whichever
\* replica serves the subscriber
P_Subscribe(s, from, rev, at) ==
  /\ up'
  /\ LET tail == Range(s, at, from, rev)
         m == Lead(s, at, tail) IN
     /\ obs'.got = [j \in 1..m |-> tail[j].v]
     /\ obs'.end = (IF m < Len(tail) THEN "err" ELSE "eos")
  /\ UNCHANGED <<env, lead, hk, paused, log>>

DoPause(s) ==
  /\ up /\ ~paused[s]
  /\ paused' = [paused EXCEPT ![s] = TRUE]
  /\ obs' = [a |-> "Pause"]
  /\ UNCHANGED <<up, env, lead, hk, log, menc, snap>>

\* resume replaces the partition object on every replica: new handlers are built from that server's metadata
\* and the environment
DoResume(s) ==
  /\ up /\ paused[s] /\ env \in Keys
  /\ paused' = [paused EXCEPT ![s] = FALSE]
  /\ hk' = [r \in Reps |-> [hk[r] EXCEPT ![s] = Built(menc[r][s])]]
  /\ obs' = [a |-> "Resume"]
  /\ UNCHANGED <<up, env, lead, log, menc, snap>>

\* the environment variable changes; handlers that exist keep the key they were built with
DoSetEnv(k) ==
  /\ env' = k
  /\ obs' = [a |-> "SetEnv"]
  /\ UNCHANGED <<up, lead, hk, paused, log, menc, snap>>

\* what a metadata snapshot taken by server r now says about stream s
SnapNow(r, s) == IF menc[r][s] /\ SnapKeeps THEN "on" ELSE "off"

\* server r persists a snapshot of its metadata (Raft log compaction: threshold reached, or forced)
DoSnapshot(r) ==
  /\ up /\ r \in Reps
  /\ snap' = [snap EXCEPT ![r] = [s \in Streams |-> SnapNow(r, s)]]
  /\ obs' = [a |-> "Snapshot"]
  /\ UNCHANGED <<up, env, lead, hk, paused, log, menc>>

\* every server stopped and started again on the same data directory.  The metadata is recovered from the
\* latest snapshot when it knows the stream (entries behind the snapshot are replayed on top of it; none of them
\* changes the encryption setting), else by replaying the Raft log from the CREATE entry (which carries the
\* configuration the stream was created with).  Every partition object is built anew.
Recovered(r, s) == IF snap[r][s] = "none" THEN menc[r][s] ELSE snap[r][s] = "on"
DoRestart ==
  /\ up /\ env \in Keys
  /\ menc' = [r \in Reps |-> [s \in Streams |-> Recovered(r, s)]]
  /\ hk' = [r \in Reps |-> [s \in Streams |-> Built(menc'[r][s])]]
  /\ obs' = [a |-> "Restart"]
  /\ UNCHANGED <<up, env, lead, paused, log, snap>>

\* a RUNNING server r takes a snapshot of its metadata and installs it (Raft restore: what a server does that
\* was sent a snapshot because it lagged behind the log, or an operator restoring a backup): the metadata is
\* dropped and rebuilt from the snapshot, every partition object of that server is closed and built anew
DoInstall(r) ==
  /\ up /\ r \in Reps /\ env \in Keys
  /\ snap' = [snap EXCEPT ![r] = [s \in Streams |-> SnapNow(r, s)]]
  /\ menc' = [menc EXCEPT ![r] = [s \in Streams |-> snap'[r][s] = "on"]]
  /\ hk' = [hk EXCEPT ![r] = [s \in Streams |-> Built(menc'[r][s])]]
  /\ obs' = [a |-> "Install"]
  /\ UNCHANGED <<up, env, lead, paused, log>>

\* the partition gets another leader from the in-sync replicas (the follower reported the leader):
\* roles change, the partition objects - and their handlers - stay
DoLeaderChange(s) ==
  /\ up /\ ~paused[s] /\ Cardinality(Reps) > 1
  /\ \E r \in Reps \ {lead[s]} : lead' = [lead EXCEPT ![s] = r]
  /\ obs' = [a |-> "LeaderChange"]
  /\ UNCHANGED <<up, env, hk, paused, log, menc, snap>>

\* a byte of the stored value of entry j of the encrypted stream is altered in a segment file of replica r
DoTamper(r, j) ==
  /\ up /\ ~paused["enc"] /\ r \in Reps /\ j \in 1..Len(log[r]["enc"])
  /\ log' = [log EXCEPT ![r]["enc"][j] = Entry(0, "none", FALSE)]
  /\ obs' = [a |-> "Tamper"]
  /\ UNCHANGED <<up, env, lead, hk, paused, menc, snap>>

\* a request to create a further encrypted stream is refused unless a valid master key is configured
DoCreateProbe ==
  /\ up
  /\ obs' = [a |-> "CreateProbe", ok |-> env \in Keys]
  /\ UNCHANGED <<up, env, lead, hk, paused, log, menc, snap>>

P_Quiet == up' /\ log' = log          \* pause / resume / restart / snapshot / install / leader change / set-env / probe neither lose nor add anything
P_Tamper == up' /\ \A r \in Reps : \A s \in Streams : Len(log'[r][s]) = Len(log[r][s])

-----------------------------------------------------------------------------
(* state invariants *)
C17_NoPlaintext == \A r \in Reps : \A j \in 1..Len(log[r]["enc"]) : ~log[r]["enc"][j].clear
C17_ServerUp == up

TypeOK ==
  /\ up \in BOOLEAN /\ env \in Keys \cup {"bad"}
  /\ \A s \in Streams : lead[s] \in Reps
  /\ \A r \in Reps : hk[r]["enc"] \in Keys /\ hk[r]["plain"] = "none"
  /\ \A s \in Streams : paused[s] \in BOOLEAN
  /\ \A r \in Reps : \A s \in Streams : \A j \in 1..Len(log[r][s]) : log[r][s][j].k \in Keys \cup {"plain", "none"}
  /\ \A r \in Reps : \A s \in Streams : menc[r][s] = (s = "enc") /\ snap[r][s] \in {"none", IF s = "enc" THEN "on" ELSE "off"}
=============================================================================
