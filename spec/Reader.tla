----------------------------- MODULE Reader -----------------------------
(***************************************************************************)
(* Committed readers of one commit log against concurrent appends, segment *)
(* rolls, high-watermark advances and read-only toggles (property C03).    *)
(* pc-level model of                                                       *)
(*   server/commitlog/reader.go     committedReader.Read / readLoop /      *)
(*                                  waitForHW, newReaderCommitted          *)
(*   server/commitlog/commitlog.go  Append, checkAndPerformSplit, split,   *)
(*                                  SetHighWatermark, notifyHWChange,      *)
(*                                  waitForHW, SetReadonly, notifyReadonly *)
(*                                                                         *)
(* One action per critical section (= per acquisition of the log lock, the *)
(* segment lock or an atomic).  Every action boundary is a `verifGate`     *)
(* point in the code (build tag verif), so a behaviour of this module can  *)
(* be replayed 1:1 on the real code: a goroutine is parked at the gate     *)
(* named by its pc and released when the behaviour takes its next step.    *)
(*                                                                         *)
(*   cfg     [cap, atomic]  records per segment; atomic = split() performs *)
(*           the CAS on the active segment and the append to the segment   *)
(*           list under one acquisition of the log lock (the repaired      *)
(*           code); FALSE = CAS first, list append later (two steps)       *)
(*   segs    every segment file ever created, in creation order:           *)
(*           [base, n] (n records written: offsets base .. base+n-1)       *)
(*   active  index of the active segment (atomic pointer vActiveSegment)   *)
(*   listed  l.segments: sequence of indices into segs                     *)
(*   hw, ro  high watermark, read-only flag                                *)
(*   wait    hwWaiters: readers registered and blocked                     *)
(*   app     the (single) appender   [pc, new, res]  (Append; the follower *)
(*           path AppendMessageSet is the one-step action DoAppSet)        *)
(*   rol     the cleaner loop's checkAndPerformSplit   [pc, new]           *)
(*   tog     SetReadonly caller      [pc]                                  *)
(*   rd      committed readers, local state of committedReader (pc = new: *)
(*           inside NewReader, h = the HW snapshot it loaded):             *)
(*           [pc, seg, pos, hwSeg, hwPos, rhw, h, park, start, err]        *)
(*   del     history: offsets delivered to each reader, in order           *)
(*                                                                         *)
(* Records have unit size; content is judged by the C01 check.  The local  *)
(* `segments` snapshot of Read/readLoop is dead at every action boundary   *)
(* (it is re-taken at the start of Read and after every HW sync), so it is *)
(* not a state variable.  A buffered channel send + the receive in the     *)
(* woken reader is one step (the receive touches no shared state).         *)
(***************************************************************************)
EXTENDS Integers, Sequences, FiniteSets

\* NewLoads: how many times newReaderCommitted loads the HW (1 = the code; 2 = defective variant, see RNew)
CONSTANT NewLoads

VARIABLES cfg, segs, active, listed, hw, ro, wait, app, rol, tog, rd, del
vars == <<cfg, segs, active, listed, hw, ro, wait, app, rol, tog, rd, del>>

Readers == {"r1", "r2"}

NoReader == [pc |-> "none", seg |-> 0, pos |-> -1, hwSeg |-> 0, hwPos |-> -1, rhw |-> -1,
             h |-> -1, park |-> FALSE, start |-> -1, err |-> ""]

-----------------------------------------------------------------------------
(* Helpers *)

Last(s) == s[Len(s)]
NextOffset(S, k) == S[k].base + S[k].n
Newest == NextOffset(segs, active) - 1               \* activeSegment().NextOffset() - 1
Full(k) == segs[k].n >= cfg.cap                        \* CheckSplit (MaxSegmentAge = 0)
FileExists(b) == \E k \in 1..Len(segs) : segs[k].base = b
InSeq(x, s) == \E i \in 1..Len(s) : s[i] = x

\* findSegment: first listed segment whose next offset is greater than o (0 = nil)
FindSeg(S, sn, o) ==
  LET I == {i \in 1..Len(sn) : NextOffset(S, sn[i]) > o}
  IN IF I = {} THEN 0 ELSE sn[CHOOSE i \in I : \A j \in I : i <= j]

\* findSegmentByBaseOffset: first listed segment with base >= b (0 = nil)
NextByBase(S, sn, b) ==
  LET I == {i \in 1..Len(sn) : S[sn[i]].base >= b}
  IN IF I = {} THEN 0 ELSE sn[CHOOSE i \in I : \A j \in I : i <= j]

\* position (in records) of the first entry with offset >= o in segment k
EntryPos(S, k, o) == IF o > S[k].base THEN o - S[k].base ELSE 0

\* readLoop for the header of the next message, run to the point where it
\* returns a message, reaches the HW limit or fails.  sn is the `segments`
\* snapshot in use.  The iterations touch only reader-local state and segment
\* data that no longer changes, so they are one step.
RECURSIVE Loop(_, _, _, _, _, _)
Loop(S, sn, sg, ps, hs, hp) ==
  IF sg = hs /\ ps >= hp THEN
       \* lim = min(len, hwPos - pos): 0 at the limit, negative = slice panic
       [out |-> IF ps = hp THEN "limit" ELSE "panic", seg |-> sg, pos |-> ps, off |-> -1]
  ELSE IF ps < S[sg].n THEN
       [out |-> "msg", seg |-> sg, pos |-> ps + 1, off |-> S[sg].base + ps]
  ELSE LET nx == NextByBase(S, sn, S[sg].base + 1) IN
       IF nx = 0 THEN [out |-> "noseg", seg |-> sg, pos |-> ps, off |-> -1]
       ELSE Loop(S, sn, nx, 0, hs, hp)

ListSorted == \A i \in 1..Len(listed) - 1 : segs[listed[i]].base < segs[listed[i + 1]].base

-----------------------------------------------------------------------------
(* Appender: Append(msgs) -- single appender                                *)

Init ==
  /\ cfg \in [cap : {2}, atomic : BOOLEAN]
  /\ segs = <<[base |-> 0, n |-> 0]>> /\ active = 1 /\ listed = <<1>>
  /\ hw = -1 /\ ro = FALSE /\ wait = {}
  /\ app = [pc |-> "idle", new |-> 0, res |-> ""]
  /\ rol = [pc |-> "idle", new |-> 0]
  /\ tog = [pc |-> "idle"]
  /\ rd = [r \in Readers |-> NoReader]
  /\ del = [r \in Readers |-> <<>>]

\* Append: `if l.IsReadonly() return ErrCommitLogReadonly`        gate after: append.before_split_check
AppBegin ==
  /\ app.pc = "idle"
  /\ app' = IF ro THEN [pc |-> "idle", new |-> 0, res |-> "readonly"]
                  ELSE [pc |-> "chk", new |-> 0, res |-> ""]
  /\ UNCHANGED <<cfg, segs, active, listed, hw, ro, wait, rol, tog, rd, del>>

\* split(): newSegment(NewestOffset()+1) and CAS on the active segment; in the
\* repaired code the list append happens in the same critical section.
\* (ErrSegmentExists -> retry loop is a no-op here: with one appender a second
\* splitter finds the new, empty active segment and returns.)
SplitCAS(who) ==
  /\ Full(active) /\ ~FileExists(Newest + 1)
  /\ segs' = Append(segs, [base |-> Newest + 1, n |-> 0])
  /\ active' = Len(segs) + 1
  /\ listed' = IF cfg.atomic THEN Append(listed, Len(segs) + 1) ELSE listed

AppSplit ==                                                       \* gate after: split.after_cas
  /\ app.pc = "chk" /\ SplitCAS("app")
  /\ app' = IF cfg.atomic THEN [app EXCEPT !.pc = "wr"]
            ELSE [app EXCEPT !.pc = "list", !.new = Len(segs) + 1]
  /\ UNCHANGED <<cfg, hw, ro, wait, rol, tog, rd, del>>

AppList ==                                                        \* gate after: append.before_write
  /\ app.pc = "list"
  /\ listed' = Append(listed, app.new)
  /\ app' = [app EXCEPT !.pc = "wr", !.new = 0]
  /\ UNCHANGED <<cfg, segs, active, hw, ro, wait, rol, tog, rd, del>>

\* checkAndPerformSplit found room (or the split is done): reach the write
AppNoSplit ==                                                     \* gate after: append.before_write
  /\ app.pc = "chk" /\ ~Full(active)
  /\ app' = [app EXCEPT !.pc = "wr"]
  /\ UNCHANGED <<cfg, segs, active, listed, hw, ro, wait, rol, tog, rd, del>>

\* segment.WriteMessageSet on the active segment
AppWrite ==
  /\ app.pc = "wr"
  /\ segs' = [segs EXCEPT ![active].n = @ + 1]
  /\ app' = [pc |-> "idle", new |-> 0, res |-> "ok"]
  /\ UNCHANGED <<cfg, active, listed, hw, ro, wait, rol, tog, rd, del>>

\* AppendMessageSet(ms): the path of a follower / of reconciliation.  There is
\* no read-only check (a read-only log still grows by replication), and the
\* caller - the replication loop, the only writer of a follower's log - runs
\* checkAndPerformSplit and the write without another writer in between: one
\* step, only while no Append and no split of the cleaner loop is in flight
DoAppSet ==
  /\ app.pc = "idle" /\ rol.pc = "idle"
  /\ LET split == Full(active)
         S1 == IF split THEN Append(segs, [base |-> Newest + 1, n |-> 0]) ELSE segs
         a1 == IF split THEN Len(segs) + 1 ELSE active
     IN /\ segs' = [S1 EXCEPT ![a1].n = @ + 1]
        /\ active' = a1
        /\ listed' = IF split THEN Append(listed, a1) ELSE listed
  /\ UNCHANGED <<cfg, hw, ro, wait, app, rol, tog, rd, del>>

-----------------------------------------------------------------------------
(* Roller: cleanerLoop -> checkAndPerformSplit                              *)

RolSplit ==                                                       \* gate after: split.after_cas
  /\ rol.pc = "idle" /\ SplitCAS("rol")
  /\ rol' = IF cfg.atomic THEN rol ELSE [pc |-> "list", new |-> Len(segs) + 1]
  /\ UNCHANGED <<cfg, hw, ro, wait, app, tog, rd, del>>

RolList ==
  /\ rol.pc = "list"
  /\ listed' = Append(listed, rol.new)
  /\ rol' = [pc |-> "idle", new |-> 0]
  /\ UNCHANGED <<cfg, segs, active, hw, ro, wait, app, tog, rd, del>>

-----------------------------------------------------------------------------
(* SetHighWatermark(h): one critical section; wakes every registered waiter *)

DoSetHW(h) ==
  /\ hw' = IF h > hw THEN h ELSE hw
  /\ IF h > hw
     THEN /\ rd' = [r \in Readers |-> IF r \in wait THEN [rd[r] EXCEPT !.pc = "load"] ELSE rd[r]]
          /\ wait' = {}
     ELSE UNCHANGED <<rd, wait>>
  /\ UNCHANGED <<cfg, segs, active, listed, ro, app, rol, tog, del>>

\* Two SetHighWatermark calls at the same time (a leader with replication
\* factor 1 has two HW writers: the fast path of the message loop and the
\* commit loop; a follower has the replication responses): two critical
\* sections in either order - the result is the same
DoSetHW2(h1, h2) == DoSetHW(IF h1 > h2 THEN h1 ELSE h2)

-----------------------------------------------------------------------------
(* SetReadonly(b): atomic store, then (b = TRUE) notifyReadonly under lock  *)

TogStore(b) ==                                                    \* gate after: setreadonly.before_notify
  /\ tog.pc = "idle"
  /\ ro' = b
  /\ tog' = IF b THEN [pc |-> "notify"] ELSE tog
  /\ UNCHANGED <<cfg, segs, active, listed, hw, wait, app, rol, rd, del>>

TogNotify ==
  /\ tog.pc = "notify"
  /\ tog' = [pc |-> "idle"]
  /\ IF hw < Newest THEN UNCHANGED <<rd, wait>>
     ELSE /\ rd' = [r \in Readers |-> IF r \in wait THEN [rd[r] EXCEPT !.pc = "rodone"] ELSE rd[r]]
          /\ wait' = {}
  /\ UNCHANGED <<cfg, segs, active, listed, hw, ro, app, rol, del>>

-----------------------------------------------------------------------------
(* Committed readers *)

Dead(r, e) == [rd[r] EXCEPT !.pc = "dead", !.err = e]

\* NewReader(s, committed) -> newReaderCommitted(s) is not one critical section:
\*   DoNewReader(r, s)  `hw = l.HighWatermark()` - THE snapshot of the HW (read lock)      pc none -> new
\*   RNew(r)            `segments = l.Segments()`, `l.OldestOffset()`, the decision "offset exceeds the HW: wait
\*                      for the next message" vs "positioned", getHWPos / findSegmentContains / findEntry on the
\*                      snapshot, the struct is built.  One step: everything it reads about offsets <= the loaded
\*                      HW (segment of the HW, entry of s) no longer changes once the HW was loaded; the log is
\*                      empty only while the HW is -1 (every s >= 0 waits then).
\* SetHighWatermark, appends, rolls and toggles interleave between the two.  NewLoads = 1 is the code as written
\* (decision and reader use the one snapshot).  NewLoads = 2 is the defective variant "the HW is loaded again after
\* the decision" (a check-then-act on two loads): the waiting reader is told the *later* HW was already consumed.
Built(s, hd, hu) ==          \* hd: the HW the decision uses, hu: the HW the reader is built with
  LET empty == segs[listed[1]].n = 0
      hs    == FindSeg(segs, listed, hu)
      sg    == FindSeg(segs, listed, s)
  IN IF s > hd \/ empty THEN
       [NoReader EXCEPT !.pc = "start", !.rhw = hu, !.park = TRUE, !.start = s]
     ELSE IF hs = 0 \/ sg = 0 THEN
       [NoReader EXCEPT !.pc = "dead", !.err = "notfound", !.start = s]
     ELSE
       [NoReader EXCEPT !.pc = "start", !.seg = sg, !.pos = EntryPos(segs, sg, s),
                        !.hwSeg = hs, !.hwPos = hu - segs[hs].base + 1,
                        !.rhw = hu, !.start = s]

DoNewReader(r, s) ==
  /\ rd[r].pc = "none"
  /\ rd' = [rd EXCEPT ![r] = [NoReader EXCEPT !.pc = "new", !.h = hw, !.start = s]]
  /\ UNCHANGED <<cfg, segs, active, listed, hw, ro, wait, app, rol, tog, del>>

RNew(r) ==
  /\ rd[r].pc = "new"
  /\ rd' = [rd EXCEPT ![r] = Built(rd[r].start, rd[r].h, IF NewLoads = 2 THEN hw ELSE rd[r].h)]
  /\ UNCHANGED <<cfg, segs, active, listed, hw, ro, wait, app, rol, tog, del>>

\* the whole call without anybody in between (what a lock-step driver executes: both steps back to back)
DoNewReaderAtomic(r, s) ==
  /\ rd[r].pc = "none"
  /\ rd' = [rd EXCEPT ![r] = Built(s, hw, hw)]
  /\ UNCHANGED <<cfg, segs, active, listed, hw, ro, wait, app, rol, tog, del>>

\* outcome of the read loop applied to reader r (already carrying seg/hwSeg...)
AfterLoop(r, cur, res) ==
  CASE res.out = "limit" ->
         /\ rd' = [rd EXCEPT ![r] = [cur EXCEPT !.pc = "load", !.seg = res.seg, !.pos = res.pos]]
         /\ UNCHANGED del
    [] res.out = "msg" ->
         /\ rd' = [rd EXCEPT ![r] = [cur EXCEPT !.pc = "start", !.seg = res.seg, !.pos = res.pos]]
         /\ del' = [del EXCEPT ![r] = Append(@, res.off)]
    [] OTHER ->
         /\ rd' = [rd EXCEPT ![r] = [cur EXCEPT !.pc = "dead", !.err = res.out,
                                                 !.seg = res.seg, !.pos = res.pos]]
         /\ UNCHANGED del

\* ReadMessage -> Read(header): `segments := r.cl.Segments()` + read loop      gate before: reader.read_start
RStart(r) ==
  /\ rd[r].pc = "start"
  /\ IF rd[r].park
     THEN rd' = [rd EXCEPT ![r].pc = "load"] /\ UNCHANGED del
     ELSE AfterLoop(r, rd[r], Loop(segs, listed, rd[r].seg, rd[r].pos, rd[r].hwSeg, rd[r].hwPos))
  /\ UNCHANGED <<cfg, segs, active, listed, hw, ro, wait, app, rol, tog>>

\* `hw := r.cl.HighWatermark()` ; `for hw == r.hw`     gates before: reader.before_load_hw, reader.after_wait_hw
RLoad(r) ==
  /\ rd[r].pc = "load"
  /\ rd' = [rd EXCEPT ![r].h = hw, ![r].pc = IF hw = rd[r].rhw THEN "gate" ELSE "sync"]
  /\ UNCHANGED <<cfg, segs, active, listed, hw, ro, wait, app, rol, tog, del>>

\* commitLog.waitForHW(r, hw) under the log lock        gate before: reader.before_wait_hw
RWait(r) ==
  /\ rd[r].pc = "gate"
  /\ IF hw # rd[r].h THEN
          \* HW has changed since the reader last checked: unblock now
          /\ rd' = [rd EXCEPT ![r].pc = "load", ![r].h = -1] /\ UNCHANGED wait
     ELSE IF hw = Newest /\ ro THEN
          /\ rd' = [rd EXCEPT ![r].pc = "rodone", ![r].h = -1] /\ UNCHANGED wait
     ELSE /\ rd' = [rd EXCEPT ![r].pc = "blocked", ![r].h = -1] /\ wait' = wait \cup {r}
  /\ UNCHANGED <<cfg, segs, active, listed, hw, ro, app, rol, tog, del>>

\* `r.hw = hw; segments = r.cl.Segments(); getHWPos(...)` (+ position of the
\* parked reader) and the read loop again                gate before: reader.before_resync
RSync(r) ==
  /\ rd[r].pc = "sync"
  /\ LET h   == rd[r].h
         hs  == FindSeg(segs, listed, h)
         o   == rd[r].rhw + 1                      \* parked: next committed message
         sg  == FindSeg(segs, listed, o)
     IN IF hs = 0 \/ (rd[r].park /\ sg = 0) THEN
             rd' = [rd EXCEPT ![r] = [rd[r] EXCEPT !.pc = "dead", !.err = "notfound", !.rhw = h, !.h = -1]]
             /\ UNCHANGED del
        ELSE LET cur == IF rd[r].park
                        THEN [rd[r] EXCEPT !.rhw = h, !.h = -1, !.hwSeg = hs, !.hwPos = h - segs[hs].base + 1,
                                           !.seg = sg, !.pos = EntryPos(segs, sg, o), !.park = FALSE]
                        ELSE [rd[r] EXCEPT !.rhw = h, !.h = -1, !.hwSeg = hs, !.hwPos = h - segs[hs].base + 1]
             IN AfterLoop(r, cur, Loop(segs, listed, cur.seg, cur.pos, cur.hwSeg, cur.hwPos))
  /\ UNCHANGED <<cfg, segs, active, listed, hw, ro, wait, app, rol, tog>>

RNext(r) == RNew(r) \/ RStart(r) \/ RLoad(r) \/ RWait(r) \/ RSync(r)

-----------------------------------------------------------------------------
(* What property C03 demands (evaluated on model steps and on recorded      *)
(* steps of the real code alike)                                            *)

\* the HW never moves backwards
P_HW == hw' >= hw

\* the HW never moves backwards also means: once SetHighWatermark(h) has
\* returned the HW is at least h (whoever else sets it at the same time)
P_HWSet(hs) == \A h \in hs : hw' >= h

\* a reader is handed, one at a time, the next offset of a gap-free run that
\* starts at or before its position, and never an offset above the HW
DelOK(old, new, start, hwNow) ==
  \/ new = old
  \/ /\ Len(new) = Len(old) + 1 /\ SubSeq(new, 1, Len(old)) = old
     /\ LET o == Last(new) IN
        /\ o <= hwNow /\ o >= 0
        /\ IF old = <<>> THEN o <= start ELSE o = Last(old) + 1
P_Del == \A r \in Readers : DelOK(del[r], del'[r], rd'[r].start, hw')

\* a reader never fails (a failed reader ends the subscription with an error:
\* every later committed message is lost to that subscriber)
P_NoDeath == \A r \in Readers : rd'[r].pc = "dead" => rd[r].pc = "dead"

\* committed messages a reader positioned at or before them has not received
Owed(r) == {o \in 0..hw : o >= rd[r].start /\ ~InSeq(o, del[r])}

\* a reader is told "end of read-only log" only when the log is read-only, the
\* HW has reached the log end (appended messages that are not committed yet
\* will be, and the reader is positioned before them) and it received everything
P_RoEnd == \A r \in Readers : (rd'[r].pc = "rodone" /\ rd[r].pc # "rodone") =>
              (ro' /\ hw' = Newest' /\ Owed(r)' = {})

\* the same over a run of several steps (other processes may have moved after
\* the reader was told): only the part that later steps cannot change
P_RoEndRun == \A r \in Readers : (rd'[r].pc = "rodone" /\ rd[r].pc # "rodone") => Owed(r)' = {}

P_Step == P_HW /\ P_Del /\ P_NoDeath /\ P_RoEnd

\* at quiescence (nothing but blocked readers left): every reader has received
\* every committed message from its position on, unless it was told that the
\* read-only log ended
P_Quiet == \A r \in Readers :
             rd[r].pc \in {"none", "rodone"} \/ (rd[r].pc = "blocked" /\ Owed(r) = {})

\* state invariants of the design check
C03_Run == \A r \in Readers : \A i \in 1..Len(del[r]) :
              /\ del[r][i] <= hw
              /\ (i = 1 => del[r][i] <= rd[r].start)
              /\ (i > 1 => del[r][i] = del[r][i - 1] + 1)
C03_NoDeath == \A r \in Readers : rd[r].pc # "dead"
\* a registered waiter is waiting for the current HW (no lost wake-up)
C03_NoLostWakeup == \A r \in wait : rd[r].pc = "blocked" /\ rd[r].rhw = hw
\* a reader that sleeps is known to those who wake sleepers: a reader asleep on
\* a channel that is in nobody's hands is never handed another message, whatever
\* is committed later (the other half of "no lost wake-up")
C03_Wakeable == \A r \in Readers : rd[r].pc = "blocked" => r \in wait

TypeOK ==
  /\ active \in 1..Len(segs) /\ hw \in -1..Newest /\ ro \in BOOLEAN
  /\ wait \subseteq Readers
  /\ \A i \in 1..Len(listed) : listed[i] \in 1..Len(segs)
=============================================================================
