SPECIFICATION MCSpec
CONSTANTS
  Servers = {"A", "B"}
  ConsumerSet = {"c1", "c2", "c3"}
  StreamSet = {"sa", "sb"}
  MaxParts = 3
  MaxOps = 6
  MaxDeletes = 2
  Coords = {"A", "X"}
  MaxRestores = 1
  MaxPauseOps = 1
  Shapes = {"plain", "dup"}
  GetDs = {0, 1}
INVARIANTS Inv_ExactlyOne Inv_NoForeign Inv_AssignedExist Inv_Balanced Inv_SameEpochSame Inv_Converged Inv_Impl
PROPERTIES StepsOK
VIEW MCView
CHECK_DEADLOCK FALSE
