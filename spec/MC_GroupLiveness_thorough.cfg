SPECIFICATION MCSpec
CONSTANTS
  Brokers = {"a", "b", "c"}
  Servers = {"a", "b"}
  Members = {"m1", "m2", "m3"}
  Dense = TRUE
  RecheckAtApply = TRUE
  KeepTimers = FALSE
  CountAllWit = FALSE
  RetryBlind = FALSE
  MaxOps = 13
  MaxPend = 0
  MaxWaits = 3
  MaxParks = 0
  EpochSels = {"cur", "old", "next"}
  PairSels = {"cur", "sc", "old", "next"}
  WaitModes = {"none", "good", "stale", "wrong"}
  ReqServers = {"a", "b"}
  EffectiveOnly = FALSE
INVARIANTS TypeOK X01_TimersOnlyAtCoordinator X01_NoCrash TimersComplete StatusLive WitnessesAreGood
PROPERTIES StepsOK
VIEW MCView
CHECK_DEADLOCK FALSE
