--------------------------- MODULE CommitLog ---------------------------
(***************************************************************************)
(* One partition commit log on one node (server/commitlog).                *)
(*                                                                         *)
(* Abstract state                                                          *)
(*   cfg    = [maxBytes, occ]   segment byte limit, optimistic concurrency *)
(*   log    = sequence of records retained, in offset order                *)
(*   segs   = sequence of [base, bytes] (file layout: one per .log file)   *)
(*   hw     = high watermark (-1 = none)                                   *)
(*   epochs = leader-epoch cache, sequence of [e, s]                       *)
(*   ro     = read-only flag                                               *)
(*   rd     = persistent readers  id -> [alive, c(ommitted), next, parked, *)
(*            base]: next = requested start, then last delivered + 1;      *)
(*            parked = committed reader created beyond the HW (or on an    *)
(*            empty log) that has not delivered yet; base = HW+1 at that   *)
(*            moment (the code resumes a parked reader from there, not     *)
(*            from the requested offset)                                   *)
(*   obs    = observable result of the last call [a, ret, err]             *)
(*                                                                         *)
(* A record is [off, ep, ts, key, val, hdr, sz, fp].  key/val/hdr are      *)
(* payload classes or ids (strings), sz is the encoded size of the record  *)
(* in bytes (model: small units), fp identifies the stored bytes.          *)
(*                                                                         *)
(* Every action exists in two forms:                                       *)
(*   A(args)       the action exactly as the code performs it (used as     *)
(*                 Next for the design check and as conformance test on    *)
(*                 recorded traces: mismatch = drift)                      *)
(*   P_A(args)     what the listed properties (C01, C03 safety part, C16)  *)
(*                 demand of this call (mismatch on a recorded trace =     *)
(*                 violation)                                              *)
(***************************************************************************)
EXTENDS Integers, Sequences, FiniteSets, LogDefs

VARIABLES cfg, log, segs, hw, epochs, ro, rd, obs
vars == <<cfg, log, segs, hw, epochs, ro, rd, obs>>

Readers == {"r1", "r2"}
NoReader == [alive |-> FALSE, c |-> FALSE, next |-> 0, parked |-> FALSE, base |-> 0]

-----------------------------------------------------------------------------
(* Helpers over sequences of records *)

Newest == IF log = <<>> THEN -1 ELSE Last(log).off
Oldest == IF log = <<>> THEN -1 ELSE log[1].off
SeqSum(f, n) == LET RECURSIVE S(_) S(i) == IF i = 0 THEN 0 ELSE f[i] + S(i - 1) IN S(n)

\* records of segment k: base_k <= off < base_{k+1}
SegRecs(l, ss, k) ==
  SelectSeq(l, LAMBDA r : /\ r.off >= ss[k].base
                          /\ (k = Len(ss) \/ r.off < ss[k + 1].base))

\* next assignable offset: the code asks the active segment
NextOff == IF SegRecs(log, segs, Len(segs)) = <<>> THEN Last(segs).base ELSE Last(log).off + 1

Core(r) == [off |-> r.off, ep |-> r.ep, ts |-> r.ts, key |-> r.key,
            val |-> r.val, hdr |-> r.hdr, sz |-> r.sz]
CoreSeq(s) == [i \in 1..Len(s) |-> Core(s[i])]
Fps(s) == [i \in 1..Len(s) |-> s[i].fp]
Offs(s) == [i \in 1..Len(s) |-> s[i].off]

\* stamp a batch (records without off) with consecutive offsets from n
Stamp(recs, n) == [i \in 1..Len(recs) |->
   [off |-> n + i - 1, ep |-> recs[i].ep, ts |-> recs[i].ts, key |-> recs[i].key,
    val |-> recs[i].val, hdr |-> recs[i].hdr, sz |-> recs[i].sz, fp |-> recs[i].fp]]

-----------------------------------------------------------------------------
(* Leader epoch cache: see LogDefs.tla *)

-----------------------------------------------------------------------------
(* Segment layout *)

\* checkAndPerformSplit: roll when the active segment reached the byte limit
Rolled(ss, next) == IF Last(ss).bytes >= cfg.maxBytes
                    THEN Append(ss, [base |-> next, bytes |-> 0]) ELSE ss

AddBytes(ss, n) == [ss EXCEPT ![Len(ss)].bytes = @ + n]
Bytes(recs) == SeqSum([i \in 1..Len(recs) |-> recs[i].sz], Len(recs))

\* findSegment: first segment whose next offset is greater than o (0 = none)
SegNext(l, ss, k) == LET r == SegRecs(l, ss, k) IN
                     IF r = <<>> THEN ss[k].base ELSE Last(r).off + 1
FindSeg(l, ss, o) == LET I == {k \in 1..Len(ss) : SegNext(l, ss, k) > o}
                     IN IF I = {} THEN 0 ELSE CHOOSE k \in I : \A j \in I : k <= j

-----------------------------------------------------------------------------
(* Reads *)

\* what a fresh reader started at s delivers when drained without blocking
ExpectedRead(l, ss, h, s, committed) ==
  IF committed
  THEN IF s > h \/ l = <<>> THEN [kind |-> "ok", recs |-> <<>>]
       ELSE IF h > Last(l).off THEN [kind |-> "err", recs |-> <<>>]
       ELSE [kind |-> "ok", recs |-> SelectSeq(l, LAMBDA r : r.off >= s /\ r.off <= h)]
  ELSE IF FindSeg(l, ss, s) = 0 THEN [kind |-> "err", recs |-> <<>>]
       ELSE [kind |-> "ok", recs |-> SelectSeq(l, LAMBDA r : r.off >= s)]

-----------------------------------------------------------------------------
(* Actions as the code performs them *)

Init ==
  /\ cfg \in [maxBytes : {2, 4}, occ : {FALSE}]
  /\ log = <<>> /\ segs = <<[base |-> 0, bytes |-> 0]>>
  /\ hw = -1 /\ epochs = <<>> /\ ro = FALSE
  /\ rd = [r \in Readers |-> NoReader]
  /\ obs = [a |-> "Open", ret |-> <<>>, err |-> ""]

\* Append(msgs): recs carry ep, ts, key, val, hdr, sz, fp and exp (expected
\* offset, -1 = none).  Order in the code: read-only check, split check, OCC
\* check, write, epoch assignment.
DoAppend(recs) ==
  IF ro THEN
    /\ obs' = [a |-> "Append", ret |-> <<>>, err |-> "readonly"]
    /\ UNCHANGED <<cfg, log, segs, hw, epochs, ro, rd>>
  ELSE LET n    == NextOff
           ss   == Rolled(segs, n)
           bad  == cfg.occ /\ recs[1].exp # -1 /\ recs[1].exp # n
           new  == Stamp(recs, n)
       IN IF bad THEN
            /\ segs' = ss
            /\ obs' = [a |-> "Append", ret |-> <<>>, err |-> "incorrect_offset"]
            /\ UNCHANGED <<cfg, log, hw, epochs, ro, rd>>
          ELSE
            /\ log' = log \o new
            /\ segs' = AddBytes(ss, Bytes(recs))
            /\ epochs' = AssignRecs(epochs, new)
            /\ obs' = [a |-> "Append", ret |-> Offs(new), err |-> ""]
            /\ UNCHANGED <<cfg, hw, ro, rd>>

\* AppendMessageSet(bytes): replicated path, offsets and epochs come with the
\* data (recs carry off); allowed on a read-only log.  Domain: recs are
\* consecutive and start at the next offset, or anywhere at or above it when
\* the log is empty (a replica that joins after the leader trimmed its log).
DoAppendSet(recs) ==
  LET ss == Rolled(segs, NextOff) IN
  /\ log' = log \o recs
  /\ segs' = AddBytes(ss, Bytes(recs))
  /\ epochs' = AssignRecs(epochs, recs)
  /\ obs' = [a |-> "AppendSet", ret |-> Offs(recs), err |-> ""]
  /\ UNCHANGED <<cfg, hw, ro, rd>>

\* Truncate(o): remove every record with offset >= o.
DoTruncate(o) ==
  LET k == FindSeg(log, segs, o) IN
  IF k = 0 THEN
    /\ obs' = [a |-> "Truncate", ret |-> <<>>, err |-> ""]
    /\ rd' = [r \in Readers |-> IF rd[r].alive /\ rd[r].next >= o THEN NoReader ELSE rd[r]]
    /\ UNCHANGED <<cfg, log, segs, hw, epochs, ro>>
  ELSE
    LET keepSeg == ~(segs[k].base = o /\ k > 1)
        nl      == SelectSeq(log, LAMBDA r : r.off < o)
        kept    == IF keepSeg THEN SubSeq(segs, 1, k) ELSE SubSeq(segs, 1, k - 1)
        ns      == IF keepSeg
                   THEN [kept EXCEPT ![k].bytes = Bytes(SegRecs(nl, kept, k))]
                   ELSE kept
    IN /\ log' = nl
       /\ segs' = ns
       /\ epochs' = ClearLatest(epochs, o)
       \* readers positioned at or after o are ended (the code returns an error from them);
       \* a truncation that empties the log ends every reader (the log restarts at the base
       \* offset of its first segment, which may be below the position of a reader that was
       \* created below the first offset of a log that started above 0)
       /\ rd' = [r \in Readers |-> IF rd[r].alive /\ (rd[r].next >= o \/ nl = <<>>) THEN NoReader ELSE rd[r]]
       /\ obs' = [a |-> "Truncate", ret |-> <<>>, err |-> ""]
       /\ UNCHANGED <<cfg, hw, ro>>

DoSetHW(h) ==
  /\ hw' = IF h > hw THEN h ELSE hw
  /\ obs' = [a |-> "SetHW", ret |-> <<>>, err |-> ""]
  /\ UNCHANGED <<cfg, log, segs, epochs, ro, rd>>

\* NewLeaderEpoch(e): the epoch is recorded at the offset of the LAST message
DoNewLeaderEpoch(e) ==
  /\ epochs' = Assign(epochs, e, Newest)
  /\ obs' = [a |-> "NewLeaderEpoch", ret |-> <<>>, err |-> ""]
  /\ UNCHANGED <<cfg, log, segs, hw, ro, rd>>

DoSetReadonly(b) ==
  /\ ro' = b
  /\ obs' = [a |-> "SetReadonly", ret |-> <<>>, err |-> ""]
  /\ UNCHANGED <<cfg, log, segs, hw, epochs, rd>>

\* Close + New on the same directory (clean restart)
DoReopen ==
  /\ epochs' = ClearEarliest(ClearLatest(epochs, NextOff), Oldest)
  /\ ro' = FALSE
  /\ rd' = [r \in Readers |-> NoReader]
  /\ obs' = [a |-> "Reopen", ret |-> <<>>, err |-> ""]
  /\ UNCHANGED <<cfg, log, segs, hw>>

\* persistent reader r created at offset s
DoNewReader(r, s, c) ==
  LET er == ExpectedRead(log, segs, hw, s, c)
      pk == c /\ (s > hw \/ log = <<>>) IN
  /\ rd' = [rd EXCEPT ![r] = IF er.kind = "err" THEN NoReader
                             ELSE [alive |-> TRUE, c |-> c, next |-> s, parked |-> pk,
                                   base |-> IF pk THEN hw + 1 ELSE s]]
  /\ obs' = [a |-> "NewReader", ret |-> <<>>, err |-> IF er.kind = "err" THEN "reader" ELSE ""]
  /\ UNCHANGED <<cfg, log, segs, hw, epochs, ro>>

\* records at or after m visible to reader r
AvailFrom(r, m) == SelectSeq(log, LAMBDA x : x.off >= m /\ (rd[r].c => x.off <= hw))

\* what reader r delivers when drained now (non-blocking), as the code does it:
\* a parked reader resumes from the HW it saw when it was created
Avail(r) == AvailFrom(r, IF rd[r].parked THEN rd[r].base ELSE rd[r].next)

\* drain reader r: everything available, in order
DoDrain(r) ==
  /\ rd[r].alive
  /\ LET got == Avail(r) IN
     /\ rd' = [rd EXCEPT ![r].next = IF got = <<>> THEN @ ELSE Last(got).off + 1,
                         ![r].parked = IF got = <<>> THEN @ ELSE FALSE]
     /\ obs' = [a |-> "Drain", ret |-> Fps(got), err |-> ""]
  /\ UNCHANGED <<cfg, log, segs, hw, epochs, ro>>

\* read at most k records with reader r (non-blocking): a reader that stops in
\* the middle of what is available and carries on later
FirstK(q, k) == IF Len(q) > k THEN SubSeq(q, 1, k) ELSE q
DoRead(r, k) ==
  /\ rd[r].alive
  /\ LET got == FirstK(Avail(r), k) IN
     /\ rd' = [rd EXCEPT ![r].next = IF got = <<>> THEN @ ELSE Last(got).off + 1,
                         ![r].parked = IF got = <<>> THEN @ ELSE FALSE]
     /\ obs' = [a |-> "Read", ret |-> Fps(got), err |-> ""]
  /\ UNCHANGED <<cfg, log, segs, hw, epochs, ro>>

-----------------------------------------------------------------------------
(* What the properties demand of each call (C01, C03-safety, C16) *)

Unchanged == log' = log
HWMonotone == hw' >= hw

P_Append(recs) ==
  LET n == NextOff IN
  /\ HWMonotone
  /\ IF obs'.err = "" THEN
        \* accepted: next consecutive offsets, nothing else changes
        /\ obs'.ret = [i \in 1..Len(recs) |-> n + i - 1]
        /\ Len(log') = Len(log) + Len(recs)
        /\ SubSeq(log', 1, Len(log)) = log
        /\ CoreSeq(SubSeq(log', Len(log) + 1, Len(log'))) = CoreSeq(Stamp(recs, n))
        \* C16: with concurrency control, stored only at the expected offset
        /\ (cfg.occ /\ recs[1].exp # -1) => recs[1].exp = n
     ELSE
        /\ Unchanged
        /\ obs'.ret = <<>>
        \* C16: a waived or matching expectation is never refused for its offset
        /\ obs'.err = "incorrect_offset" => (cfg.occ /\ recs[1].exp # -1 /\ recs[1].exp # n)
        /\ obs'.err = "readonly" => ro

P_AppendSet(recs) ==
  /\ HWMonotone
  /\ obs'.err = ""
  /\ obs'.ret = Offs(recs)
  /\ Len(log') = Len(log) + Len(recs)
  /\ SubSeq(log', 1, Len(log)) = log
  /\ CoreSeq(SubSeq(log', Len(log) + 1, Len(log'))) = CoreSeq(recs)

P_Truncate(o) ==
  /\ HWMonotone
  /\ obs'.err = ""
  /\ log' = SelectSeq(log, LAMBDA r : r.off < o)

P_Same == Unchanged /\ HWMonotone

P_SetHW(h) == Unchanged /\ hw' = IF h > hw THEN h ELSE hw

\* A reader delivers, in order, exactly the visible records from its position on.
\* For a committed reader that was created beyond the HW the listed properties
\* (C01, C03) only demand that nothing at or after its start is skipped or
\* repeated; where it resumes below its start is judged under C10.
P_Drain(r) ==
  /\ Unchanged /\ HWMonotone
  /\ obs'.err = ""
  /\ IF rd[r].parked
     THEN \E m \in 0..rd[r].next : obs'.ret = Fps(AvailFrom(r, m))
     ELSE obs'.ret = Fps(AvailFrom(r, rd[r].next))

P_Read(r, k) ==
  /\ Unchanged /\ HWMonotone
  /\ obs'.err = ""
  /\ IF rd[r].parked
     THEN \E m \in 0..rd[r].next : obs'.ret = Fps(FirstK(AvailFrom(r, m), k))
     ELSE obs'.ret = Fps(FirstK(AvailFrom(r, rd[r].next), k))

\* state invariants
C01_Ordered == \A i \in 1..Len(log) - 1 : log[i].off < log[i + 1].off
C01_Dense == \A i \in 1..Len(log) - 1 : log[i + 1].off = log[i].off + 1
TypeOK == /\ hw \in Int /\ ro \in BOOLEAN
          /\ EpochsWellFormed(epochs)
          /\ \A k \in 1..Len(segs) - 1 : segs[k].base < segs[k + 1].base
=============================================================================
