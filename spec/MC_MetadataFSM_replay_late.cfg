SPECIFICATION MCSpec
CONSTANTS
  GroupIds = {"g1"}
  StreamSet = {"sa"}
  MaxParts = 1
  Brokers = {"r1", "r2"}
  ConsumerSet = {"c1", "c2"}
  Coords = {"A", "X"}
  OpKinds = {"CreateStream", "ChangeLeader", "ShrinkISR", "ExpandISR"}
  Variants = {"plain"}
  MaxOps = 3
  MaxSnaps = 1
  MaxRestarts = 1
CHECK_DEADLOCK FALSE
