SPECIFICATION MCSpec
CONSTANTS
  Nodes = {"a"}
  SnapCarriesLP = TRUE
  Kinds = {"E"}
  MaxOps = 2
  MaxSys = 0
  MaxFail = 0
  MaxRecFail = 1
  MaxBlock = 1
  MaxTake = 0
  MaxCrash = 1
  MaxStep = 2
  MaxZombie = 1
  MaxSnap = 0
  MaxForeign = 0
  Keeps = {0}
  Eager = FALSE
INVARIANTS TypeOK C18_ControllerDispatches C18_IdleMeansPublished C18_IdContent C18_NoSkip C18_FirstOrder C18_LPSound I_DispAboveLP NoPanic
PROPERTIES StepsOK
VIEW MCView
CHECK_DEADLOCK FALSE
