SPECIFICATION MCSpec
CONSTANTS
  Nodes = {"a", "b"}
  SnapCarriesLP = TRUE
  Kinds = {"E"}
  MaxOps = 3
  MaxSys = 0
  MaxFail = 0
  MaxRecFail = 0
  MaxBlock = 0
  MaxTake = 2
  MaxCrash = 0
  MaxStep = 0
  MaxZombie = 1
  MaxSnap = 0
  MaxForeign = 0
  Keeps = {0}
  Eager = FALSE
INVARIANTS TypeOK C18_ControllerDispatches C18_IdleMeansPublished C18_IdContent C18_NoSkip C18_FirstOrder C18_LPSound I_DispAboveLP NoPanic
PROPERTIES StepsOK
VIEW MCView
CHECK_DEADLOCK FALSE
