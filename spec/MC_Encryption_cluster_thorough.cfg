SPECIFICATION MCSpec
CONSTANTS
  BoundsChecked = TRUE
  Masks = {1, 128, 255}
  KSValues = {0}
  Keys = {"k1", "k2"}
  SnapKeeps = TRUE
  Replicas = {"a", "b"}
  Lens = {0}
  MKLens = {0}
  TableOn = FALSE
  MaxPub = 4
  MaxBatch = 2
  MaxSteps = 6
  MaxFailBatches = 1
  MaxRestart = 0
  MaxTamper = 1
  MaxEnv = 1
  MaxPause = 1
  MaxSub = 3
  MaxLead = 2
  MaxSnap = 0
  MaxInstall = 1
  PubClasses = {"empty", "short", "long"}
  Hows = {"api", "b2b", "gap"}
  TamperRegs = {"KS", "WK", "NONCE", "CT", "TAG"}
INVARIANTS TypeOK C17_NoPlaintext C17_ServerUp C17_NoGarbage
PROPERTIES StepsOK
VIEW MCView
CHECK_DEADLOCK FALSE
