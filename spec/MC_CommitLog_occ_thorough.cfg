SPECIFICATION MCSpec
CONSTANTS
  MaxRecs = 5
  MaxBatch = 1
  MaxOps = 8
  MaxEpoch = 2
  CapSet = {2, 3}
  OccSet = {TRUE}
  UseReaders = FALSE
INVARIANTS TypeOK C01_Ordered C01_Dense
PROPERTIES StepsOK ReaderMonotone
VIEW MCView
CHECK_DEADLOCK FALSE
