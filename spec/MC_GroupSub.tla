------------------------- MODULE MC_GroupSub -------------------------
(* Bounded instance of GroupSub for the exhaustive design check and for   *)
(* stimulus generation.  `last` = the arguments of the last step (the     *)
(* intent replayed on the real code), nOps = step budget; both are kept   *)
(* out of the VIEW.                                                       *)
EXTENDS GroupSub, TLC

CONSTANTS Consumers, MaxEpoch, MaxSubs, MaxOps, UsePlain, UseBad, UseBurst, UseFollower, UseBounded, C0,
          UseGrpc,       \* subscribes through the gRPC handler (client stream observed)
          UseRace,       \* loop exit racing with a subscribe (DoRace)
          MaxElect,      \* number of leader changes (0 = none)
          StrandedKnown  \* TRUE = states of the open finding C13-member-stranded-on-former-leader (an
                         \* active group member on a server that does not lead) are not judged, so that
                         \* the rest of the space is still explored; FALSE = they are (the counterexample
                         \* is replayed on the real code)
VARIABLES last, nOps, nEl
mcvars == <<vars, last, nOps, nEl>>

StepE(a, el) == /\ nOps < MaxOps /\ nOps' = nOps + 1 /\ last' = a /\ nEl' = nEl + el
Step(a) == StepE(a, 0)

MCInit == Init /\ last = [a |-> "Open"] /\ nOps = 0 /\ nEl = 0

\* Requests are generated where their dimensions matter: the ReadISRReplica
\* flag and the follower only with the first consumer / epoch 1 / valid
\* open-ended positions (a follower never looks at them for a group request, and
\* a plain one has no epoch); a stop position only on valid requests.
MCSubscribe(n, ris, g, c, e, bad, stop, via) ==
  LET q == [n |-> n, ris |-> ris, g |-> g, c |-> c, e |-> e, bad |-> bad, stop |-> stop, via |-> via] IN
  /\ (via = "grpc") => (UseGrpc /\ g # NoGroup /\ n = ldr /\ ~ris /\ ~bad /\ stop = "none")
  /\ Len(subs) < MaxSubs
  /\ (g = NoGroup) => UsePlain
  /\ bad => UseBad
  /\ (n = "F" \/ ris) => (UseFollower /\ c = C0 /\ e = 1 /\ ~bad /\ stop = "none")
  /\ (stop # "none") => (UseBounded /\ ~bad)
  /\ DoSubscribe(q)
  /\ Step([a |-> "Subscribe", q |-> q])

\* two consumers subscribe at the same time
MCBurst(g, c1, c2, e) ==
  /\ UseBurst /\ c1 # c2
  /\ Len(subs) + 2 <= MaxSubs
  /\ DoBurst(g, <<c1, c2>>, e)
  /\ Step([a |-> "Burst", g |-> g, cs |-> <<c1, c2>>, e |-> e])

\* the ending subscription's clean-up and a subscribe of the same group on the same
\* server contend for consumersMu (valid open-ended requests only)
MCRace(s, c, e) ==
  /\ UseRace /\ s \in Idx /\ subs[s].g # NoGroup /\ subs[s].n = ldr
  /\ Len(subs) < MaxSubs
  /\ LET q == [n |-> subs[s].n, ris |-> FALSE, g |-> subs[s].g, c |-> c, e |-> e, bad |-> FALSE, stop |-> "none",
               via |-> "int"] IN
     /\ DoRace(s, q)
     /\ Step([a |-> "Race", s |-> s, q |-> q])

\* a duplicated resume counts against the same small budget as the leader changes
MCResume == /\ nEl < MaxElect /\ DoResumeAgain /\ StepE([a |-> "Resume"], 1)

MCElect == /\ nEl < MaxElect /\ DoElect /\ StepE([a |-> "Elect"], 1)

MCCancel(s) == DoCancelByClient(s) /\ Step([a |-> "Cancel", s |-> s])
MCLoopExit(s) == DoLoopExit(s) /\ Step([a |-> "LoopExit", s |-> s])

MCNext ==
  \/ \E n \in Nodes, ris \in BOOLEAN, g \in Groups \cup {NoGroup}, c \in Consumers, e \in 1..MaxEpoch,
        bad \in BOOLEAN, stop \in {"none", "bounded"}, via \in {"int", "grpc"} :
           MCSubscribe(n, ris, g, c, e, bad, stop, via)
  \/ \E g \in Groups, c1 \in Consumers, c2 \in Consumers, e \in 1..MaxEpoch : MCBurst(g, c1, c2, e)
  \/ \E s \in 1..MaxSubs, c \in Consumers, e \in 1..MaxEpoch : MCRace(s, c, e)
  \/ MCElect
  \/ MCResume
  \/ \E s \in 1..MaxSubs : MCCancel(s)
  \/ \E s \in 1..MaxSubs : MCLoopExit(s)

MCSpec == MCInit /\ [][MCNext]_mcvars

\* every step, as the code performs it, satisfies what C13 demands of it
StepOK ==
  LET a == last' IN
  IF StrandedKnown /\ (Stranded(subs, ldr) \/ Stranded(subs', ldr')) THEN TRUE ELSE
  CASE a.a = "Subscribe" -> P_Subscribe(a.q)
    [] a.a = "Burst" -> P_Burst(a.g, a.cs, a.e)
    [] a.a = "Cancel" -> P_Cancel(a.s)
    [] a.a = "LoopExit" -> P_LoopExit(a.s)
    [] a.a = "Race" -> P_Race(a.s, a.q)
    [] a.a = "Elect" -> P_Elect
    [] a.a = "Resume" -> P_Resume
    [] OTHER -> TRUE
\* C13_OneActive outside the situation of the open finding
MC_OneActive == (StrandedKnown /\ Stranded(subs, ldr)) \/ C13_OneActive
StepsOK == [][StepOK]_mcvars

MCView == <<subs, reg, ldr, nOps, nEl>>
=============================================================================
