SPECIFICATION TraceSpec
CONSTANTS
  Pubs = {"p1", "p2", "p3"}
POSTCONDITION Done
CHECK_DEADLOCK FALSE
