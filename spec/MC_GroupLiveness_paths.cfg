SPECIFICATION MCSpec
CONSTANTS
  Brokers = {"a", "b", "c"}
  Servers = {"a", "b"}
  Members = {"m1", "m2"}
  Dense = TRUE
  RecheckAtApply = TRUE
  KeepTimers = FALSE
  CountAllWit = FALSE
  RetryBlind = FALSE
  MaxOps = 3
  MaxPend = 0
  MaxWaits = 3
  MaxParks = 0
  EpochSels = {"cur", "old", "next"}
  PairSels = {"cur", "sc", "old", "next"}
  WaitModes = {"none", "good"}
  ReqServers = {"a"}
  EffectiveOnly = TRUE
VIEW MCPathView
CHECK_DEADLOCK FALSE
