SPECIFICATION MCSpec
CONSTANTS
  F = {"b", "c"}
  MaxRec = 2
  MaxEp = 1
  FetchMax = 3
  WideEvery = 2
  SlowTimeouts = TRUE
  ZombieSteals = FALSE
  MaxTick = 0
  MaxSlow = 0
  MaxIdleT = 1
  MaxKill = 0
  TrackLast = FALSE
INVARIANTS Inv
PROPERTIES StepsOK
CHECK_DEADLOCK FALSE
