SPECIFICATION RdSpec
CONSTANTS
  MaxRecs = 4
  MaxBatch = 2
  MaxOps = 7
  MaxEpoch = 1
  CapSet = {2}
  OccSet = {FALSE}
  UseReaders = TRUE
INVARIANTS TypeOK C01_Ordered C01_Dense
PROPERTIES StepsOK ReaderMonotone
VIEW MCView
CHECK_DEADLOCK FALSE
