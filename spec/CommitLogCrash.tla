------------------------- MODULE CommitLogCrash -------------------------
(***************************************************************************)
(* File-level refinement of the partition commit log (server/commitlog)    *)
(* for property C05: the log recovers from a process crash at any instant. *)
(*                                                                         *)
(* State                                                                   *)
(*   cfg = [cap, ret, compact, age]  records per segment (byte limit /     *)
(*         record size), retention by messages (0 = none), compaction on   *)
(*         Clean, age limit (0 = none; else the cut-off "now - max age":   *)
(*         a message whose timestamp - the harness uses its value id - is  *)
(*         below it has expired)                                           *)
(*   fs  = the partition directory                                         *)
(*         lf   <<base, sfx>> -> sequence of records     (<base>.log<sfx>) *)
(*         xf   <<base, sfx>> -> sequence of [off, pos]  (<base>.index<sfx>)*)
(*              sfx: "" live, "c" = .cleaned, "t" = .truncated             *)
(*              pos = ordinal of the record in the log file (1-based; the  *)
(*              harness uses one record size, so byte position <-> ordinal)*)
(*         hwf  replication-offset-checkpoint (NoHW = file absent)         *)
(*         epf  leader-epoch-checkpoint, sequence of [e, s]                *)
(*   mem = what the running process holds                                  *)
(*         up, segs (sequence of [base, first, last]), hw, ep (epoch cache)*)
(*   obs = result of the last call [a, ret, err]                           *)
(*                                                                         *)
(* Every operation is compiled (operators PlanX) to the list of its file    *)
(* system effects IN CODE ORDER, interleaved with the named crash points of *)
(* code (verifCrashPoint("...")) as markers:                               *)
(*   cp p | mklog k | mkidx k | wlog k recs | widx k ents | rmlog k |      *)
(*   rmidx k | mvlog f t | mvidx f t | whw | wep | msegs/mep/mhw (memory)  *)
(* RunAll executes a plan completely (the operation as the code performs   *)
(* it), RunTo executes it up to the n-th passage of crash point p: that is *)
(* the directory a SIGKILL at that point leaves (process-crash model: every*)
(* write/rename/remove issued so far is kept, incl. dirty MAP_SHARED index *)
(* pages).  DoCrash is enabled in front of every marker of every operation,*)
(* DoRecover mirrors commitlog.New -> open()/newSegment/setupIndex/        *)
(* InitializePosition + ClearLatest/ClearEarliest.                         *)
(*                                                                         *)
(* Fix = the repairs present in the code (see design_notes/C05.md):        *)
(*   "tail"   setupIndex re-indexes a log file whose size disagrees with   *)
(*            the index (unindexed tail, index of another file)            *)
(*   "suffix" Cleaned()/Truncated() start from empty scratch files         *)
(*   "epoch"  append assigns the leader epoch before writing the segment   *)
(* Without a fix the corresponding code path is modelled as it was written.*)
(***************************************************************************)
EXTENDS Integers, Sequences, FiniteSets

CONSTANT Fix

VARIABLES cfg, fs, mem, obs
vars == <<cfg, fs, mem, obs>>

NoHW == -2
Points == {"segment.after_open_log", "split.after_create", "append.after_log_write",
           "epoch.before_flush", "hw.before_checkpoint", "delete.after_remove_log",
           "truncate.after_delete_segment", "truncate.after_write_truncated",
           "truncate.after_rewrite", "replace.before_rename_log", "replace.after_rename_log",
           "replace.after_rename_index", "truncate.after_replace", "retention.after_delete_segment",
           "compact.after_write_cleaned", "compact.after_delete_cleaned", "compact.after_delete_old",
           "compact.after_replace", "clean.before_swap"}

-----------------------------------------------------------------------------
(* generic helpers *)

Last(s) == s[Len(s)]
Max(a, b) == IF a > b THEN a ELSE b
Key(b, x) == <<b, x>>
Has(f, k) == k \in DOMAIN f
Get(f, k) == IF k \in DOMAIN f THEN f[k] ELSE <<>>
Put(f, k, v) == [x \in (DOMAIN f) \cup {k} |-> IF x = k THEN v ELSE f[x]]
Del(f, k) == [x \in (DOMAIN f) \ {k} |-> f[x]]

RECURSIVE Flat(_)
Flat(ss) == IF ss = <<>> THEN <<>> ELSE Head(ss) \o Flat(Tail(ss))

RECURSIVE SortedSeq(_)
SortedSeq(S) == IF S = {} THEN <<>>
                ELSE LET m == CHOOSE x \in S : \A y \in S : x <= y IN <<m>> \o SortedSeq(S \ {m})

\* sort.Search over a precomputed predicate vector (1-based): smallest i in
\* lo..hi-1 with p[i], found by bisection exactly as the Go library does it
RECURSIVE BSearch(_, _, _)
BSearch(p, lo, hi) == IF lo >= hi THEN lo
                      ELSE LET h == (lo + hi) \div 2 IN
                           IF ~p[h] THEN BSearch(p, h + 1, hi) ELSE BSearch(p, lo, h)
\* result in 1..n+1 (n+1 = not found)
Search(p) == BSearch(p, 1, Len(p) + 1)

Offs(s) == [i \in 1..Len(s) |-> s[i].off]
Increasing(s) == \A i \in 1..Len(s) - 1 : s[i].off < s[i + 1].off
RangeOf(s) == {s[i] : i \in 1..Len(s)}

-----------------------------------------------------------------------------
(* leader epoch cache (leader_epoch_cache.go) *)

LatestEpoch(c) == IF c = <<>> THEN 0 ELSE Last(c).e
LatestStart(c) == IF c = <<>> THEN -1 ELSE Last(c).s
EarliestStart(c) == IF c = <<>> THEN -1 ELSE c[1].s
AssignOK(c, e, s) == e > LatestEpoch(c) /\ s >= LatestStart(c)
Assign(c, e, s) == IF AssignOK(c, e, s) THEN Append(c, [e |-> e, s |-> s]) ELSE c
ClearLatestFlushes(c, off) == ~(off > LatestStart(c))
ClearLatest(c, off) == IF off > LatestStart(c) THEN c ELSE SelectSeq(c, LAMBDA x : x.s < off)
ClearEarliestFlushes(c, off) == EarliestStart(c) < off /\ SelectSeq(c, LAMBDA x : x.s < off) # <<>>
ClearEarliest(c, off) ==
  IF EarliestStart(c) >= off THEN c
  ELSE LET early == SelectSeq(c, LAMBDA x : x.s < off)
           rest  == SubSeq(c, Len(early) + 1, Len(c))      \* l.epochOffsets[removed:]
       IN IF early = <<>> THEN c
          ELSE IF rest = <<>> \/ off < rest[1].s
               THEN <<[e |-> Last(early).e, s |-> off]>> \o rest
               ELSE rest
RECURSIVE AssignRecs(_, _)      \* a cache rebuilt from records (compaction)
AssignRecs(c, recs) == IF recs = <<>> THEN c
                       ELSE AssignRecs(IF Head(recs).ep > LatestEpoch(c)
                                       THEN Assign(c, Head(recs).ep, Head(recs).off) ELSE c, Tail(recs))

\* Rebase(from, off) (repair 3ee1c3a): the entries of the live cache that start at or
\* after off (sort.Search over the start offsets) are carried over when their epoch
\* is newer than what the receiving cache knows
RECURSIVE RebaseFold(_, _)
RebaseFold(c, xs) == IF xs = <<>> THEN c
                     ELSE RebaseFold(IF Head(xs).e > LatestEpoch(c) THEN Assign(c, Head(xs).e, Head(xs).s) ELSE c,
                                     Tail(xs))
RebaseCache(c, from, off) ==
  LET i == Search([j \in 1..Len(from) |-> from[j].s >= off])
  IN RebaseFold(c, SubSeq(from, i, Len(from)))

-----------------------------------------------------------------------------
(* segments in memory *)

EntsOf(recs, p0) == [i \in 1..Len(recs) |-> [off |-> recs[i].off, pos |-> p0 + i]]

\* setupIndex: first/last offset come from the index file
SegOf(b, ents) == [base |-> b,
                   first |-> IF ents = <<>> THEN -1 ELSE ents[1].off,
                   last |-> IF ents = <<>> THEN -1 ELSE Last(ents).off]
SegNext(sg) == IF sg.last = -1 THEN sg.base ELSE sg.last + 1
NewestOf(m) == SegNext(Last(m.segs)) - 1
OldestOf(m) == m.segs[1].first

\* findSegment: first segment whose next offset is greater than o (0 = none)
FindSeg(segs, o) == LET i == Search([j \in 1..Len(segs) |-> SegNext(segs[j]) > o])
                    IN IF i > Len(segs) THEN 0 ELSE i
\* segment.findEntry: first index entry with offset >= o (0 = not found)
FindEntry(x, o) == LET i == Search([j \in 1..Len(x) |-> x[j].off >= o])
                   IN IF i > Len(x) THEN 0 ELSE i

\* segmentScanner: the records reached through the index, in index order;
\* stops at the first entry that cannot be read
RECURSIVE ScanIdx(_, _, _)
ScanIdx(l, x, i) ==
  IF i > Len(x) \/ (x[i].off = 0 /\ i # 1) \/ x[i].pos < 1 \/ x[i].pos > Len(l) THEN <<>>
  ELSE <<[rec |-> l[x[i].pos], ent |-> x[i]]>> \o ScanIdx(l, x, i + 1)
RecsOf(sc) == [i \in 1..Len(sc) |-> sc[i].rec]

\* A torn write: the process died inside the write call of a message set, the
\* log file ends with a partial record (its bytes occupy file space, it cannot
\* be decoded).  Only the tail of a log file can be torn.
Torn == [off |-> -8, ep |-> -8, val |-> -8, key |-> "torn"]
IsTorn(r) == r.key = "torn"
RECURSIVE Whole(_)                      \* the records in front of the first partial one
Whole(l) == IF l = <<>> \/ IsTorn(Head(l)) THEN <<>> ELSE <<Head(l)>> \o Whole(Tail(l))

\* the repaired setupIndex: if the last index entry does not end at the end of
\* the log file (unindexed or torn tail, index of another file) the index is
\* rebuilt from the complete records of the log (the old index file is removed,
\* not overwritten) and whatever follows the last complete record is cut off
\* the log file
NeedsRebuild(l, x) ==
  "tail" \in Fix /\ ((x = <<>> /\ l # <<>>) \/ (x # <<>> /\ Last(x).pos # Len(l)))
Reindexed(l, x) == IF NeedsRebuild(l, x) THEN EntsOf(Whole(l), 0) ELSE x
Relogged(l, x) == IF NeedsRebuild(l, x) THEN Whole(l) ELSE l

-----------------------------------------------------------------------------
(* reads (reader.go, uncommitted reader): byte-sequential through the log   *)
(* files of the segment list; the index only gives the start position       *)

\* the records of a log file from ordinal p on (nothing if p is not the start of a
\* record: recorded index entries of a damaged directory may point anywhere)
From(l, p) == IF p < 1 \/ p > Len(l) THEN <<>> ELSE SubSeq(l, p, Len(l))

\* everything NewReader(0, uncommitted) delivers
ScanOf(f, m) ==
  LET segs == m.segs
      k == FindSeg(segs, 0) IN
  IF k = 0 THEN <<>>
  ELSE LET l1 == Get(f.lf, Key(segs[k].base, ""))
           x1 == Get(f.xf, Key(segs[k].base, ""))
           p  == IF segs[k].base <= 0 /\ x1 # <<>> THEN x1[1].pos ELSE 1
       IN From(l1, p)
          \o Flat([i \in 1..(Len(segs) - k) |-> Get(f.lf, Key(segs[k + i].base, ""))])

\* first record NewReader(o, uncommitted) delivers: [off, val] (-1 = none)
NoRec == [off |-> -1, val |-> -1]
ReadFirst(f, m, o) ==
  LET segs == m.segs
      k == FindSeg(segs, o) IN
  IF k = 0 THEN NoRec
  ELSE LET l1 == Get(f.lf, Key(segs[k].base, ""))
           x1 == Get(f.xf, Key(segs[k].base, ""))
           e  == IF segs[k].base <= o THEN FindEntry(x1, o) ELSE -1
           p  == IF e = -1 THEN 1 ELSE IF e = 0 THEN 0 ELSE x1[e].pos
           rest == From(l1, p)
                   \o Flat([i \in 1..(Len(segs) - k) |-> Get(f.lf, Key(segs[k + i].base, ""))])
       IN IF p = 0 \/ rest = <<>> THEN NoRec ELSE [off |-> rest[1].off, val |-> rest[1].val]

-----------------------------------------------------------------------------
(* plans: an operation as the sequence of its effects, in code order *)

CP(p) == [i |-> "cp", p |-> p]
I1(i, k) == [i |-> i, k |-> k]

\* newSegment(): open/create the log file, then create/mmap the index.  The
\* repaired Cleaned()/Truncated() first remove what a crashed run left.
OpenPlan(k) ==
  (IF "suffix" \in Fix /\ k[2] # "" THEN <<I1("rmlog", k), I1("rmidx", k)>> ELSE <<>>)
  \o <<I1("mklog", k), CP("segment.after_open_log"), I1("mkidx", k)>>
\* what the scratch segment holds when it is opened
Stale(f, k) == IF "suffix" \in Fix THEN <<>> ELSE Get(f, k)

\* segment.Delete(): log file first, then index file
DeletePlan(k) == <<I1("rmlog", k), CP("delete.after_remove_log"), I1("rmidx", k)>>

\* segment.Replace(): two renames
ReplacePlan(from, to) ==
  <<CP("replace.before_rename_log"), [i |-> "mvlog", k |-> from, t |-> to],
    CP("replace.after_rename_log"), [i |-> "mvidx", k |-> from, t |-> to],
    CP("replace.after_rename_index")>>

Stamp(recs, n) == [i \in 1..Len(recs) |->
                    [off |-> n + i - 1, ep |-> recs[i].ep, val |-> recs[i].val, key |-> recs[i].key]]

\* The leader path (Append) stamps consecutive offsets.  A replicated message set
\* (AppendMessageSet) carries the offsets the leader gave: they have GAPS where the
\* leader's log was compacted.  op.skip[i] = number of offsets left out in front of
\* record i (absent = none): segments become sparse without any local compaction.
SkipOf(op) == IF "skip" \in DOMAIN op THEN op.skip ELSE [i \in 1..Len(op.recs) |-> 0]
RECURSIVE StampFrom(_, _, _)
StampFrom(recs, skip, n) ==
  IF recs = <<>> THEN <<>>
  ELSE LET r == Head(recs)
           o == n + Head(skip) IN
       <<[off |-> o, ep |-> r.ep, val |-> r.val, key |-> r.key]>> \o StampFrom(Tail(recs), Tail(skip), o + 1)
StampOp(op, n) == StampFrom(op.recs, SkipOf(op), n)

\* commitLog.append: every message whose epoch exceeds the last one seen starts
\* that epoch at its offset - one checkpoint flush per new epoch
RECURSIVE EpochPlan(_, _, _)
EpochPlan(c, recs, lastE) ==
  IF recs = <<>> THEN <<>>
  ELSE LET r == Head(recs) IN
       IF r.ep > lastE
       THEN (IF AssignOK(c, r.ep, r.off)
             THEN <<[i |-> "mep", v |-> Assign(c, r.ep, r.off)], CP("epoch.before_flush"), [i |-> "wep"]>>
             ELSE <<>>)
            \o EpochPlan(Assign(c, r.ep, r.off), Tail(recs), r.ep)
       ELSE EpochPlan(c, Tail(recs), lastE)

\* Append(msgs) / AppendMessageSet(bytes) (replicated path: the batch may span
\* several leader epochs): roll if the active segment is full, write the whole
\* batch to the log, write its index entries, assign the new epochs
PlanAppend(f, m, op) ==
  LET segs == m.segs
      act == Last(segs)
      ak == Key(act.base, "")
      full == Len(Get(f.lf, ak)) >= cfg.cap
      nb == SegNext(act)
      nk == Key(nb, "")
      newseg == SegOf(nb, Get(f.xf, nk))       \* an index file found under that name is adopted
      segs2 == IF full THEN Append(segs, newseg) ELSE segs
      act2 == Last(segs2)
      k2 == Key(act2.base, "")
      n == SegNext(act2)
      st == StampOp(op, n)
      p0 == IF full THEN 0 ELSE Len(Get(f.lf, ak))
      act3 == [act2 EXCEPT !.first = IF @ = -1 THEN st[1].off ELSE @, !.last = Last(st).off]
      segs3 == [segs2 EXCEPT ![Len(segs2)] = act3]
      epochPlan == EpochPlan(m.ep, st, LatestEpoch(m.ep))
      writePlan == <<[i |-> "wlog", k |-> k2, recs |-> st], [i |-> "msegs", v |-> segs3],
                     CP("append.after_log_write"), [i |-> "widx", k |-> k2, ents |-> EntsOf(st, p0)]>>
  IN IF full /\ Has(f.lf, nk) THEN <<[i |-> "fail", err |-> "segment_exists_loop"]>>
     ELSE (IF full THEN <<I1("mklog", nk), CP("segment.after_open_log"), I1("mkidx", nk),
                          CP("split.after_create"), [i |-> "msegs", v |-> segs2]>> ELSE <<>>)
          \o (IF "epoch" \in Fix THEN epochPlan \o writePlan ELSE writePlan \o epochPlan)
          \o <<[i |-> "ret", v |-> Offs(st)]>>

PlanSetHW(m, h) == <<[i |-> "mhw", v |-> IF h > m.hw THEN h ELSE m.hw]>>
PlanCheckpoint == <<CP("hw.before_checkpoint"), [i |-> "whw"]>>

\* NewLeaderEpoch(e): recorded at the offset of the LAST message
PlanNewLeaderEpoch(m, e) ==
  IF AssignOK(m.ep, e, NewestOf(m))
  THEN <<[i |-> "mep", v |-> Assign(m.ep, e, NewestOf(m))], CP("epoch.before_flush"), [i |-> "wep"]>>
  ELSE <<>>

\* longest prefix of the index scan with record offsets below o
RECURSIVE Below(_, _)
Below(sc, o) == IF sc = <<>> \/ Head(sc).rec.off >= o THEN <<>> ELSE <<Head(sc)>> \o Below(Tail(sc), o)

\* Truncate(o): delete the later segments (oldest first), then either delete
\* the segment that starts at o or rewrite it into a .truncated pair and swap
PlanTruncate(f, m, o) ==
  LET segs == m.segs
      k == FindSeg(segs, o) IN
  IF k = 0 THEN <<>> ELSE
  LET sg == segs[k]
      kk == Key(sg.base, "")
      tk == Key(sg.base, "t")
      delLater == Flat([i \in 1..(Len(segs) - k) |->
                         DeletePlan(Key(segs[k + i].base, "")) \o <<CP("truncate.after_delete_segment")>>])
      whole == sg.base = o /\ k > 1
      kept == Below(ScanIdx(Get(f.lf, kk), Get(f.xf, kk), 1), o)
      rewrite == Flat([i \in 1..Len(kept) |->
                        <<[i |-> "wlog", k |-> tk, recs |-> <<kept[i].rec>>], CP("append.after_log_write"),
                          [i |-> "widx", k |-> tk, ents |-> <<kept[i].ent>>], CP("truncate.after_write_truncated")>>])
      newidx == Stale(f.xf, tk) \o [i \in 1..Len(kept) |-> kept[i].ent]
      newlog == Stale(f.lf, tk) \o [i \in 1..Len(kept) |-> kept[i].rec]
      newseg == SegOf(sg.base, Reindexed(newlog, newidx))
      clear == IF ClearLatestFlushes(m.ep, o)
               THEN <<[i |-> "mep", v |-> ClearLatest(m.ep, o)], CP("epoch.before_flush"), [i |-> "wep"]>>
               ELSE <<>>
  IN delLater
     \o (IF whole
         THEN DeletePlan(kk) \o <<CP("truncate.after_delete_segment"), [i |-> "msegs", v |-> SubSeq(segs, 1, k - 1)]>>
         ELSE OpenPlan(tk) \o rewrite \o <<CP("truncate.after_rewrite")>> \o ReplacePlan(tk, kk)
              \o <<I1("reidx", kk), CP("truncate.after_replace"),
                   [i |-> "msegs", v |-> Append(SubSeq(segs, 1, k - 1), newseg)]>>)
     \o clear

\* retention by number of messages: the newest segments whose total count
\* stays within the limit are kept (the active one always)
RECURSIVE SumCnt(_, _, _, _)
SumCnt(f, segs, i, n) == IF i > n THEN 0 ELSE Len(Get(f.xf, Key(segs[i].base, ""))) + SumCnt(f, segs, i + 1, n)
KeepFrom(f, segs) ==
  LET n == Len(segs) IN
  IF cfg.ret = 0 \/ n <= 1 THEN 1
  ELSE LET J == {j \in 1..n : \A i \in j..n : i = n \/ SumCnt(f, segs, i, n) <= cfg.ret}
       IN CHOOSE j \in J : \A i \in J : j <= i

\* latest offset at or below the high watermark per key (scanKeys)
LatestOfKey(all, hw, key) ==
  LET O == {r.off : r \in {x \in RangeOf(all) : x.key = key /\ x.off <= hw}}
  IN IF O = {} THEN 0 ELSE CHOOSE o \in O : \A p \in O : p <= o

\* compaction of the segments rem[i..n-1]; acc = [plan, cleaned, cache]
RECURSIVE CompactFold(_, _, _, _, _, _)
CompactFold(f, rem, all, hw, i, acc) ==
  IF i >= Len(rem) THEN acc
  ELSE
  LET sg == rem[i]
      kk == Key(sg.base, "")
      ck == Key(sg.base, "c")
      sc == RecsOf(ScanIdx(Get(f.lf, kk), Get(f.xf, kk), 1))
      keep == SelectSeq(sc, LAMBDA r : r.key = "nil" \/ r.off = LatestOfKey(all, hw, r.key) \/ r.off >= hw)
      p0 == Len(Stale(f.lf, ck))
      writes == Flat([j \in 1..Len(keep) |->
                       <<[i |-> "wlog", k |-> ck, recs |-> <<keep[j]>>], CP("append.after_log_write"),
                         [i |-> "widx", k |-> ck, ents |-> <<[off |-> keep[j].off, pos |-> p0 + j]>>],
                         CP("compact.after_write_cleaned")>>])
      newidx == Stale(f.xf, ck) \o EntsOf(keep, p0)
      newlog == Stale(f.lf, ck) \o keep
      empty == newidx = <<>>
      tailPlan == IF empty
                  THEN <<I1("rmlog", ck), CP("delete.after_remove_log"), I1("rmidx", ck),
                         CP("compact.after_delete_cleaned"),
                         I1("rmlog", kk), CP("delete.after_remove_log"), I1("rmidx", kk),
                         CP("compact.after_delete_old")>>
                  ELSE ReplacePlan(ck, kk) \o <<I1("reidx", kk), CP("compact.after_replace")>>
  IN CompactFold(f, rem, all, hw, i + 1,
       [plan |-> acc.plan \o OpenPlan(ck) \o writes \o tailPlan,
        cleaned |-> IF empty THEN acc.cleaned ELSE Append(acc.cleaned, SegOf(sg.base, Reindexed(newlog, newidx))),
        cache |-> AssignRecs(acc.cache, keep)])

\* Clean(): retention (the doomed segments oldest first - repair 299fb79; before it
\* the newest deletable segment went first), then compaction of all but the last remaining segment, then the
\* in-memory swap and the epoch cache update
\* lastWriteTime of a segment: the timestamp of its last index entry (setupIndex
\* restores it from there on open; 0 for an empty segment)
Lwt(f, sg) == LET l == Get(f.lf, Key(sg.base, ""))
                  x == Get(f.xf, Key(sg.base, "")) IN
              IF x = <<>> \/ Last(x).pos < 1 \/ Last(x).pos > Len(l) THEN 0 ELSE l[Last(x).pos].val
\* applyAgeLimit: the leading segments (never the last one) whose last write is older
\* than the cut-off, up to the first one that is not
RECURSIVE AgeFrom(_, _, _)
AgeFrom(f, segs, i) == IF i < Len(segs) /\ Lwt(f, segs[i]) < cfg.age THEN AgeFrom(f, segs, i + 1) ELSE i

PlanClean(f, m) ==
  LET segs0 == m.segs
      af == IF cfg.age = 0 \/ Len(segs0) <= 1 THEN 1 ELSE AgeFrom(f, segs0, 1)
      agePlan == Flat([j \in 1..(af - 1) |->
                        DeletePlan(Key(segs0[j].base, "")) \o <<CP("retention.after_delete_segment")>>])
      segs == SubSeq(segs0, af, Len(segs0))
      n == Len(segs)
      kf == KeepFrom(f, segs)
      retPlan == agePlan \o
                 Flat([j \in 1..(kf - 1) |->
                        DeletePlan(Key(segs[j].base, "")) \o <<CP("retention.after_delete_segment")>>])
      rem == SubSeq(segs, kf, n)
      doCompact == cfg.compact /\ Len(rem) > 1
      all == Flat([j \in 1..Len(rem) |->
                    RecsOf(ScanIdx(Get(f.lf, Key(rem[j].base, "")), Get(f.xf, Key(rem[j].base, "")), 1))])
      cf == CompactFold(f, rem, all, m.hw, 1, [plan |-> <<>>, cleaned |-> <<>>, cache |-> <<>>])
      lastRecs == RecsOf(ScanIdx(Get(f.lf, Key(Last(rem).base, "")), Get(f.xf, Key(Last(rem).base, "")), 1))
      \* the cache compaction built from the records it scanned, plus (3ee1c3a) every live
      \* entry that is newer than what it saw (an epoch recorded by NewLeaderEpoch has
      \* no record of its own yet)
      cache0 == AssignRecs(cf.cache, lastRecs)
      cache == RebaseCache(cache0, m.ep, LatestStart(cache0))
      newsegs == IF doCompact THEN Append(cf.cleaned, Last(rem)) ELSE rem
      epochPlan == IF doCompact
                   THEN <<[i |-> "mep", v |-> cache], CP("epoch.before_flush"), [i |-> "wep"]>>
                   ELSE IF ClearEarliestFlushes(m.ep, newsegs[1].base)
                        THEN <<[i |-> "mep", v |-> ClearEarliest(m.ep, newsegs[1].base)],
                               CP("epoch.before_flush"), [i |-> "wep"]>>
                        ELSE <<>>
  IN retPlan \o (IF doCompact THEN cf.plan ELSE <<>>)
     \o <<CP("clean.before_swap"), [i |-> "msegs", v |-> newsegs]>> \o epochPlan

-----------------------------------------------------------------------------
(* recovery: commitlog.New on whatever the directory holds, as a plan: New  *)
(* passes crash points too (segment.after_open_log once per segment,        *)
(* epoch.before_flush in ClearLatest / ClearEarliest), so a crash DURING    *)
(* recovery is a crash like any other                                       *)

Down == [up |-> FALSE, segs |-> <<>>, hw |-> -1, ep |-> <<>>]

\* open(): os.ReadDir is sorted, so per base offset the .index file is seen
\* (and removed if its .log file is missing) before the .log file is opened;
\* suffix files are ignored; newSegment creates a missing index, setupIndex
\* validates it (reidx); no segment at all: a fresh one at offset 0.  Then the
\* in-memory state is set up (recmem) and the epoch cache is trimmed.
RecoverPlan(f) ==
  LET logs == {k[1] : k \in {k \in DOMAIN f.lf : k[2] = ""}}
      idxs == {k[1] : k \in {k \in DOMAIN f.xf : k[2] = ""}}
      bases == SortedSeq(logs \cup idxs)
      perBase == Flat([i \in 1..Len(bases) |->
                   LET k == Key(bases[i], "") IN
                   IF bases[i] \in logs
                   THEN <<CP("segment.after_open_log"), I1("mkidx", k), I1("reidx", k)>>
                   ELSE <<I1("rmidx", k)>>])
      fresh == IF logs = {}
               THEN <<I1("mklog", Key(0, "")), CP("segment.after_open_log"), I1("mkidx", Key(0, ""))>>
               ELSE <<>>
  IN perBase \o fresh
     \o <<[i |-> "recmem"],
          [i |-> "clmem"], CP("epoch.before_flush"), [i |-> "wep"],
          [i |-> "cemem"], CP("epoch.before_flush"), [i |-> "wep"]>>


\* Close(): checkpoint the high watermark; then New() on the directory
PlanReopen(f) == <<CP("hw.before_checkpoint"), [i |-> "whw"], [i |-> "down"]>> \o RecoverPlan(f)

Plan(f, m, op) ==
  CASE op.a = "Append" -> PlanAppend(f, m, op)
    [] op.a = "AppendSet" -> PlanAppend(f, m, op)
    [] op.a = "SetHW" -> PlanSetHW(m, op.h)
    [] op.a = "Checkpoint" -> PlanCheckpoint
    [] op.a = "NewLeaderEpoch" -> PlanNewLeaderEpoch(m, op.e)
    [] op.a = "Truncate" -> PlanTruncate(f, m, op.o)
    [] op.a = "Clean" -> PlanClean(f, m)
    [] op.a = "Reopen" -> PlanReopen(f)

-----
(* the effect machine *)

\* S = [fs, mem, todo, ret, err]
Apply(S) ==
  LET h == Head(S.todo)
      T == [S EXCEPT !.todo = Tail(S.todo)]
      f == S.fs IN
  CASE h.i = "cp" -> T
    [] h.i = "mklog" -> [T EXCEPT !.fs.lf = IF Has(f.lf, h.k) THEN @ ELSE Put(@, h.k, <<>>)]
    [] h.i = "mkidx" -> [T EXCEPT !.fs.xf = IF Has(f.xf, h.k) THEN @ ELSE Put(@, h.k, <<>>)]
    [] h.i = "wlog" -> [T EXCEPT !.fs.lf = Put(@, h.k, Get(@, h.k) \o h.recs)]
    [] h.i = "widx" -> [T EXCEPT !.fs.xf = Put(@, h.k, Get(@, h.k) \o h.ents)]
    [] h.i = "rmlog" -> [T EXCEPT !.fs.lf = Del(@, h.k)]
    [] h.i = "rmidx" -> [T EXCEPT !.fs.xf = Del(@, h.k)]
    [] h.i = "mvlog" -> [T EXCEPT !.fs.lf = Put(Del(@, h.k), h.t, f.lf[h.k])]
    [] h.i = "mvidx" -> [T EXCEPT !.fs.xf = Put(Del(@, h.k), h.t, f.xf[h.k])]
    \* setupIndex at the end of Replace (only the repaired code changes the file)
    [] h.i = "reidx" -> [T EXCEPT !.fs.xf = Put(@, h.k, Reindexed(f.lf[h.k], f.xf[h.k])),
                                  !.fs.lf = Put(@, h.k, Relogged(f.lf[h.k], f.xf[h.k]))]
    [] h.i = "whw" -> [T EXCEPT !.fs.hwf = S.mem.hw]
    [] h.i = "wep" -> [T EXCEPT !.fs.epf = S.mem.ep]
    [] h.i = "msegs" -> [T EXCEPT !.mem.segs = h.v]
    [] h.i = "mep" -> [T EXCEPT !.mem.ep = h.v]
    [] h.i = "mhw" -> [T EXCEPT !.mem.hw = h.v]
    [] h.i = "ret" -> [T EXCEPT !.ret = h.v]
    [] h.i = "fail" -> [T EXCEPT !.err = h.err, !.todo = <<>>]
    \* New(): the segment list from the .log files (first/last offset from the index
    \* files), the HW from its checkpoint file, the epoch cache from its file
    [] h.i = "recmem" ->
         LET bases == SortedSeq({k[1] : k \in {k \in DOMAIN f.lf : k[2] = ""}}) IN
         [T EXCEPT !.mem = [up |-> TRUE,
                            segs |-> [j \in 1..Len(bases) |-> SegOf(bases[j], Get(f.xf, Key(bases[j], "")))],
                            hw |-> IF f.hwf = NoHW THEN -1 ELSE f.hwf,
                            ep |-> f.epf]]
    \* ClearLatest(next offset) / ClearEarliest(oldest offset): the flush (the two
    \* instructions that follow) only happens when the cache changes
    [] h.i = "clmem" ->
         LET off == SegNext(Last(S.mem.segs)) IN
         [T EXCEPT !.mem.ep = ClearLatest(@, off),
                   !.todo = IF ClearLatestFlushes(S.mem.ep, off) THEN @ ELSE SubSeq(@, 3, Len(@))]
    [] h.i = "cemem" ->
         LET off == S.mem.segs[1].first IN
         [T EXCEPT !.mem.ep = ClearEarliest(@, off),
                   !.todo = IF ClearEarliestFlushes(S.mem.ep, off) THEN @ ELSE SubSeq(@, 3, Len(@))]
    \* Close() has returned: the process state is gone, New() starts
    [] h.i = "down" -> [T EXCEPT !.mem = Down]

Begin(f, m, op) == [fs |-> f, mem |-> m, todo |-> Plan(f, m, op), ret |-> <<>>, err |-> ""]

RECURSIVE RunAll(_)
RunAll(S) == IF S.todo = <<>> THEN S ELSE RunAll(Apply(S))

\* run until the process stands in front of crash point p for the n-th time
RECURSIVE RunTo(_, _, _)
RunTo(S, p, n) ==
  IF S.todo = <<>> THEN [S |-> S, hit |-> FALSE]
  ELSE LET h == Head(S.todo) IN
       IF h.i = "cp" /\ h.p = p
       THEN IF n = 1 THEN [S |-> S, hit |-> TRUE] ELSE RunTo(Apply(S), p, n - 1)
       ELSE RunTo(Apply(S), p, n)

BeginRecover(f) == [fs |-> f, mem |-> Down, todo |-> RecoverPlan(f), ret |-> <<>>, err |-> ""]
\* recovery executed to completion
RecoverFS(f) == LET S == RunAll(BeginRecover(f)) IN [fs |-> S.fs, mem |-> S.mem]
\* the directory left by nr >= 0 further crashes during recovery: rcs is a
\* sequence of [p, n] (crash in front of the n-th passage of p of that attempt)
RECURSIVE CrashedRecoveries(_, _)
CrashedRecoveries(f, rcs) ==
  IF rcs = <<>> THEN [fs |-> f, hit |-> TRUE]
  ELSE LET R == RunTo(BeginRecover(f), Head(rcs).p, Head(rcs).n) IN
       IF ~R.hit THEN [fs |-> f, hit |-> FALSE] ELSE CrashedRecoveries(R.S.fs, Tail(rcs))

\* Torn write of an append: the process dies inside the write call of the
\* message set - the log file holds the first k records of the batch and a
\* partial one, the index nothing of the batch.  (The directory is the one at
\* append.after_log_write with the tail of the log file cut.)
TornFS(f, m, op, k) ==
  LET R == RunTo(Begin(f, m, op), "append.after_log_write", 1)
      w == SelectSeq(Plan(f, m, op), LAMBDA h : h.i = "wlog")[1]
      l == R.S.fs.lf[w.k]
  IN [hit |-> R.hit /\ k >= 0 /\ k < Len(w.recs),
      fs |-> [R.S.fs EXCEPT !.lf = Put(@, w.k, SubSeq(l, 1, Len(l) - Len(w.recs) + k) \o <<Torn>>)]]

\* the state after the first k effects of an operation (0 <= k <= length of its plan):
\* a crash between ANY two effects, whether or not the code names a crash point there
RECURSIVE RunPrefix(_, _)
RunPrefix(S, k) == IF k = 0 \/ S.todo = <<>> THEN S ELSE RunPrefix(Apply(S), k - 1)

\* crash points an operation passes, in order (with repetitions)
PointsOf(f, m, op) == LET cps == SelectSeq(Plan(f, m, op), LAMBDA h : h.i = "cp") IN
                      [i \in 1..Len(cps) |-> cps[i].p]

-----------------------------------------------------------------------------
(* actions *)

Init ==
  /\ cfg \in [cap : {2}, ret : {0}, compact : {FALSE}, age : {0}]
  /\ LET R == RecoverFS([lf |-> <<>>, xf |-> <<>>, hwf |-> NoHW, epf |-> <<>>]) IN fs = R.fs /\ mem = R.mem
  /\ obs = [a |-> "Open", ret |-> <<>>, err |-> ""]

\* an operation executed to completion
DoOp(op) ==
  /\ mem.up
  /\ LET S == RunAll(Begin(fs, mem, op)) IN
     /\ fs' = S.fs /\ mem' = S.mem
     /\ obs' = [a |-> op.a, ret |-> S.ret, err |-> S.err]
  /\ UNCHANGED cfg

\* the process is killed while executing op, in front of the n-th passage of p
DoCrash(op, p, n) ==
  /\ mem.up
  /\ LET R == RunTo(Begin(fs, mem, op), p, n) IN
     /\ R.hit
     /\ fs' = R.S.fs
  /\ mem' = Down
  /\ obs' = [a |-> "Crash", ret |-> <<>>, err |-> ""]
  /\ UNCHANGED cfg

\* the process is killed after the first k effects of op (any boundary)
DoCrashAfter(op, k) ==
  /\ mem.up /\ k \in 0..Len(Plan(fs, mem, op))
  /\ fs' = RunPrefix(Begin(fs, mem, op), k).fs
  /\ mem' = Down
  /\ obs' = [a |-> "Crash", ret |-> <<>>, err |-> ""]
  /\ UNCHANGED cfg

\* the process is killed inside the log write of an append (torn write)
DoCrashTorn(op, k) ==
  /\ mem.up /\ op.a \in {"Append", "AppendSet"}
  /\ LET R == TornFS(fs, mem, op, k) IN R.hit /\ fs' = R.fs
  /\ mem' = Down
  /\ obs' = [a |-> "Crash", ret |-> <<>>, err |-> ""]
  /\ UNCHANGED cfg

DoRecover ==
  /\ ~mem.up
  /\ LET R == RecoverFS(fs) IN fs' = R.fs /\ mem' = R.mem
  /\ obs' = [a |-> "Recover", ret |-> <<>>, err |-> ""]
  /\ UNCHANGED cfg

\* the recovering process is killed as well, in front of the n-th passage of p
DoRecoverCrash(p, n) ==
  /\ ~mem.up
  /\ LET R == RunTo(BeginRecover(fs), p, n) IN R.hit /\ fs' = R.S.fs
  /\ mem' = Down
  /\ obs' = [a |-> "RecoverCrash", ret |-> <<>>, err |-> ""]
  /\ UNCHANGED cfg

\* crash sites of a recovery attempt
RecoverPointsOf(f) == LET S0 == BeginRecover(f) IN
                      LET cps == SelectSeq(S0.todo, LAMBDA h : h.i = "cp") IN [i \in 1..Len(cps) |-> cps[i].p]

\* crash + reopen in one step (what a recorded crash run shows)
\* torn >= 0: the crash is a torn write that kept torn complete records
DoCrashRecover(op, p, n, torn, rcs) ==
  /\ mem.up
  /\ LET R == IF torn >= 0 THEN TornFS(fs, mem, op, torn)
              ELSE LET Q == RunTo(Begin(fs, mem, op), p, n) IN [hit |-> Q.hit, fs |-> Q.S.fs]
         C == CrashedRecoveries(R.fs, rcs)
         V == RecoverFS(C.fs) IN
     /\ R.hit /\ C.hit
     /\ fs' = V.fs /\ mem' = V.mem
  /\ obs' = [a |-> "CrashRecover", ret |-> <<>>, err |-> ""]
  /\ UNCHANGED cfg

-----------------------------------------------------------------------------
(* What property C05 demands.  Everything is phrased over observations:    *)
(* sc = full uncommitted read-back, nw = NewestOffset(), rd = first record *)
(* delivered by a reader opened at each offset, hw, ep = epoch cache.      *)

\* no duplicated / reordered offset on a full scan
C05_NoDup(sc) == Increasing(sc)

\* no phantom: nothing readable beyond what the log accounts for.  (Not an
\* equality: retention deletes the newest deletable segment first, a crash in
\* between leaves a hole, and a later Truncate into the hole leaves an empty
\* active segment whose base lies beyond the last record - nothing is lost,
\* duplicated or invented by that, so C05 does not forbid it.)
C05_NewestOK(sc, nw) == sc # <<>> => Last(sc).off <= nw

\* ... and no offset that ever carried a record may be claimed without being
\* readable: the offsets between the last readable record and NewestOffset()
\* (empty after a truncation into a gap left by compaction or by an interrupted
\* retention) must not be offsets of records that existed before the step or
\* that the step was writing (an index that outlives its log claims them)
C05_NoGhost(ghostable, sc, nw) ==
  LET lst == IF sc = <<>> THEN -1 ELSE Last(sc).off IN
  \A r \in ghostable : ~(lst < r.off /\ r.off <= nw)

\* every record of the scan is what a reader opened at its offset delivers
C05_ReadAt(sc, rd) ==
  \A i \in 1..Len(sc) : \E j \in 1..Len(rd) :
     rd[j].o = sc[i].off /\ rd[j].off = sc[i].off /\ rd[j].val = sc[i].val

\* the leader-epoch history matches the records present: epochs increase,
\* records before an epoch's start offset are older, records after it are not,
\* and no record present is newer than the latest epoch the cache knows.  (The
\* record AT a start offset may be older: NewLeaderEpoch records the epoch at
\* the offset of the last message, and retention may then drop the entry of
\* that older epoch - not a matter of crash recovery.)
C05_Epochs(sc, ep) ==
  /\ \A i \in 1..Len(ep) - 1 : ep[i].e < ep[i + 1].e /\ ep[i].s <= ep[i + 1].s
  /\ \A i \in 1..Len(ep), j \in 1..Len(sc) :
        /\ sc[j].off < ep[i].s => sc[j].ep < ep[i].e
        /\ sc[j].off > ep[i].s => sc[j].ep >= ep[i].e
  /\ \A j \in 1..Len(sc) : sc[j].ep <= LatestEpoch(ep)

\* ... and the history describes the log that is there: no epoch may start beyond
\* the end of the log (an entry written ahead of a message that never reached the
\* log, or left behind by an interrupted truncation, tells a follower that asks
\* for the end of an older epoch to keep offsets the log does not have, and gives
\* the next message written there to the wrong epoch).  NewLeaderEpoch records
\* the epoch at the offset of the LAST message, so even an epoch without any
\* message of its own starts at or below NewestOffset().  One exemption: on a log
\* without any message the OLDEST entry may sit at the first offset of the log
\* (retention clamps the oldest epoch to the log start, which is then the log end).
C05_EpochsBacked(sc, ep, nw) ==
  \A i \in 1..Len(ep) : ep[i].s <= nw \/ (sc = <<>> /\ i = 1 /\ ep[i].s = nw + 1)

StateOK(sc, nw, rd, ep) ==
  C05_NoDup(sc) /\ C05_NewestOK(sc, nw) /\ C05_ReadAt(sc, rd) /\ C05_Epochs(sc, ep) /\ C05_EpochsBacked(sc, ep, nw)

\* A FOLLOW-UP operation is only asked for C05_EpochsBacked when the log it started from had no offset gap.  A gap is
\* what an interrupted truncation leaves behind (the statement exempts what it was removing: log 0,1,_,_,4 after a
\* Truncate(0) killed between two segment deletions) or what compaction removed; a later Truncate(4) on such a log keeps
\* the entry of the epoch that began inside the gap (ClearLatest compares start offsets with the truncation point),
\* which then starts beyond the new log end.  That is a consequence of the gap, not of this operation (found by TLC on
\* the thorough configuration, 7 steps).  The state reached by the crash recovery itself is always asked.
Gappy(sc) == \E i \in 1..Len(sc) - 1 : sc[i + 1].off > sc[i].off + 1
StateOKAfter(scPre, sc, nw, rd, ep) ==
  C05_NoDup(sc) /\ C05_NewestOK(sc, nw) /\ C05_ReadAt(sc, rd) /\ C05_Epochs(sc, ep)
  /\ (Gappy(scPre) \/ C05_EpochsBacked(sc, ep, nw))

\* what the interrupted operation was removing / adding (pre = scan before,
\* lastBase = base offset of the last segment, nw = NewestOffset() before)
\* a clean may only remove a record that some configured policy can claim:
\* message-count retention and compaction are judged in detail under C09/C08
\* (here: anything in front of the last segment), age retention only removes
\* expired messages, and without any policy nothing is removed
\* compaction removes a keyed record only in favour of a later COMMITTED record with
\* the same key (hw = the high watermark the clean works with); records without a
\* key and the most recent committed record of a key are never "what a clean was removing"
Superseded(r, pre, hw) ==
  r.key # "nil" /\ \E q \in RangeOf(pre) : q.key = r.key /\ q.off > r.off /\ q.off <= hw
Justified(r, pre, hw) ==
  cfg.ret > 0 \/ (cfg.compact /\ Superseded(r, pre, hw)) \/ (cfg.age > 0 /\ r.val < cfg.age)
Removable(op, pre, lastBase, hw) ==
  CASE op.a = "Truncate" -> {r \in RangeOf(pre) : r.off >= op.o}
    [] op.a = "Clean" -> {r \in RangeOf(pre) : r.off < lastBase /\ Justified(r, pre, hw)}
    [] OTHER -> {}
Addable(op, nw) ==
  IF op.a \in {"Append", "AppendSet"} THEN RangeOf(StampOp(op, nw + 1)) ELSE {}

\* the records whose offsets must not be claimed-but-unreadable after the step:
\* all records present before and the ones being written; a clean may remove
\* every record in front of the last segment (retention can leave nothing but
\* a freshly rolled empty segment), a truncation removes a suffix and must
\* leave the end of the log at or below what it removed
Ghostable(op, pre, lastBase, nw, hw) ==
  (RangeOf(pre) \ (IF op.a = "Clean" THEN Removable(op, pre, lastBase, hw) ELSE {})) \cup Addable(op, nw)

\* completed appends survive, unmodified, at their offsets
C05_Durable(op, pre, lastBase, hw, sc) ==
  \A r \in RangeOf(pre) \ Removable(op, pre, lastBase, hw) : r \in RangeOf(sc)
\* nothing appears that was never appended there
C05_NoPhantom(op, pre, nw, sc) ==
  \A r \in RangeOf(sc) : r \in RangeOf(pre) \cup Addable(op, nw)
C05_HW(hwPre, hwPost) == hwPost <= hwPre

\* follow-up operations after recovery (and operations before the crash)
IsSubSeq(a, b) == \* a is b with some elements removed
  /\ RangeOf(a) \subseteq RangeOf(b) /\ Len(a) = Cardinality(RangeOf(a))
  /\ \A i, j \in 1..Len(a) : i < j => a[i].off < a[j].off
P_Op(op, pre, nw, lastBase, hwPre, o2, sc, hwPost) ==
  CASE op.a \in {"Append", "AppendSet"} ->
         /\ o2.err = ""
         /\ o2.ret = Offs(StampOp(op, nw + 1))
         /\ sc = pre \o StampOp(op, nw + 1)
    [] op.a = "Truncate" -> o2.err = "" /\ sc = SelectSeq(pre, LAMBDA r : r.off < op.o)
    [] op.a = "Clean" ->
         /\ o2.err = ""
         /\ IsSubSeq(sc, pre) \/ ~Increasing(pre)
         /\ \A r \in RangeOf(pre) : (r.off >= lastBase \/ ~Justified(r, pre, hwPre)) => r \in RangeOf(sc)
    [] op.a = "Reopen" -> o2.err = "" /\ sc = pre /\ hwPost = hwPre
    [] OTHER -> o2.err = "" /\ sc = pre
=============================================================================
