SPECIFICATION MCSpec
CONSTANTS
  MaxApp = 2
  MaxTrn = 1
  MaxCln = 1
  MaxHW = 1
  MaxEp = 2
  MaxImg = 0
  MaxRd = 2
  Keys = {"a"}
  CapSet = {2}
  OccSet = {FALSE}
  CompactSet = {FALSE, TRUE}
  MsgsSet = {0, 2}
  MaxBatch = 1
  TrackLast = FALSE
  UseSet = FALSE
  UseReopen = FALSE
  UseReaders = TRUE
INVARIANTS TypeOK X05_Ordered X05_Dense X05_NextFollows X05_Epochs X05_ActiveListed
PROPERTIES S_App S_Trn S_ClnSwap S_ClnStep S_Img S_Rd S_Reopen
CHECK_DEADLOCK FALSE
