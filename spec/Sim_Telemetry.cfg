SPECIFICATION MCSpec
CONSTANTS
  EnvHonoured = TRUE
  MaxTicks = 2
CHECK_DEADLOCK FALSE
