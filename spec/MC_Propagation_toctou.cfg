SPECIFICATION MCSpec
CONSTANTS
  Servers = {"a", "b", "c"}
  MaxInst = 4
  Barrier = TRUE
  AcqBarrier = TRUE
  NotLeaderPanics = FALSE
  ApplyRefuses = FALSE
  QueueGroup = TRUE
  MaxReq = 2
  MaxTransfers = 2
  MaxCancels = 0
  MaxSlow = 0
  MaxLog = 3
  OpSet = {"create", "delete", "expand", "shrink", "elect"}
INVARIANTS X04_NoCrash
VIEW MCView
CHECK_DEADLOCK FALSE
