SPECIFICATION MCSpec
CONSTANTS
  MaxApp = 5
  MaxTrn = 2
  MaxCln = 2
  MaxHW = 6
  MaxEp = 3
  MaxImg = 2
  MaxRd = 8
  Keys = {"a", "b"}
  CapSet = {2}
  OccSet = {FALSE, TRUE}
  CompactSet = {FALSE, TRUE}
  MsgsSet = {0, 2, 3}
  MaxBatch = 2
  TrackLast = TRUE
  UseSet = TRUE
  UseReopen = TRUE
  UseReaders = TRUE
CHECK_DEADLOCK FALSE
