\* expected to fail: ResumeAll is not carried by a snapshot (P_RestartResumeAll); the history is in the directed family
SPECIFICATION MCSpec
CONSTANTS
  Parts = {0, 1}
  SubIds = {"s1"}
  NilFix = TRUE
  MaxOps = 3
  MaxMsgs = 1
  Paths <- SyncOnly
  Gates <- NoGates
  Cfgs <- NoAuto
  SubsetsOf <- PartSets
PROPERTIES RestartKeepsResumeAll
VIEW MCView
CHECK_DEADLOCK FALSE
