SPECIFICATION MCSpec
CONSTANTS
  F = {"b"}
  MaxRec = 3
  MaxEp = 2
  FetchMax = 2
  WideEvery = 2
  SlowTimeouts = TRUE
  ZombieSteals = FALSE
  MaxTick = 1
  MaxSlow = 1
  MaxIdleT = 1
  MaxKill = 1
  TrackLast = TRUE
INVARIANTS Inv
PROPERTIES StepsOK
CHECK_DEADLOCK FALSE
