SPECIFICATION FamSpec
CONSTANTS
  MaxRecs = 8
  MaxBatch = 3
  MaxOps = 12
  MaxEpoch = 3
  CapSet = {2, 3, 4}
  OccSet = {FALSE, TRUE}
  UseReaders = TRUE
CHECK_DEADLOCK FALSE
