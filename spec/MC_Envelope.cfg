SPECIFICATION MCSpec
CONSTANTS
  Lens = {0,1,2,3,4,5,6,7,8,9,10,11,12,13,14,15,16,17,24,25,28,29}
  HLs = {0,1,2,3,4,5,6,7,8,9,10,11,12,13,14,15,16,17,18,23,24,25,26,27,28,29,30,31,32,63,64,127,128,129,200,254,255}
  BoundsChecked = TRUE
  MaxPub = 2
  PubLens = {7, 8, 12, 13, 28}
  PubHLs = {0, 7, 8, 9, 12, 13, 14, 255}
  MaxN = 40
  MaxInt = 1
  MaxShape = 150
  IntAnywhere = FALSE
  TableOn = TRUE
INVARIANTS TypeOK C14_ServerUp
PROPERTIES StepsOK
CHECK_DEADLOCK FALSE
