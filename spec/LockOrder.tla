----------------------------- MODULE LockOrder -----------------------------
(***************************************************************************)
(* Lock order of the metadata store (server/metadata.go, groups.go):       *)
(*   meta    metadataAPI.mu              (sync.RWMutex)                    *)
(*   groups  metadataAPI.consumerGroupsMu (sync.RWMutex)                   *)
(*   group   consumerGroup.mu            (sync.RWMutex)                    *)
(* Goroutines are programs = sequences of acquire / release operations,    *)
(* transcribed from the code paths (one action per acquire / release).     *)
(* sync.RWMutex is writer-preferring: a goroutine blocked in Lock() makes  *)
(* every later RLock() wait (`waiting`).  A deadlock is a state in which   *)
(* some goroutine has not finished and no unfinished goroutine can move.   *)
(*                                                                         *)
(* Fixed = FALSE: LostLeadership / Reset acquire `groups` (Reset also the  *)
(* group mutexes, through group.Close) while holding `meta` - the code     *)
(* before the repair; TRUE: they release `meta` first (repaired code).     *)
(***************************************************************************)
EXTENDS Naturals, Sequences, FiniteSets, TLC

CONSTANTS Fixed, WithReader

Locks == {"meta", "groups", "group"}
Op(o, l) == [o |-> o, l |-> l]
Rd(l) == <<Op("RLock", l), Op("RUnlock", l)>>

\* the rebalance reads the partition count of a stream once per partition:
\* GetStream (meta.RLock) twice
Rebalance == Rd("meta") \o Rd("meta")

FsmOps == {"leave", "join", "announce", "creategroup"}
OtherOps == {"lost", "reset"}

Program(name) ==
  CASE name = "leave" ->       \* RemoveConsumerFromGroup: groups.Lock, group.RemoveMember (group.Lock, rebalance)
         <<Op("Lock", "groups"), Op("Lock", "group")>> \o Rebalance \o <<Op("Unlock", "group"), Op("Unlock", "groups")>>
    [] name = "creategroup" -> \* CreateConsumerGroup: groups.Lock, newConsumerGroup -> addMember (group not shared yet), rebalance
         <<Op("Lock", "groups")>> \o Rebalance \o <<Op("Unlock", "groups")>>
    [] name = "join" ->        \* AddConsumerToGroup: groups.RLock only for the look-up, group.AddMember (group.Lock, rebalance)
         Rd("groups") \o <<Op("Lock", "group")>> \o Rebalance \o <<Op("Unlock", "group")>>
    [] name = "announce" ->    \* RemoveStream: meta.Lock ... Unlock, then StreamDeleted on every group under groups.RLock
         <<Op("Lock", "meta"), Op("Unlock", "meta"), Op("RLock", "groups"), Op("Lock", "group")>> \o Rebalance
            \o <<Op("Unlock", "group"), Op("RUnlock", "groups")>>
    [] name = "lost" ->        \* LostLeadership (leadership loop goroutine)
         IF Fixed THEN <<Op("Lock", "meta"), Op("Unlock", "meta"), Op("Lock", "groups"), Op("Unlock", "groups")>>
         ELSE <<Op("Lock", "meta"), Op("Lock", "groups"), Op("Unlock", "groups"), Op("Unlock", "meta")>>
    [] name = "reset" ->       \* Reset (Server.Stop in the caller's goroutine; Restore): streams, then groups incl. group.Close
         IF Fixed THEN <<Op("Lock", "meta"), Op("Unlock", "meta"), Op("Lock", "groups"), Op("Lock", "group"), Op("Unlock", "group"), Op("Unlock", "groups")>>
         ELSE <<Op("Lock", "meta"), Op("Lock", "groups"), Op("Lock", "group"), Op("Unlock", "group"), Op("Unlock", "groups"), Op("Unlock", "meta")>>
    [] name = "reader" ->      \* an API handler: GetStream, then FetchConsumerGroupAssignments
         Rd("meta") \o Rd("groups") \o Rd("group")
    [] name = "none" -> <<>>

Procs == {"fsm", "other", "reader"}
VARIABLES prog,      \* goroutine -> name of its program
          pc,        \* goroutine -> index of its next operation
          writer,    \* lock -> goroutine holding it exclusively, or "none"
          readers,   \* lock -> set of goroutines holding it shared
          waiting    \* lock -> goroutines blocked in Lock() (they keep new readers out)
vars == <<prog, pc, writer, readers, waiting>>

Init ==
  /\ prog \in {f \in [Procs -> FsmOps \cup OtherOps \cup {"reader", "none"}] :
                 f["fsm"] \in FsmOps /\ f["other"] \in OtherOps /\ f["reader"] = (IF WithReader THEN "reader" ELSE "none")}
  /\ pc = [p \in Procs |-> 1]
  /\ writer = [l \in Locks |-> "none"] /\ readers = [l \in Locks |-> {}] /\ waiting = [l \in Locks |-> {}]

Done(p) == pc[p] > Len(Program(prog[p]))
Cur(p) == Program(prog[p])[pc[p]]

CanRLock(p, l) == writer[l] = "none" /\ waiting[l] = {}
CanLock(p, l) == writer[l] = "none" /\ readers[l] = {}

\* Lock(): the goroutine announces itself (from then on new readers wait), later it gets the lock
DoRequest(p) ==
  /\ ~Done(p) /\ Cur(p).o = "Lock" /\ p \notin waiting[Cur(p).l]
  /\ waiting' = [waiting EXCEPT ![Cur(p).l] = @ \cup {p}]
  /\ UNCHANGED <<prog, pc, writer, readers>>
DoLock(p) ==
  /\ ~Done(p) /\ Cur(p).o = "Lock" /\ p \in waiting[Cur(p).l] /\ CanLock(p, Cur(p).l)
  /\ writer' = [writer EXCEPT ![Cur(p).l] = p]
  /\ waiting' = [waiting EXCEPT ![Cur(p).l] = @ \ {p}]
  /\ pc' = [pc EXCEPT ![p] = @ + 1]
  /\ UNCHANGED <<prog, readers>>
DoRLock(p) ==
  /\ ~Done(p) /\ Cur(p).o = "RLock" /\ CanRLock(p, Cur(p).l)
  /\ readers' = [readers EXCEPT ![Cur(p).l] = @ \cup {p}]
  /\ pc' = [pc EXCEPT ![p] = @ + 1]
  /\ UNCHANGED <<prog, writer, waiting>>
DoUnlock(p) ==
  /\ ~Done(p) /\ Cur(p).o = "Unlock" /\ writer[Cur(p).l] = p
  /\ writer' = [writer EXCEPT ![Cur(p).l] = "none"]
  /\ pc' = [pc EXCEPT ![p] = @ + 1]
  /\ UNCHANGED <<prog, readers, waiting>>
DoRUnlock(p) ==
  /\ ~Done(p) /\ Cur(p).o = "RUnlock" /\ p \in readers[Cur(p).l]
  /\ readers' = [readers EXCEPT ![Cur(p).l] = @ \ {p}]
  /\ pc' = [pc EXCEPT ![p] = @ + 1]
  /\ UNCHANGED <<prog, writer, waiting>>

Step(p) == DoRequest(p) \/ DoLock(p) \/ DoRLock(p) \/ DoUnlock(p) \/ DoRUnlock(p)
Next == \E p \in Procs : Step(p)
Spec == Init /\ [][Next]_vars

Blocked(p) ==
  /\ ~Done(p)
  /\ \/ Cur(p).o = "Lock" /\ p \in waiting[Cur(p).l] /\ ~CanLock(p, Cur(p).l)
     \/ Cur(p).o = "RLock" /\ ~CanRLock(p, Cur(p).l)
Deadlocked == (\E p \in Procs : ~Done(p)) /\ (\A p \in Procs : Done(p) \/ Blocked(p))

\* what is demanded: no schedule of these goroutines ends in a deadlock
LO_NoDeadlock == ~Deadlocked
\* used instead of the invariant to LIST every pair of operations that can deadlock (state constraint that prints)
ReportDeadlocks == IF Deadlocked THEN PrintT(<<"DEADLOCK", prog["fsm"], prog["other"]>>) ELSE TRUE

TypeOK == /\ \A l \in Locks : writer[l] \in Procs \cup {"none"} /\ readers[l] \subseteq Procs /\ waiting[l] \subseteq Procs
          /\ \A l \in Locks : writer[l] # "none" => readers[l] = {}
=============================================================================
