SPECIFICATION MCSpec
CONSTANTS
  Cap = 2
  SegCaps = {2}
  FixStale = TRUE
  MaxSets = 3
  MaxOps = 7
  MaxFails = 1
  MaxFaults = 2
  MaxHand = 2
  UseKeys = {"k1", "k2"}
  UseClients = {"c1"}
INVARIANTS TypeOK
PROPERTIES StepsOK
VIEW MCView
CHECK_DEADLOCK FALSE
