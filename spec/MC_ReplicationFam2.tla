------------------------ MODULE MC_ReplicationFam2 ------------------------
(* Two more scenario families for C02 / C04 (stimulus generation only), the   *)
(* actions of MC_Replication scheduled in phases by a step counter:           *)
(*  Fam = "isr"   the in-sync set changes while records are in flight: a       *)
(*                follower is removed, records are published and fetched by    *)
(*                some, the follower is re-admitted while the leader holds     *)
(*                records nobody / not everybody has, then fetches in any      *)
(*                order, further publishes, an election                        *)
(*  Fam = "late"  a replication response is held on its way (FetchHold) while  *)
(*                the world changes - leader change applied by the follower or *)
(*                not yet (lagging), crash of the leader or of the follower,   *)
(*                pause / resume - and is delivered afterwards; then publishes *)
(*                and fetches so that the commit point passes what it carried  *)
(*  Fam = "again" a replica leads with records waiting for their commit, is     *)
(*                replaced while it stays up (it follows and truncates), and   *)
(*                leads again later - the same partition object in a second    *)
(*                term; then publishes and fetches until the commit point moves*)
(* Which replica, which policy, reachability, late HW etc. stay free.         *)
EXTENDS MC_Replication

CONSTANT Fam
VARIABLE ph
famvars == <<mcvars, ph>>

FPublish == \E pol \in Policies : MCPublish(<<pol>>, <<FALSE>>)
FFetch == \E f \in R, late \in BOOLEAN : MCFetch(f, late)
FHold == \E f \in R, late \in BOOLEAN : MCFetchHold(f, late)
FDeliver == \E f \in R : MCDeliver(f)
FElect == \E n \in R, reach \in BOOLEAN, lag \in SUBSET R : MCElect(n, reach, lag)
FElect0 == \E n \in R : MCElect(n, TRUE, {})
FCrash == \E r \in R : MCCrash(r)
FRestart == \E r \in R, reach \in BOOLEAN : MCRestart(r, reach)
FApply == \E f \in R, reach \in BOOLEAN : MCApplyMeta(f, reach)
FShrink == \E f \in R : MCShrink(f)
FExpand == \E f \in R : MCExpand(f)
FLagExp == \E f \in R : MCLagExpire(f)

IsrStep ==
  CASE ph = 0 -> FPublish
    [] ph = 1 -> FFetch \/ FPublish \/ FShrink
    [] ph = 2 -> FShrink \/ (IF nIsr = 0 THEN FLagExp ELSE FFetch \/ FPublish)
    [] ph = 3 -> IF nIsr = 0 THEN FShrink ELSE FFetch \/ FPublish
    [] ph \in {4, 5} -> FFetch \/ FPublish
    [] ph = 6 -> FPublish \/ FExpand
    [] ph = 7 -> FExpand \/ (IF nIsr >= 2 THEN FFetch \/ FPublish ELSE FFetch)
    [] ph = 8 -> IF nIsr >= 2 THEN FFetch \/ FPublish ELSE FExpand
    [] ph \in {9, 10} -> FFetch \/ FPublish
    [] ph = 11 -> FFetch \/ FElect0 \/ FCrash
    [] OTHER -> MCNext

LateStep ==
  CASE ph = 0 -> FPublish
    [] ph = 1 -> FFetch \/ FPublish \/ FHold
    [] ph = 2 -> IF nHold = 0 THEN FHold ELSE FPublish \/ FFetch
    [] ph = 3 -> FElect \/ MCPauseResume \/ FCrash \/ FPublish
    [] ph = 4 -> IF nElect + nPause + nCrash = 0 THEN FElect \/ MCPauseResume \/ FCrash
                 ELSE FDeliver \/ FPublish \/ FFetch \/ FApply \/ FRestart
    [] ph = 5 -> FDeliver \/ FPublish \/ FApply
    [] ph \in {6, 7, 8, 9} -> FPublish \/ FFetch \/ FDeliver \/ FApply \/ FRestart
    [] OTHER -> MCNext

AgainStep ==
  CASE ph = 0 -> FPublish
    [] ph = 1 -> FPublish \/ FFetch
    [] ph = 2 -> FElect0
    [] ph = 3 -> FPublish \/ FFetch \/ FElect0
    [] ph = 4 -> IF nElect < 2 THEN FElect0 ELSE FPublish
    [] ph = 5 -> FPublish
    [] ph \in {6, 7, 8, 9} -> FFetch \/ FPublish
    [] OTHER -> MCNext

\* Fam = "fallback" (round 5): a leader stores records nobody / not everybody has replicated and dies (its HW,
\* or its checkpoint, is still -1 - or above, when a commit and a Checkpoint came first); somebody else is
\* elected, the dead one leaves the in-sync set, the new leader stores and commits other records; the old
\* leader (or another crashed replica, or a follower that applies the leader change late) rejoins while its
\* leader epoch offset requests go unanswered - the new leader is serving (HWFallback) or down - and reconciles
\* by its HW: -1 = the log is emptied; then it fetches and adopts the leader's HW, is re-admitted, elected
FCheckpoint == \E r \in R : MCCheckpoint(r)
FCrashLeader == MCCrash(Leader)
FFallback == \E r \in R : MCRestart(r, FALSE) \/ MCApplyMeta(r, FALSE)
SomeDown == \E r \in R : ~up[r]
FallbackStep ==
  CASE ph = 0 -> FPublish
    [] ph = 1 -> FPublish \/ FFetch \/ FCrashLeader
    [] ph = 2 -> IF nCrash = 0 THEN FCrashLeader \/ FFetch \/ FCheckpoint ELSE FElect
    [] ph = 3 -> IF nCrash = 0 THEN FCrashLeader ELSE IF nElect = 0 THEN FElect ELSE FShrink \/ FPublish
    [] ph = 4 -> IF nElect = 0 THEN FElect ELSE FShrink \/ FPublish \/ FFetch
    [] ph \in {5, 6, 7} -> FShrink \/ FPublish \/ FFetch
    [] ph = 8 -> FFallback \/ FFetch
    [] ph = 9 -> IF SomeDown \/ lagging # {} THEN FFallback ELSE FFetch \/ FPublish \/ FExpand
    [] ph \in {10, 11, 12, 13} -> FFetch \/ FPublish \/ FExpand
    [] OTHER -> MCNext

FamInit == MCInit /\ ph = 0
FamNext == (CASE Fam = "isr" -> IsrStep [] Fam = "late" -> LateStep [] Fam = "fallback" -> FallbackStep [] OTHER -> AgainStep) /\ ph' = ph + 1
FamSpec == FamInit /\ [][FamNext]_famvars
=============================================================================
