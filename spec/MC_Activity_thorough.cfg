SPECIFICATION MCSpec
CONSTANTS
  Nodes = {"a"}
  SnapCarriesLP = TRUE
  Kinds = {"E"}
  MaxOps = 4
  MaxSys = 0
  MaxFail = 1
  MaxRecFail = 1
  MaxBlock = 1
  MaxTake = 0
  MaxCrash = 1
  MaxStep = 0
  MaxZombie = 0
  MaxSnap = 0
  MaxForeign = 0
  Keeps = {0}
  Eager = TRUE
INVARIANTS TypeOK C18_ControllerDispatches C18_IdleMeansPublished C18_IdContent C18_NoSkip C18_FirstOrder C18_LPSound I_DispAboveLP NoPanic
PROPERTIES StepsOK
VIEW MCView
CHECK_DEADLOCK FALSE
