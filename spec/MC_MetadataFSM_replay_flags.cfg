SPECIFICATION MCSpec
CONSTANTS
  GroupIds = {"g1"}
  StreamSet = {"sa"}
  MaxParts = 1
  Brokers = {"r1", "r2"}
  ConsumerSet = {"c1"}
  Coords = {"A"}
  OpKinds = {"CreateStream", "Pause", "Resume", "SetReadonly"}
  Variants = {"plain"}
  Extras = {"PersistWith"}
  MaxOps = 4
  MaxSnaps = 1
  MaxRestarts = 1
CHECK_DEADLOCK FALSE
