--------------------------- MODULE GroupSub ---------------------------
(***************************************************************************)
(* Consumer-group subscriptions on ONE partition (server/api.go:           *)
(* SubscribeInternal; server/partition.go: Subscribe, newSubscribeLoop,    *)
(* removeGroupSubscriber, subscription.Close), as served by the partition  *)
(* LEADER ("L") and by an in-sync FOLLOWER ("F": every server has its own  *)
(* partition object with its own group table).                             *)
(* Property C13: at any moment at most one subscription per consumer group *)
(* is active on a partition.                                               *)
(*                                                                         *)
(* Abstract state                                                          *)
(*   subs = every subscription handed out for the partition, in creation   *)
(*          order: [n, g, c, e, open, loop]                                *)
(*            n     the server that serves it ("L" | "F")                  *)
(*            g     group id ("" = plain subscription, no group)           *)
(*            c, e  consumer id and group epoch of the request             *)
(*            open  the subscription's `closed` channel is not closed      *)
(*            loop  its subscribe loop (goroutine) has not returned yet    *)
(*            strm  the CLIENT's stream of a subscription made through the  *)
(*                  gRPC handler apiServer.Subscribe: "open" (handler still *)
(*                  serving it) | "ended"; "none" = made through            *)
(*                  SubscribeInternal (no client stream)                    *)
(*   reg  = partition.consumers of each server: node -> group -> index     *)
(*          into subs of the registered member (0 = no entry)              *)
(*   ldr  = the server that leads the partition now ("L" = the server that *)
(*          led it at the start; the names are identities, not roles)      *)
(*   obs  = result of the last call [a, err, id]                           *)
(*                                                                         *)
(* A subscribe request q = [n, ris, g, c, e, bad, stop]:                   *)
(*   n    the server it is sent to        ris  ReadISRReplica flag         *)
(*   g, c, e  group, consumer, group epoch                                 *)
(*   bad  its start/stop positions are invalid                             *)
(*   stop "none" = open-ended, "bounded" = it carries a stop position that *)
(*        is not reached yet (the subscription keeps running)              *)
(*                                                                         *)
(* Steps (one per critical section of the code):                           *)
(*   DoSubscribe(q)  SubscribeInternal routing (a follower serves only     *)
(*        ReadISRReplica requests and never group requests - its group     *)
(*        table knows nothing about the leader's member), then             *)
(*        partition.Subscribe, atomic under consumersMu for a group        *)
(*        request: epoch comparison, start/stop offset resolution, close   *)
(*        of the previous member, start of the loop, registration          *)
(*   DoBurst  concurrent subscribes (real goroutines)                      *)
(*   DoRace(s, q)  the clean-up of the ending subscription s and the       *)
(*        subscribe q contend for consumersMu at the same time: the two    *)
(*        critical sections take effect in either order                    *)
(*   DoResumeAgain  a ResumeStream operation applied to a partition that    *)
(*        is not paused (a retried / duplicated request): no effect        *)
(*   DoElect  the controller moves the leadership of the partition to the  *)
(*        other in-sync replica (electNewPartitionLeader -> ChangeLeader   *)
(*        -> partition.SetLeader on both servers).  The subscribe loops    *)
(*        and the group table of the server that steps down are left as    *)
(*        they are (stopLeading does not touch them).                      *)
(*   DoCancelByClient(s)  subscription.Close() - what apiServer.Subscribe  *)
(*        does when the client's context ends or the loop reported an      *)
(*        error (idempotent)                                               *)
(*   DoLoopExit(s)  the subscribe loop returns (context cancelled, error   *)
(*        delivered or `closed` seen) and runs its deferred                *)
(*        removeGroupSubscriber - a SEPARATE step, arbitrarily later       *)
(*                                                                         *)
(* A subscription is ACTIVE while it is open and its loop runs: only then  *)
(* can it hand messages to a consumer.  (A closed subscription whose loop  *)
(* has not noticed yet delivers nothing: the loop selects on `closed`; a   *)
(* loop that ended leaves an open but dead subscription behind until the   *)
(* API handler closes it.)  Activity is counted over the whole partition,  *)
(* whichever server serves the subscription.                               *)
(***************************************************************************)
EXTENDS Integers, Sequences, FiniteSets

CONSTANTS Groups,      \* real consumer groups (strings); "" is the plain subscription
          CleanupById, \* TRUE = removeGroupSubscriber as liftbridge shipped it (compares
                       \* consumer ids; defective, kept to generate the counterexample that
                       \* is replayed on the real code); FALSE = the code as it is today
          GroupOnFollower, \* TRUE = a follower serves ReadISRReplica GROUP requests (defective
                       \* variant, for counterexamples); FALSE = today's code refuses them
          OnlyOpenEnded    \* TRUE = only open-ended group subscriptions are registered
                       \* (defective variant); FALSE = today's code registers every one

VARIABLES subs, reg, obs, ldr
vars == <<subs, reg, obs, ldr>>

NoGroup == ""
Nodes == {"L", "F"}
Other(n) == IF n = "L" THEN "F" ELSE "L"
Idx == 1..Len(subs)

\* A subscription is closed (subscription.Close): the gRPC handler serving it, if
\* any, sees `closed` and returns - the client's stream ends.
Shut(x) == [x EXCEPT !.open = FALSE, !.strm = IF @ = "open" THEN "ended" ELSE @]

Active(ss, s) == ss[s].open /\ ss[s].loop
ActiveOf(ss, g) == {s \in 1..Len(ss) : ss[s].g = g /\ Active(ss, s)}
ActiveSet(ss) == {s \in 1..Len(ss) : Active(ss, s)}

Init ==
  /\ subs = <<>>
  /\ reg = [n \in Nodes |-> [g \in Groups |-> 0]]
  /\ obs = [a |-> "Open", err |-> "", id |-> 0]
  /\ ldr = "L"

-----------------------------------------------------------------------------
(* The actions as the code performs them *)

\* apiServer.SubscribeInternal: which requests reach partition.Subscribe
\* (the server that leads the partition serves everything; any other replica
\* serves only ReadISRReplica requests and never group requests)
Route(q) ==
  IF q.n = ldr THEN "serve"
  ELSE IF ~q.ris THEN "notleader"
  ELSE IF q.g # NoGroup /\ ~GroupOnFollower THEN "invalid"
  ELSE "serve"

\* The critical sections as FUNCTIONS of (subs, reg): [subs, reg, obs] after the
\* section ran on (ss, rg).  The actions below bind the next state to them; DoRace
\* composes two of them.

\* partition.Subscribe.  Order in the code: (consumersMu) epoch comparison,
\* getStartOffset/getStopOffset validation, close of the previous member,
\* reader + loop start, registration.
SubscribeF(ss, rg, q) ==
  LET ex == IF q.g = NoGroup THEN 0 ELSE rg[q.n][q.g] IN
  IF Route(q) # "serve" THEN
    [subs |-> ss, reg |-> rg, obs |-> [a |-> "Subscribe", err |-> Route(q), id |-> 0]]
  ELSE IF ex # 0 /\ ss[ex].e > q.e THEN
    [subs |-> ss, reg |-> rg, obs |-> [a |-> "Subscribe", err |-> "stale", id |-> 0]]
  ELSE IF q.bad THEN
    [subs |-> ss, reg |-> rg, obs |-> [a |-> "Subscribe", err |-> "invalid", id |-> 0]]
  ELSE
    LET closedPrev == IF ex = 0 THEN ss ELSE [ss EXCEPT ![ex] = Shut(@)]
        k == Len(ss) + 1 IN
    [subs |-> Append(closedPrev, [n |-> q.n, g |-> q.g, c |-> q.c, e |-> q.e,
                                  open |-> TRUE, loop |-> TRUE,
                                  strm |-> IF q.via = "grpc" THEN "open" ELSE "none"]),
     reg |-> IF q.g = NoGroup \/ (OnlyOpenEnded /\ q.stop # "none") THEN rg
             ELSE [rg EXCEPT ![q.n][q.g] = k],
     obs |-> [a |-> "Subscribe", err |-> "", id |-> k]]

DoSubscribe(q) ==
  LET r == SubscribeF(subs, reg, q) IN
  /\ subs' = r.subs /\ reg' = r.reg /\ obs' = r.obs
  /\ UNCHANGED ldr

\* n subscribe calls of the same group with the same epoch, distinct consumers
\* cs[1..n], issued CONCURRENTLY on the leader (real goroutines released
\* together).  Under consumersMu they take effect one after the other in some
\* order: the one that comes last (the k-th) stays, every other one is closed by
\* its successor.
DoBurst(g, cs, e) ==
  LET ex == reg[ldr][g]
      n  == Len(cs) IN
  /\ UNCHANGED ldr
  /\ IF ex # 0 /\ subs[ex].e > e THEN
       /\ obs' = [a |-> "Burst", err |-> "stale", id |-> 0]
       /\ UNCHANGED <<subs, reg>>
     ELSE
       \E k \in 1..n :
         LET closedPrev == IF ex = 0 THEN subs ELSE [subs EXCEPT ![ex] = Shut(@)]
             new == [i \in 1..n |-> [n |-> ldr, g |-> g, c |-> cs[i], e |-> e,
                                     open |-> (i = k), loop |-> TRUE, strm |-> "none"]] IN
         /\ subs' = closedPrev \o new
         /\ reg' = [reg EXCEPT ![ldr][g] = Len(subs) + k]
         /\ obs' = [a |-> "Burst", err |-> "", id |-> n]

\* subscription.Close()
DoCancelByClient(s) ==
  /\ s \in Idx
  /\ subs' = [subs EXCEPT ![s] = Shut(@)]
  /\ obs' = [a |-> "Cancel", err |-> "", id |-> s]
  /\ UNCHANGED <<reg, ldr>>

\* the loop of subscription s returns; deferred removeGroupSubscriber on the
\* server that served it: the group entry is removed only if it still refers to
\* this very subscription (after fix 'remove the group entry only for the same
\* subscription'; the original code compared consumer ids, see RemoveById)
RemoveBySub(ss, rg, s) ==
  LET g == ss[s].g
      n == ss[s].n IN
  IF g = NoGroup THEN rg
  ELSE IF rg[n][g] = s THEN [rg EXCEPT ![n][g] = 0] ELSE rg

RemoveById(ss, rg, s) ==
  LET g == ss[s].g
      n == ss[s].n IN
  IF g = NoGroup THEN rg
  ELSE IF rg[n][g] # 0 /\ ss[rg[n][g]].c = ss[s].c THEN [rg EXCEPT ![n][g] = 0] ELSE rg

LoopExitF(ss, rg, s) ==
  \* (a loop served by the gRPC handler ends because the client's context ended: the
  \* handler returns as well and closes the subscription on its way out)
  [subs |-> [ss EXCEPT ![s] = [(IF @.strm = "open" THEN Shut(@) ELSE @) EXCEPT !.loop = FALSE]],
   reg |-> IF CleanupById THEN RemoveById(ss, rg, s) ELSE RemoveBySub(ss, rg, s),
   obs |-> [a |-> "LoopExit", err |-> "", id |-> s]]

DoLoopExit(s) ==
  /\ s \in Idx /\ subs[s].loop
  /\ LET r == LoopExitF(subs, reg, s) IN subs' = r.subs /\ reg' = r.reg /\ obs' = r.obs
  /\ UNCHANGED ldr

\* The loop of subscription s ends (its deferred clean-up wants consumersMu)
\* while the subscribe q wants consumersMu too: both critical sections run, in
\* either order.  obs = the subscribe's result.
DoRace(s, q) ==
  /\ s \in Idx /\ subs[s].loop
  /\ UNCHANGED ldr
  /\ \E exitFirst \in BOOLEAN :
       LET r1 == IF exitFirst THEN LoopExitF(subs, reg, s) ELSE SubscribeF(subs, reg, q)
           r2 == IF exitFirst THEN SubscribeF(r1.subs, r1.reg, q) ELSE LoopExitF(r1.subs, r1.reg, s)
           so == IF exitFirst THEN r2.obs ELSE r1.obs IN
       /\ subs' = r2.subs /\ reg' = r2.reg
       /\ obs' = [a |-> "Race", err |-> so.err, id |-> so.id]

\* A ResumeStream operation that reaches the servers AGAIN while the partition runs
\* (two requests that both saw it paused, a retried request): metadataAPI.
\* ResumePartition finds the partition not paused and does nothing - in particular
\* the partition OBJECT (with its group table and its subscriptions) stays.
DoResumeAgain ==
  /\ obs' = [a |-> "Resume", err |-> "", id |-> 0]
  /\ UNCHANGED <<subs, reg, ldr>>

\* The controller elects the other in-sync replica (metadataAPI.
\* electNewPartitionLeader, Raft operation CHANGE_LEADER, partition.SetLeader on
\* every replica: stopLeading / becomeFollower on the old leader, stopFollowing /
\* becomeLeader on the new one).  Neither touches subscribe loops or group tables.
DoElect ==
  /\ ldr' = Other(ldr)
  /\ obs' = [a |-> "Elect", err |-> "", id |-> 0]
  /\ UNCHANGED <<subs, reg>>

-----------------------------------------------------------------------------
(* What property C13 demands *)

\* at most one active subscription per group, on whichever server
C13_OneActive == \A g \in Groups : Cardinality(ActiveOf(subs, g)) <= 1

SameSubs == /\ Len(subs') = Len(subs)
            /\ \A s \in Idx : subs'[s] = subs[s]

\* some subscription of the group that is still active or still registered
\* carries a newer epoch than e
NewerAround(g, e) == \E s \in Idx : /\ subs[s].g = g /\ subs[s].e > e
                                    /\ (Active(subs, s) \/ reg[subs[s].n][g] = s)

P_Subscribe(q) ==
  IF obs'.err # "" THEN
    \* refused (for whatever reason): everything is left untouched ...
    /\ SameSubs /\ reg' = reg
    \* ... and a refusal for the epoch is justified by a newer epoch
    /\ obs'.err = "stale" => (q.g # NoGroup /\ NewerAround(q.g, q.e))
  ELSE
    \* accepted: never while a member with a newer epoch is active
    /\ q.g # NoGroup => ~\E s \in ActiveOf(subs, q.g) : subs[s].e > q.e
    \* the new subscription exists, is active and carries the request's ids
    /\ Len(subs') = Len(subs) + 1
    /\ LET k == Len(subs') IN
       /\ subs'[k].g = q.g /\ subs'[k].c = q.c /\ subs'[k].e = q.e /\ Active(subs', k)
       \* every previously active member of the group - on any server - is
       \* cancelled, nothing else becomes active, other groups are not disturbed
       /\ q.g # NoGroup => ActiveOf(subs', q.g) = {k}
       /\ \A s \in Idx : Active(subs', s) => Active(subs, s)
       /\ \A s \in Idx : (subs[s].g # q.g \/ q.g = NoGroup) => (Active(subs', s) <=> Active(subs, s))

\* concurrent subscribes of one group: afterwards at most one member is active
\* (C13_OneActive), either all are refused (and nothing changed) or all exist;
\* every previously active member of the group is cancelled; other groups are
\* not disturbed
P_Burst(g, cs, e) ==
  IF Len(subs') = Len(subs) THEN
    /\ SameSubs /\ reg' = reg
    /\ NewerAround(g, e)
  ELSE
    /\ Len(subs') = Len(subs) + Len(cs)
    /\ ~\E s \in ActiveOf(subs, g) : subs[s].e > e
    /\ \A s \in Idx : subs[s].g = g => ~Active(subs', s)
    /\ \A s \in Idx : subs[s].g # g => (Active(subs', s) <=> Active(subs, s))
    /\ Cardinality(ActiveOf(subs', g)) = 1

\* cancelling / ending a subscription never activates anything and never
\* disturbs another subscription
P_Cancel(s) ==
  /\ Len(subs') = Len(subs)
  /\ s \in Idx => ~Active(subs', s)
  /\ \A t \in Idx : t # s => (Active(subs', t) <=> Active(subs, t))

P_LoopExit(s) == P_Cancel(s)

\* a loop exit racing with a subscribe: s is inactive afterwards; the subscribe
\* is judged like a subscribe, except that the ending subscription s may or may
\* not have counted as the current member (either order is legitimate)
P_Race(s, q) ==
  /\ s \in Idx => ~Active(subs', s)
  /\ IF obs'.err # "" THEN
       /\ Len(subs') = Len(subs)
       /\ \A t \in Idx : t # s => (subs'[t] = subs[t])
       /\ obs'.err = "stale" => (q.g # NoGroup /\ NewerAround(q.g, q.e))
     ELSE
       /\ q.g # NoGroup => ~\E t \in ActiveOf(subs, q.g) : t # s /\ subs[t].e > q.e
       /\ Len(subs') = Len(subs) + 1
       /\ LET k == Len(subs') IN
          /\ subs'[k].g = q.g /\ subs'[k].c = q.c /\ subs'[k].e = q.e /\ Active(subs', k)
          /\ q.g # NoGroup => ActiveOf(subs', q.g) = {k}
          /\ \A t \in Idx : Active(subs', t) => Active(subs, t)
          /\ \A t \in Idx : (t # s /\ (subs[t].g # q.g \/ q.g = NoGroup)) => (Active(subs', t) <=> Active(subs, t))

\* a leader change by itself starts no subscription and re-activates none
\* (whether the subscriptions of the server that steps down go on is left open)
P_Elect ==
  /\ Len(subs') = Len(subs)
  /\ \A s \in Idx : Active(subs', s) => Active(subs, s)
  /\ \A s \in Idx : subs'[s].g = subs[s].g /\ subs'[s].c = subs[s].c /\ subs'[s].e = subs[s].e

\* a repeated resume of a running partition starts nothing
P_Resume == P_Elect

\* "replaces AND CANCELS": the client's stream of a subscription that was closed
\* (replaced, cancelled) has ended - the handler above the partition must not go on
\* serving it
C13_StreamEnded == \A s \in Idx : subs[s].strm = "open" => subs[s].open

\* Situation of the open finding C13-member-stranded-on-former-leader: an active
\* group member is served by a server that does not lead the partition (any more)
Stranded(ss, l) == \E s \in 1..Len(ss) : ss[s].g # NoGroup /\ Active(ss, s) /\ ss[s].n # l

-----------------------------------------------------------------------------
(* Mechanism invariants (implementation level: a failure on a recorded    *)
(* trace is drift, not a violation)                                        *)

\* every active group member is the registered one
ActiveRegistered == \A s \in Idx : (subs[s].g # NoGroup /\ Active(subs, s)) => reg[subs[s].n][subs[s].g] = s
\* a registered entry belongs to its group and its loop still runs
RegOK == \A n \in Nodes, g \in Groups : reg[n][g] # 0 =>
           (reg[n][g] \in Idx /\ subs[reg[n][g]].g = g /\ subs[reg[n][g]].n = n /\ subs[reg[n][g]].loop)
TypeOK == /\ \A s \in Idx : subs[s].open \in BOOLEAN /\ subs[s].loop \in BOOLEAN
          /\ \A s \in Idx : subs[s].n \in Nodes
          /\ \A n \in Nodes, g \in Groups : reg[n][g] \in 0..Len(subs)
          /\ ldr \in Nodes
          /\ \A s \in Idx : subs[s].strm \in {"none", "open", "ended"}
=============================================================================
