SPECIFICATION MCSpec
CONSTANTS
  Cap = 2
  SegCap = 2
  FixStale = FALSE
  MaxSets = 4
  MaxOps = 8
  MaxFails = 1
  MaxFaults = 2
  UseKeys = {"k1", "k2", "k3"}
  UseClients = {"c1"}
INVARIANTS TypeOK
PROPERTIES StepsOK
VIEW MCView
CHECK_DEADLOCK FALSE
