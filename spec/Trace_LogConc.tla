--------------------------- MODULE Trace_LogConc ---------------------------
(* Trace validation for LogConc.tla (check X05): every line of trace.ndjson *)
(* is one step of one goroutine of the real commit log, executed from park  *)
(* point to park point, with the abstract state projected from the real     *)
(* objects and the directory after the step.  The shared variables (segs,   *)
(* files, listed, active, hw, epochs, rd, obs) and the pc of every process  *)
(* are bound to the recording; the other locals of the processes (what a    *)
(* goroutine holds in local variables: picked segment, layout offset,       *)
(* snapshot, compaction result) and the ghosts are taken from the model.    *)
(*   FAIL "P": a property-level predicate fails on real behaviour           *)
(*   FAIL "I": the step is not what the model does (conformance drift)      *)
EXTENDS LogConc, TLC, Json

Trace == ndJsonDeserialize("trace.ndjson")

\* loose: a call of this behaviour had to wait for a lock (line "Blocked"): from then on a released
\* goroutine may run on into the step of another one, so only the state invariants are judged
VARIABLES l, loose
tvars == <<vars, l, loose>>

ToSet(s) == {s[i] : i \in DOMAIN s}

Fail(kind, e, name) == PrintT(<<"FAIL", kind, e.t, l, e.a, name>>)
Chk(ok, kind, e, name) == IF ok THEN TRUE ELSE Fail(kind, e, name)

AppOk == app.seg \in 1..Len(segs) /\ app.batch # <<>>
\* the model step that corresponds to the line (ok = FALSE: no model step applies in this state)
None == [ok |-> FALSE, n |-> S]
Mk(g, n) == IF g THEN [ok |-> TRUE, n |-> n] ELSE None
ModelOf(e) ==
  CASE e.a = "AppBegin" -> Mk(G_AppBegin(e.args.batch), N_AppBegin(e.args.batch))
    [] e.a = "AppSetBegin" -> Mk(G_AppSetBegin(e.args.batch), N_AppSetBegin(e.args.batch))
    [] e.a = "Reopen" -> Mk(G_Reopen, N_Reopen)
    [] e.a = "TrnBegin" -> Mk(G_TrnBegin(e.args.o), N_TrnBegin(e.args.o))
    [] e.a = "ClnBegin" -> Mk(G_ClnBegin, N_ClnBegin)
    [] e.a = "SetHW" -> Mk(G_SetHW(e.args.h), N_SetHW(e.args.h))
    [] e.a = "NewEpoch" -> Mk(G_NewEpoch(e.args.e), N_NewEpoch(e.args.e))
    [] e.a = "CrashImage" -> Mk(TRUE, [S EXCEPT !.obs = e.st.obs])
    [] e.a = "RdNew" -> Mk(TRUE, [S EXCEPT !.rd = e.st.rd, !.obs = e.st.obs])
    [] e.a = "RdNext" -> Mk(TRUE, [S EXCEPT !.rd = e.st.rd, !.obs = e.st.obs])
    [] e.a = "Step" /\ e.args.p = "app" ->
         (CASE app.pc = "chk" -> Mk(G_AppChk, N_AppChk)
            [] app.pc = "pick" /\ app.batch # <<>> -> Mk(G_AppPick, N_AppPick)
            [] app.pc = "epoch" /\ AppOk -> Mk(G_AppEpoch, N_AppEpoch)
            [] app.pc = "wr" /\ AppOk -> Mk(G_AppWrite, N_AppWrite)
            [] OTHER -> None)
    [] e.a = "Step" /\ e.args.p = "trn" ->
         (CASE trn.pc = "repl" /\ trn.k \in 1..Len(listed) -> Mk(G_TrnReplace, N_TrnReplace)
            [] trn.pc = "clear" -> Mk(G_TrnClear, N_TrnClear)
            [] OTHER -> None)
    [] e.a = "Step" /\ e.args.p = "cln" ->
         (CASE cln.pc = "snap" /\ cln.snap # <<>> -> Mk(G_ClnWork, N_ClnWork)
            [] cln.pc = "del" /\ cln.snap # <<>> -> Mk(G_ClnDel, N_ClnDel)
            [] cln.pc = "swap" /\ cln.snap # <<>> /\ cln.res # <<>> -> Mk(G_ClnSwap, N_ClnSwap)
            [] OTHER -> None)
    [] OTHER -> None

Passive(e) == e.a \in {"Skip", "Blocked", "Quiet", "Timeout", "Stress"}

Bind(e, m) ==
  /\ segs' = e.st.segs /\ files' = ToSet(e.st.files) /\ listed' = e.st.listed /\ active' = e.st.active
  /\ hw' = e.st.hw /\ epochs' = e.st.epochs /\ rd' = e.st.rd /\ obs' = e.st.obs
  \* the batch of the call in flight is what the driver passed, whatever the model thinks of the call
  /\ app' = [m.n.app EXCEPT !.pc = e.st.app.pc,
                            !.batch = IF e.st.app.pc = "idle" THEN <<>>
                                      ELSE IF e.a \in {"AppBegin", "AppSetBegin"} THEN e.args.batch ELSE app.batch]
  /\ trn' = [m.n.trn EXCEPT !.pc = e.st.trn.pc]
  /\ cln' = [m.n.cln EXCEPT !.pc = e.st.cln.pc]
  /\ ever' = ever \cup UNION {Range(e.st.segs[k].recs) : k \in 1..Len(e.st.segs)}
  \* a stress round with a truncator overlaps Append and Truncate all the time (open finding)
  /\ taint' = IF e.a = "Stress" /\ e.args.trunc THEN {"append-overlaps-truncate"}
              ELSE IF m.ok THEN taint \cup Tags(m.n) ELSE taint
  /\ UNCHANGED cfg

Reset(e) ==
  /\ cfg' = e.st.cfg
  /\ segs' = e.st.segs /\ files' = ToSet(e.st.files) /\ listed' = e.st.listed /\ active' = e.st.active
  /\ hw' = e.st.hw /\ epochs' = e.st.epochs /\ rd' = e.st.rd /\ obs' = e.st.obs
  /\ app' = AppIdle /\ trn' = TrnIdle /\ cln' = ClnIdle
  /\ ever' = UNION {Range(e.st.segs[k].recs) : k \in 1..Len(e.st.segs)}
  /\ taint' = {}

TraceInit ==
  LET e == Trace[1] IN
  /\ cfg = e.st.cfg
  /\ segs = e.st.segs /\ files = ToSet(e.st.files) /\ listed = e.st.listed /\ active = e.st.active
  /\ hw = e.st.hw /\ epochs = e.st.epochs /\ rd = e.st.rd /\ obs = e.st.obs
  /\ app = AppIdle /\ trn = TrnIdle /\ cln = ClnIdle
  /\ ever = {} /\ taint = {}
  /\ l = 2 /\ loose = FALSE

\* conformance: every recorded variable against the model's next value
Conform(e, m) ==
  /\ Chk(m.ok, "I", e, "guard")
  /\ m.ok =>
       /\ Chk(segs' = m.n.segs, "I", e, "segs")
       /\ Chk(files' = m.n.files, "I", e, "files")
       /\ Chk(listed' = m.n.listed /\ active' = m.n.active, "I", e, "listed")
       /\ Chk(hw' = m.n.hw, "I", e, "hw")
       /\ Chk(epochs' = m.n.epochs, "I", e, "epochs")
       /\ Chk(e.st.app.pc = m.n.app.pc /\ e.st.trn.pc = m.n.trn.pc /\ e.st.cln.pc = m.n.cln.pc, "I", e, "pc")
       /\ Chk(obs' = m.n.obs, "I", e, "obs")

EpName == IF taint' = {} THEN "X05_Epochs" ELSE "X05_Epochs:append-overlaps-truncate"
EpochsNow == Settled' => EpochsMatch(View', epochs')

JudgeState(e) ==
  /\ Chk(X05_Ordered', "P", e, "X05_Ordered")
  /\ Chk(X05_Dense', "P", e, "X05_Dense")
  /\ Chk(X05_NextFollows', "P", e, "X05_NextFollows")
  /\ Chk((\A p \in {e.st.app.pc, e.st.trn.pc, e.st.cln.pc} : p # "?running") => EpochsNow, "P", e, EpName)
  /\ Chk(hw' >= hw, "P", e, "X05_HWMonotone")

\* a stress round (real schedule), judged when everybody has finished: the state predicates, and
\* what the calls returned against what is stored
StrictOffs(q) == \A i \in 1..Len(q) - 1 : q[i].off < q[i + 1].off
JudgeStress(e) ==
  LET v == View'
      st == e.args.stored IN
  /\ Chk(e.args.errs = <<>>, "P", e, "X05_StressCallFailed")
  /\ Chk(e.args.rerrs = <<>>, "P", e, "X05_Reader")
  /\ Chk(\A i \in DOMAIN v : \A j \in DOMAIN st : st[j].id = v[i].id => st[j].off = v[i].off, "P", e, "X05_AppendStored")
  /\ Chk((~e.args.trunc /\ ~cfg.compact /\ cfg.msgs = 0) =>
            \A j \in DOMAIN st : \E i \in DOMAIN v : v[i].id = st[j].id, "P", e, "X05_AppendStored")
  /\ Chk(\A r \in DOMAIN e.args.reads :
            /\ StrictOffs(e.args.reads[r])
            /\ \A i \in DOMAIN e.args.reads[r] : \E j \in DOMAIN st : st[j] = e.args.reads[r][i], "P", e, "X05_Reader")

\* what the properties demand of this step
Judge(e) ==
  /\ JudgeState(e)
  /\ (e.a = "Stress") => JudgeStress(e)
  /\ (e.a = "Reopen") => Chk(P_Reopen, "P", e, "X05_Reopen")
  /\ (e.a = "AppSetBegin") => Chk(P_AppendStep, "P", e, "X05_AppendKeeps")
  /\ (e.a = "Step" /\ e.args.p = "app") =>
        /\ Chk(P_AppendStep, "P", e, "X05_AppendKeeps")
        /\ (obs'.a = "Append" /\ app.batch # <<>>) =>
              Chk(P_AppendRet(app.batch, segs[active].next), "P", e,
                  IF obs'.err = "" THEN "X05_AppendStored" ELSE "X05_AppendRefused")
  /\ (e.a = "TrnBegin") => Chk(P_TruncateStep(e.args.o), "P", e, "X05_TruncateSuffix")
  /\ (e.a = "Step" /\ e.args.p = "trn" /\ trn.pc # "idle") => Chk(P_TruncateStep(trn.o), "P", e, "X05_TruncateSuffix")
  /\ (e.a = "Step" /\ e.args.p = "cln" /\ cln.pc # "idle") =>
        IF e.st.cln.pc = "idle"
        THEN Chk(obs'.err = "", "P", e, "X05_CleanFailed")
             /\ (cln.snap # <<>> => Chk(P_CleanSwap(cln.b, segs[Last(cln.snap)].base), "P", e, "X05_CleanRemoves"))
        ELSE Chk(P_CleanStep, "P", e, "X05_CleanStep")
  /\ (e.a = "CrashImage") => Chk(obs'.err = "" /\ P_CrashImage(cln.b), "P", e, "X05_DiskNoHole")
  /\ (e.a = "RdNext") =>
        /\ Chk(P_RdClass(e.args.r) /\ P_RdContent(e.args.r) /\ P_RdOrder(e.args.r) /\ P_RdQuiet(e.args.r), "P", e, "X05_Reader")
        /\ Chk(P_RdCommitted(e.args.r), "P", e,
               IF HWBelowStart THEN "X05_ReaderCommitted:hw-below-log-start" ELSE "X05_ReaderCommitted")
  /\ (e.a = "SetHW") => Chk(P_SetHW(e.args.h), "P", e, "X05_SetHW")
  /\ (e.a = "NewEpoch") => Chk(P_NewEpoch, "P", e, "X05_NewEpoch")

TraceNext ==
  /\ Trace[l].a # "End"
  /\ l' = l + 1
  /\ LET e == Trace[l] IN
     IF e.a = "Open" THEN Reset(e) /\ loose' = FALSE
     ELSE LET m == IF Passive(e) \/ loose THEN None ELSE ModelOf(e) IN
          /\ loose' = (loose \/ e.a = "Blocked")
          /\ Bind(e, m)
          /\ IF loose \/ e.a = "Blocked" THEN JudgeState(e) ELSE Judge(e)
          /\ ((~Passive(e) /\ ~loose) => Conform(e, m))
          /\ Chk(TypeOK', "I", e, "TypeOK")
          /\ Chk(X05_ActiveListed', "I", e, "X05_ActiveListed")

TraceSpec == TraceInit /\ [][TraceNext]_tvars

Done == PrintT(<<"DONE", TLCGet("stats").diameter, Len(Trace)>>)
=============================================================================
