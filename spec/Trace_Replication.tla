------------------------- MODULE Trace_Replication -------------------------
(* Trace validation for Replication.tla (C02, C04).  Every line of          *)
(* trace.ndjson is one step executed on the real three-replica kit with     *)
(* the projected state of all replicas after the step.  Recorded variables  *)
(* (meta, up, role, log, hw, hwDisk, ec, isrOff, obs, held) are bound to     *)
(* recording; the unrecorded ones (pend, caught, nacked, taint, committed)   *)
(* are computed by the specification.  Then                                 *)
(*   - the C02 / C04 invariants and action properties are evaluated on the  *)
(*     real state / transition: FAIL "P" (with the known-defect taint set), *)
(*   - every recorded variable is compared with what the action of the      *)
(*     specification yields: FAIL "I" = conformance drift.                  *)
EXTENDS Replication, TLC, Json

Trace == ndJsonDeserialize("trace.ndjson")
VARIABLES l
tvars == <<vars, l>>

ToSet(s) == {s[i] : i \in DOMAIN s}
AcksOf(o) == [acks |-> {[v |-> o.acks[i].v, off |-> o.acks[i].off, pol |-> o.acks[i].pol] : i \in DOMAIN o.acks},
              nacks |-> ToSet(o.nacks)]
MetaOf(m) == [leader |-> m.leader, lepoch |-> m.lepoch, isr |-> ToSet(m.isr), idx |-> m.idx]
Fn(rec) == [r \in R |-> rec[r]]
IsrOf(rec) == [r \in R |-> [x \in DOMAIN rec[r] |-> rec[r][x]]]

\* the recorded part of the state
Seen(e) == [meta |-> MetaOf(e.st.meta), up |-> Fn(e.st.up), role |-> Fn(e.st.role), log |-> Fn(e.st.log),
            hw |-> Fn(e.st.hw), hwDisk |-> Fn(e.st.hwDisk), ec |-> Fn(e.st.ec), isrOff |-> IsrOf(e.st.isrOff),
            obs |-> AcksOf(e.obs), lagging |-> ToSet(e.st.lagging)]

TaintStr == IF taint' = {} THEN "-" ELSE
  LET has(x) == IF x \in taint' THEN x \o "," ELSE "" IN
  has("epoch-convention") \o has("epoch-gap") \o has("expand-lagging") \o has("hw-fallback") \o has("hw-fallback-kept") \o has("hw-fallback-reported") \o has("stale-isr-offset")

Fail(kind, e, name) == PrintT(<<"FAIL", kind, e.t, l, e.a, name, TaintStr>>)
Chk(ok, kind, e, name) == IF ok THEN TRUE ELSE Fail(kind, e, name)

Skipped(e) == e.res # ""

\* what the specification's action yields for this step
NextOf(e) ==
  IF Skipped(e) THEN Cur ELSE
  CASE e.a = "Publish" -> N_Publish(e.args.recs)
    [] e.a = "PublishRejected" -> N_PublishRejected(e.args.v)
    [] e.a = "Fetch" -> LET nt == N_Fetch(e.args.f, TRUE) IN
                        IF nt.hw = Fn(e.st.hw) THEN nt ELSE N_Fetch(e.args.f, FALSE)
    [] e.a = "FetchLost" -> N_FetchLost(e.args.f)
    \* which HW the held response carries only shows when it is delivered
    [] e.a = "FetchHold" -> N_FetchHold(e.args.f, "both")
    [] e.a = "Deliver" -> LET nt == N_Deliver(e.args.f, TRUE) IN
                          IF nt.hw = Fn(e.st.hw) THEN nt ELSE N_Deliver(e.args.f, FALSE)
    [] e.a = "LagExpire" -> N_LagExpire(e.args.f)
    [] e.a = "Shrink" -> N_Shrink(e.args.f)
    [] e.a = "Expand" -> N_Expand(e.args.f)
    [] e.a = "Checkpoint" -> N_Checkpoint(e.args.r)
    [] e.a = "Crash" -> N_Crash(e.args.r)
    [] e.a = "Restart" -> N_Restart(e.args.r, e.args.reach)
    [] e.a = "Elect" -> N_Elect(e.args.n, e.args.reach, ToSet(e.args.lag))
    [] e.a = "StaleFetch" -> N_StaleFetch(e.args.f)
    [] e.a = "PauseResume" -> N_PauseResume
    [] e.a = "ApplyMeta" -> N_ApplyMeta(e.args.f, e.args.reach)
    [] OTHER -> Cur

GuardOf(e) ==
  IF Skipped(e) THEN TRUE ELSE
  CASE e.a = "Publish" -> G_Publish(e.args.recs)
    [] e.a = "PublishRejected" -> G_PublishRejected(e.args.v)
    [] e.a = "Fetch" -> G_Fetch(e.args.f)
    [] e.a = "FetchLost" -> G_FetchLost(e.args.f)
    [] e.a = "FetchHold" -> G_FetchHold(e.args.f)
    [] e.a = "Deliver" -> G_Deliver(e.args.f)
    [] e.a = "LagExpire" -> TRUE
    [] e.a = "Shrink" -> Leading(Leader) /\ e.args.f \in meta.isr
    [] e.a = "Expand" -> Leading(Leader) /\ e.args.f \notin meta.isr
    [] e.a = "Checkpoint" -> up[e.args.r]
    [] e.a = "Crash" -> G_Crash(e.args.r)
    [] e.a = "Restart" -> ~up[e.args.r]
    [] e.a = "Elect" -> e.args.n \in meta.isr /\ e.args.n # Leader
    [] e.a = "StaleFetch" -> G_StaleFetch(e.args.f)
    [] e.a = "AwaitTick" -> G_Tick(e.args.f)
    [] e.a = "PauseResume" -> G_PauseResume
    [] e.a = "ApplyMeta" -> e.args.f \in lagging /\ up[e.args.f]
    [] OTHER -> TRUE

BindSeen(s) ==
  /\ meta' = s.meta /\ up' = s.up /\ role' = s.role /\ log' = s.log /\ hw' = s.hw
  /\ hwDisk' = s.hwDisk /\ ec' = s.ec /\ isrOff' = s.isrOff /\ obs' = s.obs /\ lagging' = s.lagging

TraceInit ==
  LET s == Seen(Trace[1]) IN
  /\ meta = s.meta /\ up = s.up /\ role = s.role /\ log = s.log /\ hw = s.hw
  /\ hwDisk = s.hwDisk /\ ec = s.ec /\ isrOff = s.isrOff /\ obs = NoAcks
  /\ pend = [r \in R |-> <<>>] /\ caught = [r \in R |-> FALSE]
  /\ committed = {} /\ nacked = {} /\ taint = {} /\ lagging = {}
  /\ inflight = [r \in R |-> <<>>]
  /\ l = 2

TraceNext ==
  /\ Trace[l].a # "End"
  /\ l' = l + 1
  /\ LET e == Trace[l]
         s == Seen(e)
     IN IF e.a = "Open"
        THEN /\ BindSeen(s)
             /\ pend' = [r \in R |-> <<>>] /\ caught' = [r \in R |-> FALSE]
             /\ committed' = {} /\ nacked' = {} /\ taint' = {}
             /\ inflight' = [r \in R |-> <<>>]
        ELSE LET n == NextOf(e) IN
             /\ BindSeen(s)
             /\ pend' = n.pend /\ caught' = n.caught /\ taint' = n.taint /\ inflight' = n.inflight
             /\ nacked' = nacked \cup s.obs.nacks
             /\ committed' = committed \cup NewlyCommitted(s)
             \* ---- properties on the real state / transition
             /\ Chk(C02_CommittedSurvives', "P", e, "C02_CommittedSurvives")
             /\ Chk(C02_NoDivergence', "P", e, "C02_NoDivergence")
             /\ Chk(C02_HWBacked', "P", e, "C02_HWBacked")
             /\ Chk(C04_AcksOK, "P", e, "C04_AcksOK")
             /\ Chk(C04_NackedNeverStored', "P", e, "C04_NackedNeverStored")
             /\ Chk(HWMonotoneWhileUp, "P", e, "HWMonotoneWhileUp")
             \* C01 on the replicated path: whatever the leader packs into its responses, the offsets a
             \* replica stores are the consecutive run 0, 1, 2, ...
             /\ Chk(\A r \in R : ~e.st.gap[r], "P", e, "C01_ReplicaGapFree")
             /\ Chk(s.obs.nacks \subseteq n.obs.nacks \/ e.a # "Publish", "P", e, "C04_NoSpuriousNack")
             \* ---- conformance with the action as specified
             /\ Chk(GuardOf(e), "I", e, "guard")
             /\ Chk(s.log = n.log, "I", e, "log")
             /\ Chk(s.hw = n.hw, "I", e, "hw")
             /\ Chk(s.ec = n.ec, "I", e, "ec")
             \* (the replica offsets are only used by a leader; a follower's copy of the map is rebuilt when
             \* it becomes leader and is not compared)
             /\ Chk(\A r \in R : s.role[r] = "leader" => s.isrOff[r] = n.isrOff[r], "I", e, "isrOff")
             /\ Chk(s.role = n.role, "I", e, "role")
             /\ Chk(s.up = n.up, "I", e, "up")
             /\ Chk(s.meta = n.meta, "I", e, "meta")
             /\ Chk(s.hwDisk = n.hwDisk, "I", e, "hwDisk")
             /\ Chk(s.lagging = n.lagging, "I", e, "lagging")
             /\ Chk(s.obs = n.obs, "I", e, "acks")
             /\ Chk(\A r \in R : e.st.pendN[r] = Len(n.pend[r]), "I", e, "pend")
             /\ Chk(~Skipped(e) \/ e.res = "skipped:not-in-isr", "I", e, "skipped")
             \* a goroutine of replica r is inside the response handler exactly when the specification
             \* has a response on its way to r
             /\ Chk(\A r \in R : e.st.held[r] = (n.inflight[r] # <<>>), "I", e, "held")
             \* the real health check decided as the specification's guard does
             /\ Chk(e.a # "AwaitTick" \/ Skipped(e) \/ e.args.outOfSync = TickOutOfSync(e.args.f), "I", e, "tick-guard")

TraceSpec == TraceInit /\ [][TraceNext]_tvars
Done == PrintT(<<"DONE", TLCGet("stats").diameter, Len(Trace)>>)
=============================================================================
