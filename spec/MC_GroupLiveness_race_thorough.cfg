SPECIFICATION MCSpec
CONSTANTS
  Brokers = {"a", "b", "c"}
  Servers = {"a", "b"}
  Members = {"m1", "m2", "m3"}
  Dense = TRUE
  RecheckAtApply = TRUE
  KeepTimers = FALSE
  CountAllWit = FALSE
  MaxOps = 9
  MaxPend = 2
  MaxWaits = 2
  EpochSels = {"cur"}
  PairSels = {"cur", "old"}
  WaitModes = {"none", "good"}
  ReqServers = {"a"}
  EffectiveOnly = FALSE
INVARIANTS TypeOK X01_TimersOnlyAtCoordinator TimersComplete StatusLive WitnessesAreGood
PROPERTIES StepsOK
VIEW MCView
CHECK_DEADLOCK FALSE
