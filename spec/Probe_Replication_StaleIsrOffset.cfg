SPECIFICATION MCSpec
CONSTANTS
  R = {"a", "b", "c"}
  MinISR = 2
  FetchMax = 2
  WideEvery = 0
  OffsetReset = "all"
  LateResp = "drop"
  HWFallback = FALSE
  ElectAlive = TRUE
  AllowLag = FALSE
  ElectDown = FALSE
  MaxMsgs = 3
  MaxElect = 3
  MaxCrash = 0
  MaxIsrOps = 0
  MaxRejects = 0
  Policies = {"ALL"}
  UseCheckpoint = FALSE
  MaxPause = 0
  MaxHold = 0
  Batch = 1
  IgnoreTaints = FALSE
INVARIANTS NoBadAck_StaleIsrOffset
VIEW MCView
CHECK_DEADLOCK FALSE
