SPECIFICATION MCSpec
CONSTANTS
  BoundsChecked = TRUE
  Masks = {1, 128, 255}
  KSValues = {0}
  Keys = {"k1", "k2"}
  SnapKeeps = TRUE
  Replicas = {"a", "b"}
  Lens = {0}
  MKLens = {0}
  TableOn = FALSE
  MaxPub = 3
  MaxBatch = 2
  MaxSteps = 5
  MaxFailBatches = 1
  MaxRestart = 0
  MaxTamper = 1
  MaxEnv = 1
  MaxPause = 1
  MaxSub = 2
  MaxLead = 2
  MaxSnap = 0
  MaxInstall = 1
  PubClasses = {"empty", "short", "long"}
  Hows = {"api", "b2b", "gap"}
  TamperRegs = {"KS", "WK", "NONCE", "CT", "TAG"}
INVARIANTS TypeOK C17_NoPlaintext C17_ServerUp C17_NoGarbage
PROPERTIES StepsOK
VIEW MCView
CHECK_DEADLOCK FALSE
