--------------------------- MODULE Groups ---------------------------
(***************************************************************************)
(* Consumer-group membership and partition assignment (server/groups.go,   *)
(* the group part of server/metadata.go and server/fsm.go) for ONE group   *)
(* id on several servers that apply the same committed operations.         *)
(*                                                                         *)
(*   Servers  the servers; each holds its own copy of the group            *)
(*   gs       server -> group value (GroupOps) or NoGroup                  *)
(*   parts    stream -> number of partitions, 0 = the stream does not      *)
(*            exist.  ALL partitions of the stream, paused or not: the      *)
(*            statement says "every partition of every stream"; it is what *)
(*            getStreamPartitions answers in the code as it is             *)
(*   paused   set of <<stream, partition>>: partitions paused by            *)
(*            PAUSE_STREAM (metadata store, not the groups: pausing and     *)
(*            resuming never rebalance a group and are invisible to it)     *)
(*   idx      Raft index of the last applied operation; operation k is     *)
(*            applied with epoch = its index                               *)
(*   obs      result of the last call                                      *)
(*                                                                         *)
(* A committed operation is applied by every server in the same step (the  *)
(* servers do not interact).  A deleted stream is announced to the groups  *)
(* (StreamDeleted) as part of the apply of its DELETE_STREAM, before the   *)
(* apply returns (metadataAPI.removeStream returns the announcement and    *)
(* its callers run it right after releasing the metadata mutex) - until    *)
(* fix 8dda9e6 it was a goroutine racing the later applies (findings           *)
(* C12-stream-deleted-overtaken / -late).                                  *)
(*                                                                         *)
(* Do<Action> = as the code performs it.  P_<Action> and the C12_*         *)
(* invariants = what property C12 demands.                                 *)
(***************************************************************************)
EXTENDS GroupOps, TLC

CONSTANTS Servers
VARIABLES gs, parts, paused, idx, obs
vars == <<gs, parts, paused, idx, obs>>

Obs(a, srv, err, ret) == [a |-> a, srv |-> srv, err |-> err, ret |-> ret]

Init ==
  /\ gs = [v \in Servers |-> NoGroup]
  /\ parts = [s \in {} |-> 0]
  /\ paused = {}
  /\ idx = 0
  /\ obs = Obs("Open", "", "", <<>>)

Exists(s) == PartsOf(parts, s) > 0
GroupExists == \E v \in Servers : gs[v].exists

-----------------------------------------------------------------------------
(* Committed operations (fsm.go apply), applied by every server *)

\* CREATE_STREAM: only the partition count matters to the groups
DoCreateStream(s, n) ==
  /\ parts' = Put(parts, s, n)
  /\ idx' = idx + 1
  /\ obs' = Obs("CreateStream", "", "", <<>>)
  /\ UNCHANGED <<gs, paused>>

\* DELETE_STREAM: the stream is gone and, in the same apply, every server calls
\* StreamDeleted(s, index) on the groups it has (the epoch guard cannot refuse
\* it: the index is larger than every epoch handed out before)
DoDeleteStream(s) ==
  LET pc == Put(parts, s, 0) IN
  /\ parts' = pc
  /\ paused' = {x \in paused : x[1] # s}
  /\ idx' = idx + 1
  /\ gs' = [v \in Servers |-> IF gs[v].exists THEN GStreamDeleted(gs[v], s, idx + 1, pc) ELSE gs[v]]
  /\ obs' = Obs("DeleteStream", "", "", <<>>)

\* CREATE_CONSUMER_GROUP (first join): the operation carries no epoch, a new
\* group starts at epoch 0 whatever the index
DoCreateGroup(c, streams, coord) ==
  /\ gs' = [v \in Servers |-> IF gs[v].exists THEN gs[v]
                               ELSE GAddMember(NewGroup(coord, 0), c, streams, parts)]
  /\ idx' = idx + 1
  /\ obs' = Obs("CreateGroup", "", IF GroupExists THEN "exists" ELSE "", <<>>)
  /\ UNCHANGED <<parts, paused>>

\* JOIN_CONSUMER_GROUP -> AddMember(consumer, streams, index)
DoJoin(c, streams) ==
  LET e == idx + 1 IN
  /\ gs' = [v \in Servers |-> IF ~gs[v].exists \/ e < gs[v].epoch THEN gs[v]
                               ELSE [GAddMember(gs[v], c, streams, parts) EXCEPT !.epoch = e]]
  /\ idx' = e
  /\ obs' = Obs("Join", "", IF ~GroupExists THEN "no_group" ELSE "", <<>>)
  /\ UNCHANGED <<parts, paused>>

\* LEAVE_CONSUMER_GROUP -> RemoveMember(consumer, index); the last member
\* takes the group with it.  An expired member is removed by the same
\* operation (proposed by the coordinator's liveness timer).
DoLeave(c) ==
  LET e == idx + 1
      Left(g) == LET g1 == [GRemoveMember(g, c, parts) EXCEPT !.epoch = e]
                 IN IF Members(g1) = {} THEN NoGroup ELSE g1
  IN
  /\ gs' = [v \in Servers |-> IF ~gs[v].exists \/ e < gs[v].epoch \/ c \notin Members(gs[v])
                               THEN gs[v] ELSE Left(gs[v])]
  /\ idx' = e
  /\ obs' = Obs("Leave", "", IF \E v \in Servers : c \notin Members(gs[v]) THEN "not_member" ELSE "", <<>>)
  /\ UNCHANGED <<parts, paused>>

\* CHANGE_CONSUMER_GROUP_COORDINATOR -> SetCoordinator(coordinator, index)
DoChangeCoordinator(coord) ==
  LET e == idx + 1 IN
  /\ gs' = [v \in Servers |-> IF ~gs[v].exists \/ gs[v].epoch >= e THEN gs[v]
                               ELSE [gs[v] EXCEPT !.coord = coord, !.epoch = e]]
  /\ idx' = e
  /\ obs' = Obs("ChangeCoordinator", "", "", <<>>)
  /\ UNCHANGED <<parts, paused>>

\* Leader-side admission (metadata.go checkCreateConsumerGroupPreconditions /
\* checkJoinConsumerGroupPreconditions): a request is proposed to Raft only if
\* the group does not exist yet / exists, the consumer is not a member yet and
\* EVERY named stream exists.  A refused request changes nothing and consumes
\* no index.  (Part of what makes C12 hold: a member subscribed to a stream
\* that is created later would never get its partitions.)
AllExist(S) == \A s \in S : Exists(s)
Refused(a) == /\ obs' = Obs(a, "", "precondition", <<>>) /\ UNCHANGED <<gs, parts, paused, idx>>
DoProposeCreateGroup(c, S, coord) ==
  IF ~GroupExists /\ AllExist(S) THEN DoCreateGroup(c, S, coord) ELSE Refused("CreateGroup")
DoProposeJoin(c, S) ==
  IF GroupExists /\ (\A v \in Servers : c \notin Members(gs[v])) /\ AllExist(S) THEN DoJoin(c, S) ELSE Refused("Join")

\* PAUSE_STREAM / RESUME_STREAM of one partition (admitted by the leader when the
\* stream and the partition exist): a committed operation like the others (it
\* consumes an index), applied by every server to its metadata store.  The
\* groups are not told and do not change: the paused partition stays a partition
\* of its stream and stays assigned; every later rebalance of the stream (join,
\* leave, deletion of another stream, restore) hands out ALL its partitions.
PartExists(s, p) == p \in 0..(PartsOf(parts, s) - 1)
DoPause(s, p) ==
  IF PartExists(s, p)
  THEN /\ paused' = paused \cup {<<s, p>>} /\ idx' = idx + 1
       /\ obs' = Obs("Pause", "", "", <<>>) /\ UNCHANGED <<gs, parts>>
  ELSE Refused("Pause")
DoResume(s, p) ==
  IF PartExists(s, p)
  THEN /\ paused' = paused \ {<<s, p>>} /\ idx' = idx + 1
       /\ obs' = Obs("Resume", "", "", <<>>) /\ UNCHANGED <<gs, parts>>
  ELSE Refused("Resume")

-----------------------------------------------------------------------------
(* Local steps of one server *)

\* server v restarts from a snapshot taken now (fsm.go Snapshot/Restore, no log
\* suffix): the group is rebuilt from (members with their streams, coordinator,
\* epoch) by adding the members one by one in the order of the snapshot (a Go
\* map: any order `ord`), then finishRestore starts it.
RECURSIVE AddInOrder(_, _, _, _)
AddInOrder(g, q, subs, pc) ==
  IF q = <<>> THEN g ELSE AddInOrder(GAddMember(g, Head(q), subs[Head(q)], pc), Tail(q), subs, pc)

DoRestore(v, ord) ==
  /\ gs[v].exists
  /\ gs' = [gs EXCEPT ![v] = AddInOrder(NewGroup(@.coord, @.epoch), ord, @.subs, parts)]
  /\ obs' = Obs("Restore", v, "", <<>>)
  /\ UNCHANGED <<parts, paused, idx>>

\* FetchConsumerGroupAssignments(consumer, epoch) served by server v
DoGetAssignments(v, c, e) ==
  /\ obs' = (IF ~gs[v].exists THEN Obs("GetAssignments", v, "no_group", <<>>)
             ELSE LET r == GGetAssignments(gs[v], c, e, v) IN Obs("GetAssignments", v, r.err, r.ret))
  /\ UNCHANGED <<gs, parts, paused, idx>>

-----------------------------------------------------------------------------
(* What C12 demands.                                                       *)
(* The statement speaks about the assignment "after any sequence of        *)
(* operations": the requirements are imposed after EVERY applied operation *)
(* (since the announcement of a deleted stream is part of its apply there  *)
(* is no window to exempt any more).                                       *)

Seq2SetS(q) == {q[i] : i \in DOMAIN q}

C12_ExactlyOne ==
  \A v \in Servers : gs[v].exists =>
    (\A s \in DOMAIN parts : ExactlyOneFor(gs[v], s, parts[s]))

C12_NoForeign == \A v \in Servers : gs[v].exists => NoForeign(gs[v])

C12_AssignedExist ==
  \A v \in Servers : gs[v].exists =>
    (\A s \in DOMAIN gs[v].heap : AssignedExistFor(gs[v], s, PartsOf(parts, s)))

C12_Balanced ==
  \A v \in Servers : gs[v].exists => Balanced(gs[v])

\* servers that applied the same operations hand out identical assignments
\* for the same group epoch
StreamView(g, s) == [c \in Members(g) |-> [sub |-> s \in g.subs[c],
                                           asg |-> IF s \in DOMAIN g.asg[c] THEN g.asg[c][s] ELSE <<>>]]
C12_SameEpochSame ==
  \A v, w \in Servers :
    (gs[v].exists /\ gs[w].exists /\ gs[v].epoch = gs[w].epoch) =>
       /\ Members(gs[v]) = Members(gs[w])
       /\ \A s \in Seq2SetS(StreamOrder) : StreamView(gs[v], s) = StreamView(gs[w], s)

\* servers that applied the same operations agree entirely
C12_Converged ==
     (\A v, w \in Servers : gs[v].exists = gs[w].exists /\
        (gs[v].exists => (gs[v].asg = gs[w].asg /\ gs[v].subs = gs[w].subs /\ gs[v].epoch = gs[w].epoch)))

\* only partitions that exist are paused (a stream created again starts unpaused)
PausedOK == \A x \in paused : PartExists(x[1], x[2])
ImplInv == /\ \A v \in Servers : gs[v].exists => CountersOK(gs[v]) /\ HeapsOK(gs[v])
           /\ PausedOK

(* step predicates *)
SameGroups == gs' = gs
P_GetAssignments(v, c, e) ==
  /\ SameGroups
  /\ (obs'.err = "" => /\ gs[v].exists /\ gs[v].coord = v /\ gs[v].epoch = e
                       /\ c \in Members(gs[v]) /\ obs'.ret = gs[v].asg[c])
  /\ ((gs[v].exists /\ gs[v].coord = v /\ gs[v].epoch = e /\ c \in Members(gs[v])) => obs'.err = "")
P_Join(c, streams) ==
  \A v \in Servers : gs'[v].exists => (/\ c \in Members(gs'[v]) /\ gs'[v].subs[c] = streams
                                       /\ Members(gs'[v]) = Members(gs[v]) \cup {c})
P_Leave(c) ==
  \A v \in Servers : /\ (gs'[v].exists => Members(gs'[v]) = Members(gs[v]) \ {c})
                     /\ ((gs[v].exists /\ Members(gs[v]) # {c}) => gs'[v].exists)
\* a deleted stream changes no membership and touches only the subscriptions to s
P_DeleteStream(s) ==
  \A v \in Servers :
    /\ gs'[v].exists = gs[v].exists
    /\ (gs[v].exists => /\ Members(gs'[v]) = Members(gs[v])
                        /\ \A c \in Members(gs[v]) : gs'[v].subs[c] \in {gs[v].subs[c], gs[v].subs[c] \ {s}})
\* a restore keeps membership, subscriptions, coordinator and epoch
P_Restore(v) ==
  /\ \A w \in Servers \ {v} : gs'[w] = gs[w]
  /\ gs'[v].exists = gs[v].exists
  /\ gs[v].exists => (gs'[v].subs = gs[v].subs /\ gs'[v].epoch = gs[v].epoch /\ gs'[v].coord = gs[v].coord)
\* when can a rebuilt group legitimately differ from the live one?  Assignments
\* depend on the join/leave history as soon as members consume more than one
\* stream.  (Heap entries without subscribers used to be a second reason - they
\* were not rebuilt and decide whether a later StreamDeleted moves the epoch;
\* since a339921 a heap is dropped when its last subscriber leaves.)
RestoreNeutral(g) ==
  /\ Cardinality(UNION {g.subs[c] : c \in Members(g)}) <= 1
P_Other == \A v \in Servers : gs'[v].exists => Members(gs'[v]) = Members(gs[v])
=============================================================================
