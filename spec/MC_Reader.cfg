SPECIFICATION MCSpec
CONSTANTS
  MaxApp = 3
  MaxTog = 1
  Starts = {0, 1, 2}
  CapSet = {2}
  AtomicSet = {TRUE}
  TrackLast = FALSE
  UseRoller = TRUE
  SplitNew = TRUE
  NewLoads = 1
INVARIANTS TypeOK C03_Run C03_NoDeath C03_NoLostWakeup C03_Wakeable
PROPERTIES StepsOK
CHECK_DEADLOCK FALSE
