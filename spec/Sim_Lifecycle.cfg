SPECIFICATION MCSpec
CONSTANTS
  Parts = {0, 1}
  SubIds = {"s1", "s2"}
  NilFix = TRUE
  MaxOps = 9
  MaxMsgs = 5
  Paths <- AllPaths
  Gates <- AllGates
  Cfgs <- AllCfgs
  SubsetsOf <- PartSets
VIEW MCView
CHECK_DEADLOCK FALSE
