SPECIFICATION MCSpec
CONSTANTS
  MaxRecs = 4
  MaxBatch = 1
  MaxOps = 6
  MaxEpoch = 1
  CapSet = {1, 2}
  KeySet = {"a"}
  AgeSet = {0, 2}
  MsgsSet = {0, 2}
  BytesSet = {0, 2}
  CompactSet = {FALSE}
  LagSet = {0, 3}
  BigSet = {FALSE, TRUE}
  MaxCleans = 2
  MaxTicks = 1
  UseWindow = TRUE
  UseReopen = FALSE
  UseEpochs = FALSE
  OccSet = {FALSE, TRUE}
  MinCleanSegs = 1
  UseRevReaders = FALSE
  UseFaults = TRUE
  UseReaders = FALSE
INVARIANTS CTypeOK C01_Ordered SegsConsistent NoEmptyInnerSegment
PROPERTIES StepsOK
VIEW MCView
CHECK_DEADLOCK FALSE
