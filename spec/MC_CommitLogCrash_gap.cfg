SPECIFICATION MCSpec
CONSTANTS
  Fix = {"tail", "suffix", "epoch"}
  Taints = {}
  GenMode = FALSE
  MaxSkip = 1
  MaxOps = 3
  MaxPost = 1
  MaxRecs = 4
  MaxBatch = 2
  MaxEpoch = 2
  MaxHit = 3
  MaxRecCrash = 0
  CapSet = {2}
  RetSet = {0}
  CompactSet = {FALSE, TRUE}
  AgeSet = {0}
  Keys = {"a", "nil"}
INVARIANTS NoLoop MemMatchesFiles
PROPERTIES StepsOK
VIEW MCView
CHECK_DEADLOCK FALSE
