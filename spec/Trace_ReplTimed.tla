--------------------------- MODULE Trace_ReplTimed ---------------------------
(* X03, timed part: the history recorded from three free-running servers (every gate open, real idle wait, *)
(* fetch timeout and leader timeout) judged line by line.  A line = one call of the driver (Append,        *)
(* AwaitStored, Sleep, NewEpoch, Mute, Kill, AwaitReports) with the state observed after it, the reports   *)
(* made meanwhile - each with the clock's UPPER bound of the reporting loop's silence (time since the       *)
(* follower last received a response or since its loop was started) - and res = "missing:..." when an       *)
(* awaited effect did not show before its deadline (that makes the run inconclusive, never a verdict).     *)
(* Property level (load independent):                                                                      *)
(*   X03T_InOrder     follower logs are 0, 1, 2, ... and never longer than the leader's                    *)
(*   X03T_Monotone    logs only grow, the HWs never go back, HW <= log end, follower HW <= leader HW       *)
(*   X03T_ReportPair  a report names leader a and an epoch the follower followed (the current one when the *)
(*                    epoch never changed)                                                                 *)
(*   X03T_NotEarly    no report while the clock proves that the loop had contact less than the timeout ago *)
(*   X03T_Caught      an AwaitStored that succeeded saw every follower hold the leader's log and the HW    *)
(*                    cover it (sanity of the observation)                                                 *)
EXTENDS Integers, Sequences, TLC, Json

Trace == ndJsonDeserialize("trace.ndjson")
F == {"b", "c"}

VARIABLES pv, tmo, l
vars == <<pv, tmo, l>>

Fail(kind, e, name) == PrintT(<<"FAIL", kind, e.t, l, e.a, name>>)
Chk(ok, kind, e, name) == IF ok THEN TRUE ELSE Fail(kind, e, name)

InOrder(s) == \A f \in F : /\ \A i \in 1..Len(s.flog[f]) : s.flog[f][i] = i - 1
                           /\ Len(s.flog[f]) - 1 <= s.leo
Bounds(s) == s.lhw <= s.leo /\ \A f \in F : s.fhw[f] <= s.lhw /\ s.fhw[f] <= Len(s.flog[f]) - 1
Monotone(s, t) == /\ t.leo >= s.leo /\ t.lhw >= s.lhw
                  /\ \A f \in F : /\ t.fhw[f] >= s.fhw[f] /\ Len(t.flog[f]) >= Len(s.flog[f])
                                  /\ SubSeq(t.flog[f], 1, Len(s.flog[f])) = s.flog[f]
Reports(e, s, t) == \A i \in DOMAIN e.rp : LET r == e.rp[i] IN
                      r.l = "a" /\ r.f \in F /\ r.e >= s.fep[r.f] /\ r.e <= t.fep[r.f]
NotEarly(e, to) == \A i \in DOMAIN e.rp : e.rp[i].gap > to

TraceInit == pv = Trace[1].st /\ tmo = Trace[1].args.timeout /\ l = 2

TraceNext ==
  /\ Trace[l].a # "End"
  /\ l' = l + 1
  /\ LET e == Trace[l] IN
     IF e.a = "Open" THEN pv' = e.st /\ tmo' = e.args.timeout /\ Chk(InOrder(e.st), "P", e, "X03T_InOrder")
     ELSE /\ pv' = e.st /\ tmo' = tmo
          /\ Chk(InOrder(e.st), "P", e, "X03T_InOrder")
          /\ Chk(Bounds(e.st) /\ Monotone(pv, e.st), "P", e, "X03T_Monotone")
          /\ Chk(Reports(e, pv, e.st), "P", e, "X03T_ReportPair")
          /\ Chk(NotEarly(e, tmo), "P", e, "X03T_NotEarly")
          /\ Chk((e.a = "AwaitStored" /\ e.res = "" /\ e.st.up) =>
                   (e.st.lhw = e.st.leo /\ \A f \in F : Len(e.st.flog[f]) - 1 = e.st.leo), "P", e, "X03T_Caught")
          /\ Chk(e.res = "", "M", e, e.res)

TraceSpec == TraceInit /\ [][TraceNext]_vars
Done == PrintT(<<"DONE", TLCGet("stats").diameter, Len(Trace)>>)
=============================================================================
