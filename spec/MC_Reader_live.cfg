SPECIFICATION MCLiveSpec
CONSTANTS
  MaxApp = 3
  MaxTog = 0
  Starts = {0, 1, 2}
  CapSet = {2}
  AtomicSet = {TRUE}
  TrackLast = FALSE
  UseRoller = TRUE
INVARIANTS C03_Quiet
PROPERTIES C03_Live
CHECK_DEADLOCK FALSE
