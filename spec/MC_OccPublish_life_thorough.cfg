SPECIFICATION MCSpec
CONSTANTS
  Pubs = {"p1", "p2"}
  MaxMsgs = 3
  MaxPerPub = 2
  MaxReads = 0
  OccSet = {TRUE, FALSE}
  BatchSet = {2}
  PathSet = {"async", "sync"}
  MaxPauses = 1
  MaxRestarts = 1
  Kinds = {"waive", "stale", "equal"}
  Pols = {"leader"}
  SrcSet = {"request"}
  Vias = {"api"}
  MaxHolds = 0
  MaxSnaps = 1
  MaxInstalls = 1
  Snap0Set = {"none", "pred", "cur"}
  SnapKeeps = TRUE
  Mut = "none"
INVARIANTS TypeOK C16_Dense C16_Once C16_StoredAtExpected C16_AckOffset C16_RejectNotStored C16_RejectJustified C16_WaivedAccepted C16_OneWinner C16_NoneNotSilent C16_Answered C16_UnstoredJustified I_NoExpAsZero I_OccKept I_Resolved I_NonOccAll I_Order I_RejectWindow
PROPERTIES StepsOK LogGrows
VIEW MCView
CHECK_DEADLOCK FALSE
