SPECIFICATION MCSpec
CONSTANTS
  MaxApp = 3
  MaxTrn = 1
  MaxCln = 0
  MaxHW = 2
  MaxEp = 2
  MaxImg = 1
  MaxRd = 0
  Keys = {"a"}
  CapSet = {2}
  OccSet = {FALSE}
  CompactSet = {FALSE}
  MsgsSet = {0}
  MaxBatch = 1
  TrackLast = FALSE
  UseSet = TRUE
  UseReopen = TRUE
  UseReaders = FALSE
INVARIANTS TypeOK X05_Ordered X05_Dense X05_NextFollows X05_Epochs X05_ActiveListed
PROPERTIES S_App S_Trn S_ClnSwap S_ClnStep S_Img S_Rd S_Reopen
CHECK_DEADLOCK FALSE
