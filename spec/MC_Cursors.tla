--------------------------- MODULE MC_Cursors ---------------------------
(* Bounded instance of Cursors: every interleaving of SetCursor, complete  *)
(* and split FetchCursor calls of two clients over three keys with a       *)
(* 2-entry LRU (or the cache switched off), segment rolls and cleans of    *)
(* the cursors partition, pause/resume and restart.                        *)
EXTENDS Cursors, TLC

CONSTANTS MaxSets, MaxOps, MaxFaults, MaxFails, UseKeys, UseClients
VARIABLES last, nSets, nOps, nFaults, nFails
mcvars == <<vars, last, nSets, nOps, nFaults, nFails>>

Step(a) == nOps < MaxOps /\ nOps' = nOps + 1 /\ last' = a

MCInit == Init /\ last = [a |-> "Open"] /\ nSets = 0 /\ nOps = 0 /\ nFaults = 0 /\ nFails = 0

MCSet(k) == /\ nSets < MaxSets /\ DoSet(k, nSets + 1) /\ nSets' = nSets + 1
            /\ Step([a |-> "Set", k |-> k, v |-> nSets + 1]) /\ UNCHANGED <<nFaults, nFails>>
MCSetFail(k) == /\ nSets < MaxSets /\ nFails < MaxFails /\ DoSetFail(k, nSets + 1)
                /\ nSets' = nSets + 1 /\ nFails' = nFails + 1
                /\ Step([a |-> "SetFail", k |-> k, v |-> nSets + 1]) /\ UNCHANGED nFaults
MCFetch(k) == DoFetch(k) /\ Step([a |-> "Fetch", k |-> k]) /\ UNCHANGED <<nSets, nFaults, nFails>>
MCFetchBegin(c, k) == DoFetchBegin(c, k) /\ Step([a |-> "FetchBegin", c |-> c, k |-> k]) /\ UNCHANGED <<nSets, nFaults, nFails>>
MCFetchEnd(c) == DoFetchEnd(c) /\ Step([a |-> "FetchEnd", c |-> c]) /\ UNCHANGED <<nSets, nFaults, nFails>>
Fault(a) == nFaults < MaxFaults /\ nFaults' = nFaults + 1 /\ Step(a) /\ UNCHANGED <<nSets, nFails>>
MCClean == clog # <<>> /\ DoClean /\ Fault([a |-> "Clean"])
MCCleanBegin == clog # <<>> /\ DoCleanBegin /\ Fault([a |-> "CleanBegin"])
MCCleanEnd == DoCleanEnd /\ Step([a |-> "CleanEnd"]) /\ UNCHANGED <<nSets, nFaults, nFails>>
MCPause == next > 0 /\ DoPause /\ Fault([a |-> "Pause"])
\* the restart may come with another cursors.stream.partitions setting: the existing
\* cursors stream keeps the partitions it was created with, so nothing changes
MCRestart(parts) == next > 0 /\ DoRestart /\ Fault([a |-> "Restart", parts |-> parts])

MCNext ==
  \/ \E k \in UseKeys : MCSet(k) \/ MCFetch(k) \/ MCSetFail(k)
  \/ \E c \in UseClients, k \in UseKeys : MCFetchBegin(c, k)
  \/ \E c \in UseClients : MCFetchEnd(c)
  \/ MCClean \/ MCPause \/ (\E parts \in 1..3 : MCRestart(parts)) \/ MCCleanBegin \/ MCCleanEnd

MCSpec == MCInit /\ [][MCNext]_mcvars

\* open finding C11-fetch-during-clean: the culprit step is a cache-miss fetch whose
\* scan runs into a segment the clean in progress has rewritten; it fails instead of
\* returning the cursor.  Skipped here so that the rest of the space is explored.
KnownErr == cln.on /\ obs'.err = "Internal"

StepOK ==
  LET a == last' IN
  CASE a.a \in {"Set", "SetFail"} -> P_Set(a.k, a.v)
    [] a.a = "Fetch" -> (KnownErr \/ P_Fetch(a.k)) /\ P_Other
    [] a.a = "FetchBegin" -> (KnownErr \/ P_FetchBegin(a.c, a.k)) /\ P_Other
    [] a.a = "FetchEnd" -> P_FetchEnd(a.c) /\ P_Other
    [] OTHER -> P_Other
StepsOK == [][StepOK]_mcvars

MCView == <<vars, nSets, nOps, nFaults, nFails>>
=============================================================================
