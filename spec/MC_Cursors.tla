--------------------------- MODULE MC_Cursors ---------------------------
(* Bounded instance of Cursors: every interleaving of SetCursor, complete  *)
(* and split FetchCursor calls of two clients over three keys with a       *)
(* 2-entry LRU (or the cache switched off), segment rolls and cleans of    *)
(* the cursors partition, pause/resume and restart.                        *)
EXTENDS Cursors, TLC

CONSTANTS MaxSets, MaxOps, MaxFaults, MaxFails, UseKeys, UseClients,
          MaxHand     \* leader changes of the cursors partition between two servers (0: one server)
VARIABLES last, nSets, nOps, nFaults, nFails, nHand
mcvars == <<vars, last, nSets, nOps, nFaults, nFails, nHand>>

Step(a) == nOps < MaxOps /\ nOps' = nOps + 1 /\ last' = a

MCInit == Init /\ last = [a |-> "Open"] /\ nSets = 0 /\ nOps = 0 /\ nFaults = 0 /\ nFails = 0 /\ nHand = 0

MCSet(k) == /\ nSets < MaxSets /\ DoSet(k, nSets + 1) /\ nSets' = nSets + 1
            /\ Step([a |-> "Set", k |-> k, v |-> nSets + 1]) /\ UNCHANGED <<nFaults, nFails, nHand>>
MCSetFail(k) == /\ nSets < MaxSets /\ nFails < MaxFails /\ DoSetFail(k, nSets + 1)
                /\ nSets' = nSets + 1 /\ nFails' = nFails + 1
                /\ Step([a |-> "SetFail", k |-> k, v |-> nSets + 1]) /\ UNCHANGED <<nFaults, nHand>>
MCFetch(k) == DoFetch(k) /\ Step([a |-> "Fetch", k |-> k]) /\ UNCHANGED <<nSets, nFaults, nFails, nHand>>
MCFetchBegin(c, k) == DoFetchBegin(c, k) /\ Step([a |-> "FetchBegin", c |-> c, k |-> k]) /\ UNCHANGED <<nSets, nFaults, nFails, nHand>>
MCFetchEnd(c) == DoFetchEnd(c) /\ Step([a |-> "FetchEnd", c |-> c]) /\ UNCHANGED <<nSets, nFaults, nFails, nHand>>
Fault(a) == nFaults < MaxFaults /\ nFaults' = nFaults + 1 /\ Step(a) /\ UNCHANGED <<nSets, nFails, nHand>>
MCClean == clog # <<>> /\ DoClean /\ Fault([a |-> "Clean"])
MCCleanBegin == clog # <<>> /\ DoCleanBegin /\ Fault([a |-> "CleanBegin"])
MCCleanEnd == DoCleanEnd /\ Step([a |-> "CleanEnd"]) /\ UNCHANGED <<nSets, nFaults, nFails, nHand>>
MCRoll == clog # <<>> /\ ~paused /\ SegRecs(clog, segs, Len(segs)) # <<>> /\ DoRoll /\ Fault([a |-> "Roll"])
MCPause == next > 0 /\ DoPause /\ Fault([a |-> "Pause"])
\* the restart may come with another cursors.stream.partitions setting: the existing
\* cursors stream keeps the partitions it was created with, so nothing changes
MCRestart(parts) == MaxHand = 0 /\ next > 0 /\ DoRestart /\ Fault([a |-> "Restart", parts |-> parts])
\* two servers: leader changes of the cursors partition and fetches sent to the server
\* that does not lead it (restarts belong to the one-server configurations)
MCHandover == /\ nHand < MaxHand /\ next > 0 /\ DoHandover /\ nHand' = nHand + 1
              /\ Step([a |-> "Handover"]) /\ UNCHANGED <<nSets, nFaults, nFails>>
MCFetchOther(k) == /\ MaxHand > 0 /\ next > 0 /\ DoFetchOther(k) /\ Step([a |-> "FetchOther", k |-> k])
                   /\ UNCHANGED <<nSets, nFaults, nFails, nHand>>

MCNext ==
  \/ \E k \in UseKeys : MCSet(k) \/ MCFetch(k) \/ MCSetFail(k)
  \/ \E c \in UseClients, k \in UseKeys : MCFetchBegin(c, k)
  \/ \E c \in UseClients : MCFetchEnd(c)
  \/ MCClean \/ MCPause \/ (\E parts \in 1..3 : MCRestart(parts)) \/ MCCleanBegin \/ MCCleanEnd \/ MCRoll
  \/ MCHandover \/ (\E k \in UseKeys : MCFetchOther(k))

MCSpec == MCInit /\ [][MCNext]_mcvars

\* Scenario family "a log worth compacting, compacted, then read": the same actions,
\* scheduled in phases - first only writes (successful and failed sets, cleaner-tick
\* rolls), then a clean (whole or its first step), then anything.  A uniformly random
\* walk rarely builds a segment with several versions of a key before it cleans.
MCNextFam ==
  CASE nOps < 5 -> (\E k \in UseKeys : MCSet(k) \/ MCSetFail(k)) \/ MCRoll
    [] nOps = 5 -> MCClean \/ MCCleanBegin
    [] OTHER -> MCNext
MCSpecFam == MCInit /\ [][MCNextFam]_mcvars

\* Scenario family "the leadership goes away and comes back" (two servers): some calls
\* (with a pause among them), a leader change, writes on the new leader, a second
\* leader change, then anything - the server that led first leads again and must not
\* serve what it cached in its first term.
MCNextHand ==
  LET canHand == ~paused /\ ~cln.on /\ hw = next - 1 /\ next > 0 /\ \A c \in Clients : ~pend[c].on IN
  CASE nOps < 3 -> (\E k \in UseKeys : MCSet(k) \/ MCFetch(k)) \/ MCPause
    [] nOps \in {3, 6} -> IF canHand THEN MCHandover ELSE \E k \in UseKeys : MCSet(k)
    [] nOps \in {4, 5} -> \E k \in UseKeys : MCSet(k)
    [] OTHER -> MCNext
MCSpecHand == MCInit /\ [][MCNextHand]_mcvars

\* open finding C11-fetch-during-clean: the culprit step is a cache-miss fetch whose
\* scan runs into a segment the clean in progress has rewritten; it fails instead of
\* returning the cursor.  Skipped here so that the rest of the space is explored.
KnownErr == cln.on /\ obs'.err = "Internal"

StepOK ==
  LET a == last' IN
  CASE a.a \in {"Set", "SetFail"} -> P_Set(a.k, a.v)
    [] a.a = "Fetch" -> (KnownErr \/ P_Fetch(a.k)) /\ P_Other
    [] a.a = "FetchBegin" -> (KnownErr \/ P_FetchBegin(a.c, a.k)) /\ P_Other
    [] a.a = "FetchEnd" -> P_FetchEnd(a.c) /\ P_Other
    [] a.a = "FetchOther" -> P_FetchOther(a.k) /\ P_Other
    [] OTHER -> P_Other
StepsOK == [][StepOK]_mcvars

MCView == <<vars, nSets, nOps, nFaults, nFails, nHand>>
=============================================================================
