SPECIFICATION MCSpec
CONSTANTS
  R = {"a", "b", "c"}
  MinISR = 2
  FetchMax = 2
  WideEvery = 0
  OffsetReset = "all"
  LateResp = "drop"
  HWFallback = FALSE
  ElectAlive = TRUE
  AllowLag = TRUE
  ElectDown = FALSE
  MaxMsgs = 2
  MaxElect = 1
  MaxCrash = 1
  MaxIsrOps = 0
  MaxRejects = 0
  Policies = {"ALL"}
  UseCheckpoint = FALSE
  MaxPause = 1
  MaxHold = 1
  Batch = 1
  IgnoreTaints = FALSE
INVARIANTS Inv_CommittedSurvives Inv_NoDivergence Inv_HWBacked Inv_Nacked Inv_Struct
PROPERTIES AcksOK HWMono
VIEW MCView
CHECK_DEADLOCK FALSE
