SPECIFICATION FamSpec
CONSTANT Fam = "fallback"
CONSTANTS
  R = {"a", "b", "c"}
  MinISR = 2
  FetchMax = 2
  WideEvery = 0
  OffsetReset = "all"
  LateResp = "drop"
  HWFallback = TRUE
  ElectAlive = FALSE
  AllowLag = TRUE
  ElectDown = FALSE
  MaxMsgs = 5
  MaxElect = 3
  MaxCrash = 3
  MaxIsrOps = 3
  MaxRejects = 1
  Policies = {"ALL", "LEADER", "NONE"}
  UseCheckpoint = TRUE
  MaxPause = 1
  MaxHold = 2
  Batch = 1
  IgnoreTaints = TRUE
CHECK_DEADLOCK FALSE
