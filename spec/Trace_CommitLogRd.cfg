SPECIFICATION RdTraceSpec
POSTCONDITION Done
CHECK_DEADLOCK FALSE
