SPECIFICATION MCSpec
CONSTANTS
  MaxApp = 6
  MaxTog = 2
  Starts = {0, 1, 2, 3, 4, 5}
  CapSet = {1, 2, 3}
  AtomicSet = {TRUE, FALSE}
  TrackLast = TRUE
  UseRoller = TRUE
  SplitNew = FALSE
  NewLoads = 1
CHECK_DEADLOCK FALSE
