SPECIFICATION MCSpec
CONSTANTS
  Fix = {}
  Taints = {}
  MaxOps = 3
  MaxPost = 2
  MaxRecs = 5
  MaxBatch = 2
  MaxEpoch = 2
  MaxHit = 3
  CapSet = {2}
  RetSet = {0, 2}
  CompactSet = {FALSE, TRUE}
  Keys = {"a", "nil"}
INVARIANTS NoLoop MemMatchesFiles
PROPERTIES StepsOK
VIEW MCView
CHECK_DEADLOCK FALSE
