------------------------------ MODULE Subscribe ------------------------------
(***************************************************************************)
(* Subscriptions on one partition of a one-node server                     *)
(* (server/partition.go Subscribe / newSubscribeLoop / getStartOffset /    *)
(* getStopOffset on top of the server/commitlog readers).   Property C10.  *)
(*                                                                         *)
(* Abstract state                                                          *)
(*   log   sequence of retained records [off, ts, key] in offset order      *)
(*         (offset gaps = compaction, first offset > 0 = retention)         *)
(*   segs  sequence of segment base offsets (segment k holds the records    *)
(*         with segs[k] <= off < segs[k+1]).  Only the last (active)        *)
(*         segment can be empty: the window between a roll done by the      *)
(*         cleaner tick (active segment full or too old) and the next       *)
(*         publish; its base offset is the log end.  A log whose messages   *)
(*         are all gone (retention) is <<>> with one segment of base b > 0  *)
(*   hw    high watermark (-1 none); records above it are not committed     *)
(*   ro    partition is read-only                                           *)
(*   subs  subscription id -> record                                        *)
(*           open, req                                                      *)
(*           start, stop, pos, parked, base   the code's view: resolved     *)
(*             offsets and reader position (advanced by the Do* formulas)   *)
(*           plos, phis / pups, plws           what the documentation says   *)
(*             the request means, fixed when the subscription is created    *)
(*           held, pendst                     a message / final status the  *)
(*             loop is handing over to a subscriber that stopped receiving  *)
(*           n, last, hold                    number of messages delivered  *)
(*             so far, the last delivered offset, the record that followed  *)
(*             it when the subscriber stopped receiving (from what was      *)
(*             observed)                                                    *)
(*           st   "" not started | "wait" | "more" (subscriber stopped      *)
(*                receiving) | terminal gRPC code name                      *)
(*   obs   result of the last call [a, err, got, st]: error class returned  *)
(*         by Subscribe itself, records delivered by this call, state of    *)
(*         the subscription afterwards                                      *)
(*                                                                         *)
(* A request is [start, so, stt, stop, po, pt, rev]:                        *)
(*   start \in {"OFFSET","EARLIEST","LATEST","NEW_ONLY","TIMESTAMP"}       *)
(*   stop  \in {"ON_CANCEL","OFFSET","LATEST","TIMESTAMP"}                 *)
(*   so/po offsets, stt/pt timestamps (ignored unless selected), rev        *)
(*                                                                         *)
(* Do<X>    the step as the code performs it (conformance: drift)           *)
(* P_<X>    what property C10 demands of the step (violation)               *)
(*                                                                         *)
(* Fix is a record of booleans selecting, for each deviation found, the     *)
(* behaviour before (FALSE) or after (TRUE) its repair, so that the design  *)
(* check can show both.  The checks run with the value that matches /repo.  *)
(***************************************************************************)
EXTENDS Integers, Sequences, FiniteSets

CONSTANT Fix    \* [absent, parked, revstop, tsedge, slot, roia : BOOLEAN]

VARIABLES log, segs, hw, ro, subs, obs
vars == <<log, segs, hw, ro, subs, obs>>

SubIds == {"s1", "s2"}
Inf == 1000000
RE == "ResourceExhausted"
IA == "InvalidArgument"
INT == "Internal"
UNK == "Unknown"

\* the deviations as they are in /repo now, and before any repair
FixNone == [absent |-> FALSE, parked |-> FALSE, revstop |-> FALSE, tsedge |-> FALSE, slot |-> FALSE, roia |-> FALSE]
FixAll == [absent |-> TRUE, parked |-> TRUE, revstop |-> TRUE, tsedge |-> TRUE, slot |-> TRUE, roia |-> TRUE]
FixRepo == FixAll

Last(s) == s[Len(s)]
Rev(s) == [i \in 1..Len(s) |-> s[Len(s) + 1 - i]]
MinS(S) == CHOOSE x \in S : \A y \in S : x <= y
MaxS(S) == CHOOSE x \in S : \A y \in S : x >= y
Min2(a, b) == IF a < b THEN a ELSE b
Max2(a, b) == IF a > b THEN a ELSE b

-----------------------------------------------------------------------------
(* The log as the commit log sees it *)

SegRecs(l, ss, k) ==
  SelectSeq(l, LAMBDA r : r.off >= ss[k] /\ (k = Len(ss) \/ r.off < ss[k + 1]))
SegNext(l, ss, k) == LET r == SegRecs(l, ss, k) IN IF r = <<>> THEN ss[k] ELSE Last(r).off + 1

NewestOf(l, ss) == SegNext(l, ss, Len(ss)) - 1           \* NewestOffset()
OldestOf(l) == IF l = <<>> THEN -1 ELSE l[1].off            \* OldestOffset()
Newest == NewestOf(log, segs)
Oldest == OldestOf(log)

\* first record of recs with ts >= t (0 = none)
FirstTsIdx(recs, t) == LET I == {i \in 1..Len(recs) : recs[i].ts >= t}
                       IN IF I = {} THEN 0 ELSE MinS(I)

\* findSegmentIndexByTimestamp: 0-based index of the first segment whose first
\* record has a timestamp greater than t (number of segments if none).
\* An empty segment behind other segments (the active segment right after a roll)
\* has no base timestamp and sorts after every timestamp.
\* Domain: every segment but the last holds a record unless the log is empty.
SegIdxByTs(l, ss, t) == LET I == {k \in 1..Len(ss) : LET r == SegRecs(l, ss, k) IN
                                                       IF r = <<>> THEN k > 1 ELSE r[1].ts > t}
                        IN IF I = {} THEN Len(ss) ELSE MinS(I) - 1

\* commitLog.EarliestOffsetAfterTimestamp
EarliestAfterTs(l, ss, t) ==
  IF l = <<>> THEN NewestOf(l, ss) + 1
  ELSE LET idx == SegIdxByTs(l, ss, t)
           n   == Len(ss)
           k   == IF idx = 0 THEN 1 ELSE idx
           r   == SegRecs(l, ss, k)
           i   == FirstTsIdx(r, t)
       IN IF i # 0 THEN r[i].off
          \* the next segment is searched: its first record if it has one (the
          \* time of that record is greater than t), the log end if it is empty
          ELSE IF (IF Fix.tsedge THEN idx < n ELSE idx < n - 1) /\ SegRecs(l, ss, idx + 1) # <<>>
               THEN SegRecs(l, ss, idx + 1)[1].off
               ELSE NewestOf(l, ss) + 1

\* commitLog.LatestOffsetBeforeTimestamp: [err, off]
LatestBeforeTs(l, ss, u) ==
  IF l = <<>> THEN [err |-> TRUE, off |-> 0]
  ELSE LET idx == SegIdxByTs(l, ss, u) IN
       IF idx = 0 THEN [err |-> TRUE, off |-> 0]       \* before the beginning of the log
       ELSE LET r == SegRecs(l, ss, idx)
                i == FirstTsIdx(r, u)
            IN IF i = 0 THEN [err |-> FALSE, off |-> Last(r).off]
               ELSE IF r[i].ts = u THEN [err |-> FALSE, off |-> r[i].off]
               ELSE [err |-> FALSE, off |-> r[i].off - 1]

-----------------------------------------------------------------------------
(* Subscribe as the code performs it *)

\* partition.getStartOffset
StartOf(req) ==
  LET o == CASE req.start = "OFFSET" -> req.so
             [] req.start = "TIMESTAMP" -> EarliestAfterTs(log, segs, req.stt)
             [] req.start = "EARLIEST" -> Oldest
             [] req.start = "LATEST" -> Newest
             [] req.start = "NEW_ONLY" -> Newest + 1
  IN IF o < 0 THEN 0 ELSE o

\* the offset the forward reader is created at: beyond the end means the next
\* message written
ReaderStart(req) ==
  LET st == StartOf(req) IN
  IF Fix.parked /\ ~req.rev /\ st > Newest + 1 THEN Newest + 1 ELSE st

\* partition.getStopOffset: [err, off]; err = "" or the status class
StopOf(req) ==
  CASE req.stop = "ON_CANCEL" ->
         [err |-> "", off |-> IF ro /\ ~(Fix.revstop /\ req.rev) THEN Newest ELSE -1]
    [] req.stop = "OFFSET" -> [err |-> "", off |-> req.po]
    [] req.stop = "TIMESTAMP" ->
         LET x == LatestBeforeTs(log, segs, req.pt)
         IN IF x.err THEN [err |-> INT, off |-> 0] ELSE [err |-> "", off |-> x.off]
    [] req.stop = "LATEST" ->
         IF Newest = -1 THEN [err |-> RE, off |-> -1] ELSE [err |-> "", off |-> Newest]

\* the status Subscribe returns instead of a subscription ("" = accepted)
SubErr(req) ==
  LET sp == StopOf(req) st == StartOf(req) IN
  IF sp.err # "" THEN sp.err
  ELSE IF sp.off # -1 /\ ~(Fix.roia /\ req.stop = "ON_CANCEL")
          /\ (IF Fix.revstop /\ req.rev THEN sp.off > st ELSE sp.off < st) THEN IA
  ELSE IF req.rev /\ hw = -1 THEN INT          \* NewReverseReader: nothing committed
  ELSE ""

\* records a forward reader positioned at `from` can return now
FwdAvail(from) == SelectSeq(log, LAMBDA r : r.off >= from /\ r.off <= hw)

NoRec == [off |-> -1, ts |-> -1, key |-> ""]

\* one run of the forward subscribe loop until it blocks or ends: [got, st, pos, parked].
\* s.held = a message the loop has already read from the log and is handing over
\* (the subscriber had stopped receiving); s.pendst = the final status the loop has
\* already decided on and is handing over.
FwdLoop(s) ==
  IF s.pendst # "" THEN [got |-> <<>>, st |-> s.pendst, pos |-> s.pos, parked |-> s.parked]
  ELSE
  LET from  == IF s.parked THEN s.base ELSE s.pos
      rd    == FwdAvail(from)
      hd    == IF s.held = NoRec THEN <<>> ELSE <<s.held>>
      \* messages a parked reader returns below the requested start are skipped
      av    == hd \o (IF Fix.parked THEN SelectSeq(rd, LAMBDA r : r.off >= s.start) ELSE rd)
      hit   == IF s.stop = -1 THEN {}
               ELSE {i \in 1..Len(av) : IF Fix.absent THEN av[i].off >= s.stop ELSE av[i].off = s.stop}
      got   == IF hit = {} THEN av
               ELSE IF av[MinS(hit)].off = s.stop THEN SubSeq(av, 1, MinS(hit))
               ELSE SubSeq(av, 1, MinS(hit) - 1)
      st    == IF hit # {} THEN RE
               ELSE IF ro /\ hw = Newest THEN RE
               ELSE "wait"
      pos   == IF rd = <<>> THEN from ELSE IF hit = {} THEN Last(rd).off + 1 ELSE from
  IN [got |-> got, st |-> st, pos |-> pos, parked |-> s.parked /\ rd = <<>>]

\* the subscriber receives only n messages of that run (n = -1: all of it) and then
\* stops receiving ("more"): the loop reads one more message and blocks handing it
\* over, or blocks handing over its final status, or blocks on the HW
Cut(r, n) ==
  IF n = -1 \/ Len(r.got) < n
  THEN [got |-> r.got, st |-> r.st, pos |-> r.pos, parked |-> r.parked, held |-> NoRec, pendst |-> ""]
  ELSE IF Len(r.got) > n
  THEN [got |-> SubSeq(r.got, 1, n), st |-> "more", pos |-> r.got[n + 1].off + 1, parked |-> FALSE,
        held |-> r.got[n + 1], pendst |-> ""]
  ELSE [got |-> r.got, st |-> "more", pos |-> r.pos, parked |-> r.parked, held |-> NoRec,
        pendst |-> IF r.st = "wait" THEN "" ELSE r.st]

\* records of the segment that holds offset e, as the reverse scanner finds
\* its first slot: e - base counted in index entries (wrong on sparse segments)
RevFrom(e) ==
  IF Fix.slot THEN Rev(SelectSeq(log, LAMBDA r : r.off <= e))
  ELSE LET K == {k \in 1..Len(segs) : SegNext(log, segs, k) > e}
       IN IF K = {} THEN <<>>
          ELSE LET k    == MinS(K)
                   r    == SegRecs(log, segs, k)
                   slot == e - segs[k] + 1                 \* 1-based entry number
                   here == IF slot < 1 \/ slot > Len(r) THEN <<>> ELSE SubSeq(r, 1, slot)
                   below == SelectSeq(log, LAMBDA x : x.off < segs[k])
               IN Rev(below \o here)

\* the reverse subscribe loop runs to its end in one go: [got, st]
RevLoop(s) ==
  LET eff == IF s.start > hw THEN hw ELSE s.start
      av0 == RevFrom(eff)
      av  == IF Fix.revstop /\ s.stop # -1 THEN SelectSeq(av0, LAMBDA r : r.off >= s.stop) ELSE av0
      hit == IF s.stop = -1 THEN {} ELSE {i \in 1..Len(av) : av[i].off = s.stop}
  IN IF hit # {} THEN [got |-> SubSeq(av, 1, MinS(hit)), st |-> RE]
     ELSE [got |-> av, st |-> IF Fix.revstop THEN RE ELSE UNK]

-----------------------------------------------------------------------------
(* What the documentation says a request means (fixed when subscribing).    *)
(* Sets of acceptable bounds where the documentation leaves room.           *)

TsFirstOff(t) == LET i == FirstTsIdx(log, t) IN IF i = 0 THEN Newest + 1 ELSE log[i].off
TsLastOff(u)  == LET I == {i \in 1..Len(log) : log[i].ts <= u}
                 IN IF I = {} THEN -1 ELSE log[MaxS(I)].off

\* forward: lowest offset to deliver (offsets below the oldest retained message
\* mean the oldest: TestSubscribeOffsetUnderflow)
PLos(req) ==
  LET C(S) == {Max2(x, Oldest) : x \in S} IN C(
  CASE req.start = "OFFSET" ->
         \* "first message with an offset >= the given offset"; beyond the end
         \* the repository's tests expect the next new message
         IF req.so > Newest + 1 THEN {req.so, Newest + 1} ELSE {req.so}
    [] req.start = "EARLIEST" -> {-1}
    [] req.start = "LATEST" -> {Newest}
    [] req.start = "NEW_ONLY" -> {Newest + 1}
    [] req.start = "TIMESTAMP" -> {TsFirstOff(req.stt)})

\* forward: highest offset to deliver (Inf = until cancelled).  A stop time denotes
\* the last message at or before it; any offset in the gap that follows that
\* message denotes the same range (the end is then noticed one message later)
PHis(req) ==
  CASE req.stop = "ON_CANCEL" -> {Inf}
    [] req.stop = "OFFSET" -> {req.po}
    [] req.stop = "LATEST" -> {Newest}
    [] req.stop = "TIMESTAMP" ->
         LET h == TsLastOff(req.pt)
             A == {i \in 1..Len(log) : log[i].off > h}
         IN IF h = -1 \/ A = {} THEN {h} ELSE h..(log[MinS(A)].off - 1)

\* reverse: first (highest) offset; -1 = nothing
PUps(req) ==
  CASE req.start = "OFFSET" -> IF req.so < 0 THEN {req.so, 0} ELSE {req.so}   \* negative: nothing, or clamped
    [] req.start = "EARLIEST" -> {Oldest}
    [] req.start = "LATEST" -> {Newest}
    [] req.start = "NEW_ONLY" -> {Newest, -1}
    [] req.start = "TIMESTAMP" -> {TsFirstOff(req.stt), TsLastOff(req.stt)}

\* reverse: last (lowest) offset
PLws(req) ==
  CASE req.stop = "ON_CANCEL" -> {-1}
    [] req.stop = "OFFSET" -> {req.po}
    [] req.stop = "LATEST" -> {Newest}
    \* (a stop time before the first message may also be refused: Inf = nothing)
    [] req.stop = "TIMESTAMP" -> {TsLastOff(req.pt), TsFirstOff(req.pt)}
                                  \cup (IF TsLastOff(req.pt) = -1 THEN {Inf} ELSE {})

NoSub == [open |-> FALSE, req |-> [start |-> "EARLIEST", so |-> 0, stt |-> 0, stop |-> "ON_CANCEL",
                                  po |-> 0, pt |-> 0, rev |-> FALSE],
          start |-> 0, stop |-> -1, pos |-> 0, parked |-> FALSE, base |-> 0, held |-> NoRec, pendst |-> "",
          plos |-> {}, phis |-> {}, pups |-> {}, plws |-> {}, n |-> 0, last |-> -1, st |-> "", hold |-> NoRec]

-----------------------------------------------------------------------------
(* Actions as the code performs them *)

Init ==
  /\ log = <<>> /\ segs = <<0>> /\ hw = -1 /\ ro = FALSE
  /\ subs = [s \in SubIds |-> NoSub]
  /\ obs = [a |-> "Open", err |-> "", got |-> <<>>, st |-> ""]

\* the subscription record right after partition.Subscribe accepted req
NewSub(req) ==
  LET st == ReaderStart(req) sp == StopOf(req).off
      pk == ~req.rev /\ (st > hw \/ log = <<>>) IN
  [open |-> TRUE, req |-> req, start |-> st, stop |-> sp, pos |-> st, parked |-> pk,
   base |-> hw + 1, held |-> NoRec, pendst |-> "",
   plos |-> PLos(req), phis |-> PHis(req), pups |-> PUps(req), plws |-> PLws(req),
   n |-> 0, last |-> -1, st |-> "", hold |-> NoRec]

\* bookkeeping of what was observed (same for the code's and the documented view).
\* hold = the committed record that follows the last delivered one at this moment:
\* a subscription that is not drained may already have read it.
Seen(s, got, st) ==
  LET lst == IF got = <<>> THEN s.last ELSE Last(got).off
      nx  == SelectSeq(log, LAMBDA r : r.off > lst /\ r.off <= hw /\ (s.n + Len(got) > 0 \/ \E lo \in s.plos : r.off >= lo))
  IN [s EXCEPT !.n = @ + Len(got), !.last = lst, !.st = st,
               !.hold = IF st = "more" /\ nx # <<>> THEN nx[1] ELSE NoRec]

\* Subscribe(req) followed by running the loop until it blocks or ends (or until the
\* subscriber has received n messages), as the code does it
SubRun(req, n) ==
  LET e == SubErr(req) s == NewSub(req) IN
  IF e # "" THEN [err |-> e, got |-> <<>>, st |-> e, pos |-> s.pos, parked |-> s.parked, held |-> NoRec, pendst |-> ""]
  ELSE IF req.rev
       THEN LET r == RevLoop(s) IN [err |-> "", got |-> r.got, st |-> r.st, pos |-> s.pos, parked |-> FALSE,
                                    held |-> NoRec, pendst |-> ""]
       ELSE LET c == Cut(FwdLoop(s), n) IN
            [err |-> "", got |-> c.got, st |-> c.st, pos |-> c.pos, parked |-> c.parked, held |-> c.held, pendst |-> c.pendst]

\* the subscription record after Subscribe(req) delivered `got` and reached `st`
SubRec(req, n, got, st) ==
  LET m == SubRun(req, n) IN
  [Seen(NewSub(req), got, st) EXCEPT !.pos = m.pos, !.parked = m.parked, !.held = m.held, !.pendst = m.pendst,
                                     !.open = (st \in {"wait", "more"})]

DoSub(id, req, n) ==
  LET m == SubRun(req, n) IN
  /\ subs' = [subs EXCEPT ![id] = SubRec(req, n, m.got, m.st)]
  /\ obs' = [a |-> "Sub", err |-> m.err, got |-> m.got, st |-> m.st]
  /\ UNCHANGED <<log, segs, hw, ro>>

\* a message the loop was handing over while the log was cleaned: if it is gone from
\* the log, whether the loop had read it before the clean is a matter of scheduling
Holding(s, useHeld) == IF useHeld THEN s ELSE [s EXCEPT !.held = NoRec]

\* the record of an open forward subscription after its loop ran again
DrainRec(id, n, useHeld, got, st) ==
  LET s0 == Holding(subs[id], useHeld)
      c  == Cut(FwdLoop(s0), n) IN
  [Seen(s0, got, st) EXCEPT !.pos = c.pos, !.parked = c.parked, !.held = c.held, !.pendst = c.pendst,
                            !.open = (st \in {"wait", "more"})]

DoDrain(id, n, useHeld) ==
  /\ subs[id].open
  /\ LET c == Cut(FwdLoop(Holding(subs[id], useHeld)), n) IN
     /\ subs' = [subs EXCEPT ![id] = DrainRec(id, n, useHeld, c.got, c.st)]
     /\ obs' = [a |-> "Drain", err |-> "", got |-> c.got, st |-> c.st]
  /\ UNCHANGED <<log, segs, hw, ro>>

DoCancel(id) ==
  /\ subs' = [subs EXCEPT ![id] = NoSub]
  /\ obs' = [a |-> "Cancel", err |-> "", got |-> <<>>, st |-> ""]
  /\ UNCHANGED <<log, segs, hw, ro>>

\* shaping steps (the commit log itself is specified in CommitLog.tla / Cleaner.tla;
\* here only their effect on what a subscriber can see matters)

\* publish through the leader: appended after the newest offset, everything committed
DoPublish(recs) ==
  /\ ~ro
  /\ log' = log \o recs
  /\ hw' = Last(recs).off
  /\ obs' = [a |-> "Publish", err |-> "", got |-> <<>>, st |-> ""]
  /\ UNCHANGED <<segs, ro, subs>>

\* append without commit (what a leader holds while replicas have not acknowledged)
DoTail(recs) ==
  /\ ~ro
  /\ log' = log \o recs
  /\ obs' = [a |-> "Tail", err |-> "", got |-> <<>>, st |-> ""]
  /\ UNCHANGED <<segs, hw, ro, subs>>

DoCommit ==
  /\ hw' = IF log = <<>> THEN hw ELSE Last(log).off
  /\ obs' = [a |-> "Commit", err |-> "", got |-> <<>>, st |-> ""]
  /\ UNCHANGED <<log, segs, ro, subs>>

DoReadonly(b) ==
  /\ ro' = b
  /\ obs' = [a |-> "Readonly", err |-> "", got |-> <<>>, st |-> ""]
  /\ UNCHANGED <<log, segs, hw, subs>>

\* the first half of a cleaner tick: the active segment is rolled when it is full or
\* old enough (which of the two is the commit log's business: here whenever it holds
\* a record); the new active segment is empty and its base offset is the log end
DoRoll ==
  /\ SegRecs(log, segs, Len(segs)) # <<>>
  /\ segs' = Append(segs, Newest + 1)
  /\ obs' = [a |-> "Roll", err |-> "", got |-> <<>>, st |-> "rolled"]
  /\ UNCHANGED <<log, hw, ro, subs>>

\* the cleaner removes committed records from the segments before the active one
\* (which ones is Cleaner.tla's business: here any set `gone`) and drops emptied segments
\* (the newest committed record is the latest of its key among the committed ones: it stays)
Cleanable == {r.off : r \in {log[i] : i \in 1..Len(log)}} \cap {o \in 0..hw - 1 : o < Last(segs)}
DoClean(gone) ==
  /\ gone \subseteq Cleanable
  /\ log' = SelectSeq(log, LAMBDA r : r.off \notin gone)
  /\ segs' = LET keep == {k \in 1..Len(segs) : k = Len(segs) \/ SegRecs(log', segs, k) # <<>>}
              IN SelectSeq(segs, LAMBDA b : \E k \in keep : segs[k] = b)
  /\ obs' = [a |-> "Clean", err |-> "", got |-> <<>>, st |-> ""]
  /\ UNCHANGED <<hw, ro, subs>>

-----------------------------------------------------------------------------
(* What property C10 demands *)

InRange(lo, hi) == SelectSeq(log', LAMBDA r : r.off >= lo /\ r.off <= hi /\ r.off <= hw')

\* forward: exactly the committed retained records from the documented start (or
\* from the one after the last delivered) up to the documented stop, in order;
\* ended with ResourceExhausted exactly when nothing more can belong to the range
\* (stop passed, or end of a read-only partition), waiting otherwise.
\* A range whose stop lies before its start (or before every message) delivers nothing and must end
\* (any status: the repository documents InvalidArgument, lookups may fail).
P_Fwd(s, got, st, n) ==
  LET los == IF s.n = 0 THEN s.plos ELSE {s.last + 1}
      nw  == NewestOf(log', segs')
      \* a subscriber that receives only n messages gets the first n and sees no status
      Ok(E, fin) == IF n = -1 \/ Len(E) < n THEN got = E /\ st = fin
                    ELSE got = SubSeq(E, 1, n) /\ st = "more"
  IN
  \E hi \in s.phis :
    LET fin == IF hw' >= hi \/ (ro' /\ hw' = nw) THEN RE ELSE "wait" IN
    \/ /\ s.n = 0 /\ (hi = -1 \/ \E lo \in los : hi < lo)
       /\ got = <<>> /\ st \notin {"wait", "", "more"}
    \/ \E lo \in los : Ok(InRange(lo, hi), fin)
    \* the record that followed the last delivered one when the subscriber stopped
    \* receiving may have been read then and be delivered now, cleaned or not
    \/ /\ s.hold # NoRec /\ s.hold.off <= hi
       /\ Ok(<<s.hold>> \o InRange(s.hold.off + 1, hi), fin)

\* reverse: exactly the committed retained records from the documented first one
\* down to the documented last one, in decreasing order, then ends (no status is
\* documented for the end of a reverse subscription)
P_Rev(s, got, st) ==
  /\ st \notin {"wait", ""}
  /\ \E up \in s.pups, lw \in s.plws : got = Rev(InRange(lw, up))

P_Sub(id, req, n) ==
  /\ log' = log /\ hw' = hw
  /\ LET s == NewSub(req) IN
     IF req.rev THEN P_Rev(s, obs'.got, obs'.st) ELSE P_Fwd(s, obs'.got, obs'.st, n)

P_Drain(id, n) ==
  /\ log' = log /\ hw' = hw
  /\ P_Fwd(subs[id], obs'.got, obs'.st, n)

P_Same == log' = log /\ hw' = hw

\* nothing is ever delivered twice or out of order by one subscription
Monotone == \A id \in SubIds :
  (subs[id].open /\ subs'[id].open /\ subs'[id].req = subs[id].req /\ subs'[id].n >= subs[id].n /\ subs[id].n > 0)
     => subs'[id].last >= subs[id].last

TypeOK == /\ hw \in Int /\ ro \in BOOLEAN
          /\ \A i \in 1..Len(log) - 1 : log[i].off < log[i + 1].off
          /\ \A k \in 1..Len(segs) - 1 : segs[k] < segs[k + 1]
=============================================================================
