SPECIFICATION MCSpec
CONSTANTS
  MaxRecs = 9
  MaxBatch = 1
  MaxOps = 12
  MaxEpoch = 3
  CapSet = {2, 3, 4}
  OccSet = {TRUE}
  UseReaders = FALSE
CHECK_DEADLOCK FALSE
