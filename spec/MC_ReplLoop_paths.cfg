SPECIFICATION MCSpec
CONSTANTS
  F = {"b"}
  MaxRec = 1
  MaxEp = 2
  FetchMax = 1
  WideEvery = 0
  SlowTimeouts = FALSE
  ZombieSteals = FALSE
  MaxTick = 0
  MaxSlow = 0
  MaxIdleT = 1
  MaxKill = 1
  TrackLast = FALSE

CHECK_DEADLOCK FALSE
