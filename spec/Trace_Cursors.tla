--------------------------- MODULE Trace_Cursors ---------------------------
(* Trace validation for Cursors.tla: every line of trace.ndjson is one step *)
(* executed on the real cursor manager with the projected state after it    *)
(* (cursors partition log, segments, HW, LRU content, paused flag) and the  *)
(* result of the call.  The register `cur`, the pending fetches and the     *)
(* generation counter are not observable; they follow from the calls.       *)
(* P_* failures: FAIL "P" (violation of C11 on real behaviour), Do*         *)
(* mismatches: FAIL "I" (drift).                                            *)
EXTENDS Cursors, TLC, Json

Trace == ndJsonDeserialize("trace.ndjson")

VARIABLES l
tvars == <<vars, l>>

BindObserved(e) ==
  /\ clog' = e.st.clog /\ segs' = e.st.segs /\ next' = e.st.next /\ hw' = e.st.hw
  /\ cache' = e.st.cache /\ cacheOn' = e.st.cacheOn /\ segCap' = e.st.segCap /\ paused' = e.st.paused
  /\ ldr' = e.st.ldr /\ ocache' = e.st.ocache
  /\ obs' = e.obs

TraceInit ==
  LET e == Trace[1] IN
  /\ clog = e.st.clog /\ segs = e.st.segs /\ next = e.st.next /\ hw = e.st.hw
  /\ cache = e.st.cache /\ cacheOn = e.st.cacheOn /\ segCap = e.st.segCap /\ paused = e.st.paused
  /\ ldr = e.st.ldr /\ ocache = e.st.ocache
  /\ obs = e.obs
  /\ pend = [c \in Clients |-> NoPend] /\ cur = [k \in Keys |-> -1] /\ gen = 0
  /\ fails = {} /\ cln = NoCln
  /\ l = 2

Fail(kind, e, name) == PrintT(<<"FAIL", kind, e.t, l, e.a, name>>)
Chk(ok, kind, e, name) == IF ok THEN TRUE ELSE Fail(kind, e, name)

\* what cannot be observed follows from the calls (same formulas as in Do*)
Hidden(e) ==
  CASE e.a = "Open" -> /\ pend' = [c \in Clients |-> NoPend] /\ cur' = [k \in Keys |-> -1] /\ gen' = 0
                       /\ fails' = {} /\ cln' = NoCln
    \* (a SetCursor that was meant to fail but succeeded is a successful one, and vice versa)
    [] e.a \in {"Set", "SetFail"} ->
         IF e.obs.err = ""
         THEN /\ cur' = [cur EXCEPT ![e.args.k] = e.args.v]
              /\ pend' = Note(e.args.k, e.args.v) /\ gen' = gen + (IF paused THEN 2 ELSE 1)
              /\ fails' = {f \in fails : f.key # e.args.k}
              /\ UNCHANGED cln
         ELSE /\ fails' = fails \cup {[key |-> e.args.k, val |-> e.args.v, off |-> next]}
              /\ gen' = IF paused THEN gen + 1 ELSE gen
              /\ UNCHANGED <<cur, pend, cln>>
    [] e.a = "FetchBegin" ->
         /\ pend' = IF e.obs.err = "pending"
                    THEN [pend EXCEPT ![e.args.c] = [on |-> TRUE, key |-> e.args.k, val |-> ScanVal(e.args.k),
                                                     allowed |-> AllowedNow(e.args.k), gen |-> gen]]
                    ELSE pend
         /\ gen' = IF paused /\ e.obs.err = "pending" THEN gen + 1 ELSE gen
         /\ UNCHANGED <<cur, fails, cln>>
    [] e.a = "FetchEnd" -> pend' = [pend EXCEPT ![e.args.c] = NoPend] /\ UNCHANGED <<cur, gen, fails, cln>>
    [] e.a = "Fetch" -> /\ gen' = IF paused /\ ~(cacheOn /\ Has(cache, e.args.k)) THEN gen + 1 ELSE gen
                        /\ UNCHANGED <<pend, cur, fails, cln>>
    [] e.a = "Restart" -> gen' = 0 /\ UNCHANGED <<pend, cur, fails, cln>>
    [] e.a = "Handover" -> gen' = gen + 1 /\ UNCHANGED <<pend, cur, fails, cln>>
    [] e.a = "CleanBegin" -> /\ cln' = [on |-> TRUE, dead |-> CompactDead, n |-> Len(segs)]
                             /\ UNCHANGED <<pend, cur, gen, fails>>
    [] e.a = "CleanEnd" -> cln' = NoCln /\ UNCHANGED <<pend, cur, gen, fails>>
    [] OTHER -> UNCHANGED <<pend, cur, gen, fails, cln>>

PropOf(e) ==
  CASE e.a \in {"Set", "SetFail"} -> P_Set(e.args.k, e.args.v)
    [] e.a = "Fetch" -> P_Fetch(e.args.k)
    [] e.a = "FetchBegin" -> P_FetchBegin(e.args.c, e.args.k)
    [] e.a = "FetchEnd" -> P_FetchEnd(e.args.c)
    [] e.a = "FetchOther" -> P_FetchOther(e.args.k)
    [] OTHER -> TRUE

ImplOf(e) ==
  CASE e.a = "Set" -> DoSet(e.args.k, e.args.v)
    [] e.a = "Fetch" -> DoFetch(e.args.k)
    [] e.a = "FetchBegin" -> DoFetchBegin(e.args.c, e.args.k)
    [] e.a = "FetchEnd" -> DoFetchEnd(e.args.c)
    [] e.a = "SetFail" -> DoSetFail(e.args.k, e.args.v)
    [] e.a = "Clean" -> DoClean
    [] e.a = "CleanBegin" -> DoCleanBegin
    [] e.a = "CleanEnd" -> DoCleanEnd
    [] e.a = "Pause" -> DoPause
    [] e.a = "Roll" -> DoRoll
    [] e.a = "Handover" -> DoHandover
    [] e.a = "FetchOther" -> DoFetchOther(e.args.k)
    [] e.a = "Restart" -> DoRestart
    [] OTHER -> UNCHANGED <<clog, segs, next, hw, cache, cacheOn, segCap, ldr, ocache, paused>>

TraceNext ==
  /\ Trace[l].a # "End"
  /\ l' = l + 1
  /\ LET e == Trace[l] IN
     /\ BindObserved(e)
     /\ Hidden(e)
     /\ IF e.a = "Open" THEN TRUE
        ELSE /\ Chk(PropOf(e), "P", e, "step")
             /\ Chk(ImplOf(e), "I", e, "step")
     /\ Chk(TypeOK', "I", e, "TypeOK")

TraceSpec == TraceInit /\ [][TraceNext]_tvars

Done == PrintT(<<"DONE", TLCGet("stats").diameter, Len(Trace)>>)
=============================================================================
