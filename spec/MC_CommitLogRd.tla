------------------------ MODULE MC_CommitLogRd ------------------------
(* Reader-focused instance of CommitLog.tla for property C03 (sequential,   *)
(* API-granularity part): persistent COMMITTED readers that stay alive      *)
(* while the log under them changes - appends above the HW, replicated      *)
(* appends, HW advances and above all Truncate(o) with o above the HW,      *)
(* which rewrites the segment that holds o (the segment a reader sits in,   *)
(* or the HW segment a reader in an earlier segment still points to) -      *)
(* followed by further appends and drains.  Same actions and P_* predicates *)
(* as MC_CommitLog (C01); only the mix of steps differs: clean close/reopen  *)
(* (HW must survive it), no read-only, no epochs, no concurrency control,   *)
(* readers always committed.                                                *)
EXTENDS MC_CommitLog

RdNext ==
  \/ \E n \in 1..MaxBatch, big \in BOOLEAN : MCAppend(n, big, 0, 9)
  \/ \E n \in 1..MaxBatch : MCAppendSet(n, FALSE, 0, 0)
  \/ \E o \in 0..(Newest + 1) : o > hw /\ MCTruncate(o)
  \/ \E h \in (hw + 1)..Newest : h >= Oldest /\ MCSetHW(h)
  \/ \E r \in Readers, s \in 0..(Newest + 1) : MCNewReader(r, s, TRUE)
  \/ \E r \in Readers : MCDrain(r) \/ MCTail(r)
  \/ MCReopen       \* clean close + open (pause/resume, restart): subscribers come back afterwards

RdSpec == MCInit /\ [][RdNext]_mcvars

\* Scenario family "the log is rewritten under a live reader": the same actions,
\* scheduled in phases by the step counter (a random walk of RdNext reaches
\* "several segments, HW inside, reader positioned, Truncate above the HW,
\* appends, drain" only rarely): build a log, set the HW, create readers /
\* let them deliver, truncate above the HW, append again, then anything.
RdAppends == \/ \E n \in 1..MaxBatch, big \in BOOLEAN : MCAppend(n, big, 0, 9)
             \/ \E n \in 1..MaxBatch : MCAppendSet(n, FALSE, 0, 0)
RdReaders == \E r \in Readers, s \in 0..(Newest + 1) : MCNewReader(r, s, TRUE)
RdDrains  == \E r \in Readers : MCDrain(r) \/ MCTail(r)
RdHW      == \E h \in (hw + 1)..Newest : h >= Oldest /\ MCSetHW(h)
RdFamNext ==
  CASE nOps < 4      -> RdAppends
    [] nOps = 4      -> RdHW
    [] nOps = 5      -> RdReaders
    [] nOps = 6      -> RdDrains \/ RdReaders \/ RdHW
    [] nOps = 7      -> \E o \in 0..(Newest + 1) : o > hw /\ MCTruncate(o)
    [] nOps \in 8..9 -> RdAppends
    [] OTHER         -> RdNext
RdFamSpec == MCInit /\ [][RdFamNext]_mcvars

\* Scenario family "clean close/reopen early in the life of the log": a few
\* records, a HW (any value, including the first offset), then close/reopen
\* among reader creations and drains, then anything.
RdFam2Next ==
  CASE nOps < 2       -> RdAppends
    [] nOps = 2       -> RdHW
    [] nOps \in 3..4  -> MCReopen \/ RdReaders \/ RdDrains
    [] OTHER          -> RdNext
RdFam2Spec == MCInit /\ [][RdFam2Next]_mcvars
=============================================================================
