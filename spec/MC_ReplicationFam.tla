------------------------ MODULE MC_ReplicationFam ------------------------
(* Scenario family for C02 / C04 "a replica catches up across a leader    *)
(* change and is then restarted / elected": the actions of MC_Replication, *)
(* scheduled in phases by a step counter.  A free random walk reaches      *)
(* "messages in two leader epochs, a follower that receives the end of one *)
(* epoch and the start of the next in one response, that follower crashes  *)
(* (or loses a response), restarts and reconciles, further fetches, another*)
(* election" only rarely.  Which replica, which policy, reachability, late *)
(* HW etc. stay free.  Used for stimulus generation only.                  *)
EXTENDS MC_Replication

VARIABLE ph
famvars == <<mcvars, ph>>

FPublish == \E pol \in Policies : MCPublish(<<pol>>, <<FALSE>>)
FFetch == \E f \in R, late \in BOOLEAN : MCFetch(f, late)
FElect == \E n \in R, reach \in BOOLEAN : MCElect(n, reach, {})
FCrash == \E r \in R : MCCrash(r) \/ MCFetchLost(r)
FRestart == \E r \in R, reach \in BOOLEAN : MCRestart(r, reach)

FamStep ==
  CASE ph = 0 -> FPublish
    [] ph \in {1, 2} -> FFetch \/ FPublish
    [] ph = 3 -> FElect
    [] ph = 4 -> FPublish
    [] ph \in {5, 6} -> FFetch
    [] ph = 7 -> FFetch \/ FPublish
    [] ph = 8 -> FCrash
    [] ph = 9 -> FRestart \/ FElect
    [] ph = 10 -> FFetch \/ FElect \/ FRestart
    [] OTHER -> MCNext
FamInit == MCInit /\ ph = 0
FamNext == FamStep /\ ph' = ph + 1
FamSpec == FamInit /\ [][FamNext]_famvars
=============================================================================
