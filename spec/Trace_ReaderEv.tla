-------------------------- MODULE Trace_ReaderEv --------------------------
(* Judgement of a stress history of the real commit log (property C03,     *)
(* safety part + drained-at-quiescence).  Every line is one completed call *)
(* with a global sequence number and a sample of HighWatermark() taken     *)
(* after the call (number and sample are taken under one mutex, so the     *)
(* samples are totally ordered):                                           *)
(*   Open  rs        a new round with readers rs                           *)
(*   New   r, s      committed reader r created at offset s (err: failed)  *)
(*   Del   r, off    ReadMessage of r returned offset off                  *)
(*   REnd  r, err    ReadMessage of r returned an error                    *)
(*   SetHW / SetRO   completed calls                                       *)
(*   Final r, err    state of r at quiescence: blocked | rodone | dead |   *)
(*                   lost (asleep in waitForHW, not a registered waiter)   *)
(*   Quiet           quiescence reached (all writers done)                 *)
(*   Cre   r, s, err, offs, hws, end, h0, h1   (creation rounds) reader r  *)
(*                   was created at offset s WHILE SetHighWatermark(h1)    *)
(*                   ran (HW before: h0) and, every other time, an Append; *)
(*                   afterwards - nobody else running - the HW was set to  *)
(*                   h1 + 1 and r was drained with a cancelled context:    *)
(*                   offs = offsets handed out, hws = HighWatermark()      *)
(*                   after each, end = how the drain ended ("cancelled" =  *)
(*                   r would block now), hw = HighWatermark() afterwards   *)
(* The predicates are those of Reader.tla (DelOK) on the history.          *)
EXTENDS Integers, Sequences, FiniteSets, TLC, Json

Trace == ndJsonDeserialize("trace.ndjson")

VARIABLES l, hwS, dl, st, fin
tvars == <<l, hwS, dl, st, fin>>

Last(s) == s[Len(s)]
InSeq(x, s) == \E i \in 1..Len(s) : s[i] = x

\* copied from Reader.tla (same formula; this module has no Reader state)
DelOK(old, new, start, hwNow) ==
  \/ new = old
  \/ /\ Len(new) = Len(old) + 1 /\ SubSeq(new, 1, Len(old)) = old
     /\ LET o == Last(new) IN
        /\ o <= hwNow /\ o >= 0
        /\ IF old = <<>> THEN o <= start ELSE o = Last(old) + 1

ToSet(s) == {s[i] : i \in DOMAIN s}

TraceInit == /\ l = 1 /\ hwS = -1 /\ dl = <<>> /\ st = <<>> /\ fin = <<>>

Fail(kind, e, name) == PrintT(<<"FAIL", kind, e.t, l, e.a, name>>)
Chk(ok, kind, e, name) == IF ok THEN TRUE ELSE Fail(kind, e, name)

Owed(r, h) == {o \in 0..h : o >= st[r] /\ ~InSeq(o, dl[r])}

\* the deliveries of a drained reader, one DelOK after the other (Reader.tla: C03_Run)
RunOK(offs, hws, start) == \A i \in 1..Len(offs) :
   DelOK(SubSeq(offs, 1, i - 1), SubSeq(offs, 1, i), start, hws[i])

TraceNext ==
  /\ Trace[l].a # "End"
  /\ l' = l + 1
  /\ LET e == Trace[l] IN
     IF e.a = "Open" THEN
        /\ hwS' = e.hw
        /\ dl' = [r \in ToSet(e.rs) |-> <<>>]
        /\ st' = [r \in ToSet(e.rs) |-> -2]
        /\ fin' = [r \in ToSet(e.rs) |-> "none"]
     ELSE
        /\ hwS' = e.hw
        /\ Chk(e.hw >= hwS, "P", e, "C03_HWMonotone")
        /\ CASE e.a = "New" ->
                  /\ st' = [st EXCEPT ![e.r] = e.s]
                  /\ fin' = [fin EXCEPT ![e.r] = IF e.err = "" THEN "running" ELSE "dead"]
                  /\ Chk(e.err = "", "P", e, "C03_ReaderFailed")
                  /\ UNCHANGED dl
             [] e.a = "Del" ->
                  /\ dl' = [dl EXCEPT ![e.r] = Append(@, e.off)]
                  /\ Chk(DelOK(dl[e.r], dl'[e.r], st[e.r], e.hw), "P", e, "C03_Delivery")
                  /\ UNCHANGED <<st, fin>>
             [] e.a = "REnd" ->
                  /\ Chk(e.err = "readonly", "P", e, "C03_ReaderFailed")
                  /\ UNCHANGED <<dl, st, fin>>
             [] e.a = "SetHW" ->
                  \* once SetHighWatermark(h) has returned the HW is at least h
                  \* (whoever else sets it at the same time)
                  /\ Chk(e.hw >= e.off, "P", e, "C03_HWMonotone")
                  /\ UNCHANGED <<dl, st, fin>>
             [] e.a = "Cre" ->
                  /\ Chk(e.err = "", "P", e, "C03_ReaderFailed")
                  /\ Chk(e.hw >= e.h1 + 1, "P", e, "C03_HWMonotone")
                  /\ Chk(RunOK(e.offs, e.hws, e.s), "P", e, "C03_Delivery")
                  \* the drain ends because the reader would block - never with an error
                  \* (the log is not read-only in these rounds)
                  /\ Chk(e.err = "" => e.end = "cancelled", "P", e, "C03_ReaderFailed")
                  \* and then nothing committed at or after its position is owed to it
                  /\ Chk((e.err = "" /\ e.end = "cancelled") =>
                             {o \in e.s..e.hw : ~InSeq(o, e.offs)} = {}, "P", e, "C03_Quiescent")
                  /\ UNCHANGED <<dl, st, fin>>
             [] e.a = "Final" ->
                  /\ fin' = [fin EXCEPT ![e.r] = e.err]
                  /\ UNCHANGED <<dl, st>>
             [] e.a = "Quiet" ->
                  /\ Chk(\A r \in DOMAIN fin : fin[r] \in {"none", "rodone"}
                                               \/ (fin[r] = "blocked" /\ Owed(r, e.hw) = {}),
                         "P", e, "C03_Quiescent")
                  /\ UNCHANGED <<dl, st, fin>>
             [] OTHER -> UNCHANGED <<dl, st, fin>>

TraceSpec == TraceInit /\ [][TraceNext]_tvars

Done == PrintT(<<"DONE", TLCGet("stats").diameter, Len(Trace) + 1>>)
=============================================================================
