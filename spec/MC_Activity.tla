------------------------- MODULE MC_Activity -------------------------
(* Bounded instance of Activity for the exhaustive design check, the       *)
(* liveness check and stimulus generation.  `bud` counts the budgeted      *)
(* environment steps, `last` carries the last action with its arguments    *)
(* (read back by the stimulus generator); neither belongs to the system.   *)
EXTENDS Activity, TLC

CONSTANTS Kinds,       \* kinds of operations committed through the API: subset of {"E", "N"}
          MaxOps,      \* metadata operations committed through the API
          MaxSys,      \* raft-internal entries besides the election no-ops
          MaxFail,     \* spontaneous publish failures (not caused by DoBlock)
          MaxRecFail,  \* spontaneous record failures on the controller
          MaxBlock,    \* times the activity partition starts rejecting publishes
          MaxTake,     \* controller changes while a controller exists
          MaxCrash,    \* process crashes
          MaxStep,     \* step-downs of a controller whose process keeps running
          MaxZombie,   \* publishes by a dispatcher whose server is not the controller any more
          MaxSnap,     \* snapshots
          MaxForeign,  \* operations of another cluster on the same NATS deployment
          Keeps,       \* configured TrailingLogs of the Raft node (set: one value per configuration;
                       \* the code: 10240 = hashicorp/raft's default, whatever the snapshot threshold is;
                       \* a small value = defective variant / generator, MC_Activity_trail.cfg)
          Eager        \* TRUE: environment steps only when no dispatcher can step by itself
                       \*       (the schedule a lock-step driver can reproduce on the real server)

VARIABLES bud, last
mcvars == <<vars, bud, last>>

B0 == [ops |-> 0, sys |-> 0, fail |-> 0, recfail |-> 0, block |-> 0, take |-> 0, crash |-> 0, snap |-> 0, zombie |-> 0, step |-> 0, foreign |-> 0]
Spend(f) == bud' = [bud EXCEPT ![f] = @ + 1]
Keep == UNCHANGED bud

OpC(i) == "op" \o ToString(i)

\* a dispatcher that moves without anybody's help
CanStep == \E n \in Nodes :
             \/ (Ready(n) /\ ~disp[n].lost)
             \/ (up[n] /\ ctl = n /\ disp[n].st = "init")
             \/ (up[n] /\ ctl # n /\ disp[n].st \in {"run", "wait", "init"})   \* notices, exits
Waiting == \E n \in Nodes : disp[n].st = "wait"
Leaderless == ctl = None /\ \E n \in Nodes : up[n]
EnvOK == Eager => (~CanStep /\ ~Leaderless)

CmdBehindSnap(n) == snap[n] = 0 \/ \E i \in (snap[n] + 1)..Len(rlog) : rlog[i].k # "S"

MCInit == Init /\ bud = B0 /\ last = [a |-> "Init"]

L(r) == last' = r

\* Skipping an entry without event is a local, invisible step of one dispatcher
\* that commutes with everything else: it is taken first (partial-order reduction).
Urgent == \E n \in Nodes : Ready(n) /\ Present(n) /\ rlog[disp[n].idx].k # "E"

Others ==
  \/ \E k \in Kinds :
       /\ bud.ops < MaxOps /\ EnvOK /\ DoCommitOp(k, OpC(bud.ops + 1)) /\ Spend("ops")
       /\ L([a |-> "CommitOp", k |-> k, c |-> OpC(bud.ops + 1)])
  \/ bud.sys < MaxSys /\ EnvOK /\ DoSysEntry /\ Spend("sys") /\ L([a |-> "SysEntry"])
  \* election: free (a cluster without controller elects one)
  \/ \E n \in Nodes : ctl = None /\ (Eager => ~CanStep) /\ DoControllerChange(n) /\ Keep
                      /\ L([a |-> "Elect", n |-> n])
  \* take-over while the old controller still believes it leads
  \/ \E n \in Nodes : ctl # None /\ bud.take < MaxTake /\ EnvOK /\ DoControllerChange(n) /\ Spend("take")
                      /\ L([a |-> "TakeOver", n |-> n, old |-> ctl])
  \* (eager: not while the dispatcher is between publish and record - on one real
  \*  server the record of a stepped-down controller cannot be made to fail)
  \/ \E n \in Nodes : bud.step < MaxStep /\ EnvOK /\ (Eager => disp[n].st # "pub") /\ DoStepDown(n) /\ Spend("step")
                      /\ L([a |-> "StepDown", n |-> n])
  \/ \E n \in Nodes : DoBecomeLeader(n) /\ Keep /\ L([a |-> "BecomeLeader", n |-> n])
  \/ \E n \in Nodes : DoNoticeLost(n) /\ Keep /\ L([a |-> "NoticeLost", n |-> n])
  \/ \E n \in Nodes : DoDispatchExit(n) /\ Keep /\ L([a |-> "DispatchExit", n |-> n])
  \/ \E n \in Nodes : ctl = n /\ DoDispatchPublish(n) /\ Keep /\ L([a |-> "DispatchPublish", n |-> n, id |-> disp[n].idx])
  \/ \E n \in Nodes : ctl # n /\ bud.zombie < MaxZombie /\ DoDispatchPublish(n) /\ Spend("zombie")
                      /\ L([a |-> "DispatchPublish", n |-> n, id |-> disp[n].idx])
  \* (eager: a dispatcher whose server stepped down notices and exits, nothing else)
  \/ \E n \in Nodes : blocked /\ (Eager => ctl = n) /\ DoPublishFail(n, FALSE) /\ Keep
                      /\ L([a |-> "PublishFail", n |-> n, landed |-> FALSE, why |-> "blocked"])
  \/ \E n \in Nodes, landed \in BOOLEAN :
       /\ ~blocked /\ bud.fail < MaxFail /\ DoPublishFail(n, landed) /\ Spend("fail")
       /\ L([a |-> "PublishFail", n |-> n, landed |-> landed, why |-> "spontaneous"])
  \/ \E n \in Nodes : DoRecordPublished(n) /\ Keep /\ L([a |-> "RecordPublished", n |-> n, id |-> disp[n].idx])
  \* not the controller any more: the proposal always fails
  \/ \E n \in Nodes : ctl # n /\ DoRecordFail(n, FALSE) /\ Keep
                      /\ L([a |-> "RecordFail", n |-> n, committed |-> FALSE, why |-> "notleader"])
  \/ \E n \in Nodes, cm \in BOOLEAN :
       /\ ctl = n /\ bud.recfail < MaxRecFail /\ DoRecordFail(n, cm) /\ Spend("recfail")
       /\ L([a |-> "RecordFail", n |-> n, committed |-> cm, why |-> "spontaneous"])
  \/ \E n \in Nodes : (Eager => ctl = n) /\ DoBackoff(n) /\ Keep /\ L([a |-> "Backoff", n |-> n])
  \/ bud.block < MaxBlock /\ EnvOK /\ (Eager => ~Waiting) /\ ctl # None /\ up[ctl] /\ DoBlock /\ Spend("block") /\ L([a |-> "Block"])
  \/ EnvOK /\ DoUnblock /\ Keep /\ L([a |-> "Unblock"])
  \* (eager: a server that has a snapshot is only stopped when a command lies behind the snapshot -
  \*  a server restarted from a snapshot with nothing but Raft's own entries behind it starts its
  \*  restored streams, `__activity` among them, only when the next command is applied, and every
  \*  publish times out until then: a start-up matter of the FSM, not of the activity stream)
  \/ \E n \in Nodes : bud.crash < MaxCrash /\ EnvOK /\ (Eager => CmdBehindSnap(n)) /\ DoCrash(n) /\ Spend("crash")
                      /\ L([a |-> "Crash", n |-> n, st |-> disp[n].st])
  \* (snapd / pafter / lpgap: situation of the restart, for the selection of replayed behaviours:
  \*  a snapshot exists, a "P" entry lies behind it, operations with events above the replicated lastPublished)
  \/ \E n \in Nodes : (Eager => ~CanStep) /\ DoStart(n) /\ Keep
                      /\ L([a |-> "Start", n |-> n, snapd |-> snap[n] > 0, pafter |-> LastP(rlog, snap[n]) > 0,
                            lpgap |-> Cardinality({i \in EligIds(rlog) : i > LP(rlog)})])
  \* (Eager: a snapshot of a server that is down cannot be driven; pend = operations not yet published)
  \/ \E n \in Nodes, kp \in Keeps :
       /\ bud.snap < MaxSnap /\ EnvOK /\ DoSnapshot(n, kp) /\ Spend("snap")
       \* (depth = entries from the oldest unpublished operation to the end of the log: a
       \*  configuration with TrailingLogs < depth would compact it away)
       /\ L([a |-> "Snapshot", n |-> n, keep |-> kp, pend |-> Cardinality(Pending),
             lpgap |-> Cardinality({i \in EligIds(rlog) : i > LP(rlog)}),
             depth |-> IF Pending = {} THEN 0
                       ELSE Len(rlog) + 1 - (CHOOSE x \in Pending : \A y \in Pending : x <= y)])
  \/ bud.foreign < MaxForeign /\ EnvOK /\ ctl # None /\ up[ctl] /\ DoForeignPublish /\ Spend("foreign")
       /\ L([a |-> "ForeignOp"])
  \/ \E n \in Nodes : DoDispatchPanic(n) /\ Keep /\ L([a |-> "DispatchPanic", n |-> n])

MCNext ==
  \/ \E n \in Nodes : DoDispatchSkip(n) /\ Keep /\ L([a |-> "DispatchSkip", n |-> n])
  \/ ~Urgent /\ Others

MCSpec == MCInit /\ [][MCNext]_mcvars

-----------------------------------------------------------------------------
\* (before the repair of C18-snapshot-loses-lastpublished a restart from a snapshot
\*  was exempt from P_Start and C18_IdleMeansPublished: `rs[n] = 0 =>`; not any more)

\* a new dispatcher starts from the replicated lastPublished
P_Start(n) == disp'[n].base = LP(rlog)

StepOK ==
  LET a == last' IN
  /\ C18_AppendOnly
  /\ CASE a.a \in {"DispatchPublish", "PublishFail"} ->
            /\ P_Publish(a.n)
            /\ C18_ResumeAbove(disp[a.n].base)
       [] a.a = "BecomeLeader" -> P_Start(a.n) /\ pub' = pub
       [] a.a = "ForeignOp" -> C18_ForeignIsolated
       [] OTHER -> pub' = pub
StepsOK == [][StepOK]_mcvars

\* reachability of the known defect (reported, never a verdict by itself)
NoPanic == dead = {}

-----------------------------------------------------------------------------
(* Liveness: at least once.  Fair dispatcher, timers, elections, restarts and *)
(* the end of every blockade; the budgets make every fault finite.           *)
Fair ==
  /\ \A n \in Nodes :
       /\ WF_mcvars(DoDispatchSkip(n) /\ Keep /\ L([a |-> "DispatchSkip", n |-> n]))
       /\ WF_mcvars(ctl = n /\ DoDispatchPublish(n) /\ Keep /\ L([a |-> "DispatchPublish", n |-> n, id |-> disp[n].idx]))
       /\ WF_mcvars(DoRecordPublished(n) /\ Keep /\ L([a |-> "RecordPublished", n |-> n, id |-> disp[n].idx]))
       /\ WF_mcvars(ctl # n /\ DoRecordFail(n, FALSE) /\ Keep
                    /\ L([a |-> "RecordFail", n |-> n, committed |-> FALSE, why |-> "notleader"]))
       /\ WF_mcvars(DoBackoff(n) /\ Keep /\ L([a |-> "Backoff", n |-> n]))
       /\ WF_mcvars(DoBecomeLeader(n) /\ Keep /\ L([a |-> "BecomeLeader", n |-> n]))
       /\ WF_mcvars(DoNoticeLost(n) /\ Keep /\ L([a |-> "NoticeLost", n |-> n]))
       /\ SF_mcvars(DoDispatchExit(n) /\ Keep /\ L([a |-> "DispatchExit", n |-> n]))
       /\ WF_mcvars(DoStart(n) /\ Keep /\ L([a |-> "Start", n |-> n]))
  /\ WF_mcvars(\E n \in Nodes : ctl = None /\ DoControllerChange(n) /\ Keep /\ L([a |-> "Elect", n |-> n]))
  /\ WF_mcvars(DoUnblock /\ Keep /\ L([a |-> "Unblock"]))
LiveSpec == MCSpec /\ Fair

\* the budgets are finite, so "every operation is eventually published" is
\* "eventually, for good, every committed operation with an event is in the stream"
C18_Eventually == <>[](\A i \in EligIds(rlog) : i \in Ids(pub))

MCView == <<vars, bud>>
=============================================================================
