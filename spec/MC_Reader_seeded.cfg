SPECIFICATION MCSpec
CONSTANTS
  MaxApp = 3
  MaxTog = 0
  Starts = {0, 1, 2}
  CapSet = {2}
  AtomicSet = {FALSE}
  TrackLast = FALSE
  UseRoller = TRUE
  SplitNew = TRUE
  NewLoads = 1
INVARIANTS TypeOK C03_Run C03_NoDeath
CHECK_DEADLOCK FALSE
