SPECIFICATION MCSpec
CONSTANTS
  GroupIds = {"g1"}
  StreamSet = {"sa", "sb"}
  MaxParts = 1
  Brokers = {"r1", "r2", "r3"}
  ConsumerSet = {"c1", "c2"}
  Coords = {"A"}
  OpKinds = {"CreateStream", "DeleteStream", "CreateGroup", "JoinGroup", "LeaveGroup"}
  Variants = {"plain"}
  Extras = {}
  MaxOps = 6
  MaxSnaps = 1
  MaxRestarts = 1
INVARIANTS NoTombLive NoRecLive GroupsValid GroupsFine EpochsFine FlagsConsistent
PROPERTIES A_RS_GroupEpoch
VIEW MCView
CHECK_DEADLOCK FALSE
