SPECIFICATION MCSpec
CONSTANTS
  R = {"a"}
  MinISR = 2
  FetchMax = 2
  WideEvery = 0
  OffsetReset = "all"
  LateResp = "drop"
  HWFallback = FALSE
  ElectAlive = FALSE
  AllowLag = FALSE
  ElectDown = TRUE
  MaxMsgs = 4
  MaxElect = 0
  MaxCrash = 2
  MaxIsrOps = 0
  MaxRejects = 1
  Policies = {"ALL", "LEADER", "NONE"}
  UseCheckpoint = TRUE
  MaxPause = 0
  MaxHold = 0
  Batch = 1
  IgnoreTaints = FALSE
INVARIANTS Inv_CommittedSurvives Inv_NoDivergence Inv_HWBacked Inv_Nacked Inv_Struct
PROPERTIES AcksOK HWMono
VIEW MCView
CHECK_DEADLOCK FALSE
