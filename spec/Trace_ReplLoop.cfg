SPECIFICATION TraceSpec
CONSTANTS
  F = {"b", "c"}
  MaxRec = 99
  MaxEp = 99
  FetchMax = 1
  WideEvery = 0
  SlowTimeouts = TRUE
  ZombieSteals = TRUE
POSTCONDITION Done
CHECK_DEADLOCK FALSE
