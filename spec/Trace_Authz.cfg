SPECIFICATION TraceSpec
CONSTANTS
  Clients = {"alice", "bob"}
  Streams = {"s1", "s2", "__cursors"}
  AuthFirst = TRUE
  GroupAuthz = TRUE
POSTCONDITION Done
CHECK_DEADLOCK FALSE
