------------------------- MODULE MC_Subscribe -------------------------
(* Bounded instance of Subscribe: every log shape over offsets 0..N-1     *)
(* (any subset retained = dense / compacted / trimmed / empty, every      *)
(* segmentation into at most MaxSegs segments, every HW, read-only or     *)
(* not) x every request, followed by growth steps and further loop runs.  *)
EXTENDS Subscribe, SubscribeReqs, TLC

CONSTANTS N, MaxSegs, MaxOps, Ids
VARIABLES last, nOps
mcvars == <<vars, last, nOps>>

Rec(o) == [off |-> o, ts |-> 10 * (o + 1), key |-> "k"]

RECURSIVE AscSeq(_)
AscSeq(S) == IF S = {} THEN <<>> ELSE LET m == MinS(S) IN <<m>> \o AscSeq(S \ {m})

\* segment base offsets possible for the retained offsets q: a base is the next
\* offset at the time the segment was rolled, so it lies between the last offset
\* of the previous segment + 1 and the first retained offset of its own segment
Layouts(q) ==
  IF q = <<>> THEN {<<0>>}
  ELSE LET n == Len(q)
           lo(i) == IF i = 1 THEN 0 ELSE q[i - 1] + 1
       IN UNION { LET st == AscSeq({1} \cup C) IN
                  { [k \in 1..Len(st) |-> IF f[k] THEN q[st[k]] ELSE lo(st[k])] : f \in [1..Len(st) -> BOOLEAN] }
                  : C \in {D \in SUBSET (2..n) : Cardinality(D) < MaxSegs} }

Shapes ==
  UNION { LET q == AscSeq(S) IN
          { [log |-> [i \in 1..Len(q) |-> Rec(q[i])], segs |-> ss, hw |-> h, ro |-> r] :
              ss \in Layouts(q), h \in {-1} \cup S, r \in BOOLEAN }
          : S \in SUBSET (0..N - 1) }

Reqs == ReqsFor(N)

Step(a) == nOps < MaxOps /\ nOps' = nOps + 1 /\ last' = a

MCInit ==
  /\ \E sh \in Shapes : log = sh.log /\ segs = sh.segs /\ hw = sh.hw /\ ro = sh.ro
  /\ subs = [s \in SubIds |-> NoSub]
  /\ obs = [a |-> "Open", err |-> "", got |-> <<>>, st |-> ""]
  /\ last = [a |-> "Open"] /\ nOps = 0

AnyOpen == \E id \in SubIds : subs[id].open

MCSub(id, req) == subs[id].st = "" /\ ~subs[id].open /\ DoSub(id, req) /\ Step([a |-> "Sub", id |-> id, req |-> req])
MCDrain(id) == last.a # "Sub" /\ DoDrain(id) /\ Step([a |-> "Drain", id |-> id])
MCPublish == AnyOpen /\ Newest + 1 <= N + 1 /\ DoPublish(<<Rec(Newest + 1)>>) /\ Step([a |-> "Publish"])
MCTail == AnyOpen /\ Newest + 1 <= N + 1 /\ DoTail(<<Rec(Newest + 1)>>) /\ Step([a |-> "Tail"])
MCCommit == AnyOpen /\ log # <<>> /\ hw < Last(log).off /\ DoCommit /\ Step([a |-> "Commit"])
MCReadonly == AnyOpen /\ ~ro /\ DoReadonly(TRUE) /\ Step([a |-> "Readonly", b |-> TRUE])

MCNext ==
  \/ \E id \in Ids, req \in Reqs : MCSub(id, req)
  \/ \E id \in Ids : MCDrain(id)
  \/ MCPublish \/ MCTail \/ MCCommit \/ MCReadonly

MCSpec == MCInit /\ [][MCNext]_mcvars

StepOK ==
  LET a == last' IN
  CASE a.a = "Sub" -> P_Sub(a.id, a.req)
    [] a.a = "Drain" -> P_Drain(a.id)
    [] OTHER -> TRUE
StepsOK == [][StepOK]_mcvars
MonotoneOK == [][Monotone]_mcvars

MCView == <<vars, nOps>>
=============================================================================
