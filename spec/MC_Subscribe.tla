------------------------- MODULE MC_Subscribe -------------------------
(* Bounded instance of Subscribe: every log shape over offsets 0..N-1     *)
(* (any subset retained = dense / compacted / trimmed / empty, every      *)
(* segmentation into at most MaxSegs segments - the last of which may be  *)
(* an empty active segment, base offset = log end -, every HW, read-only  *)
(* or not) x every request, followed by growth steps and further loop runs.  *)
EXTENDS Subscribe, SubscribeReqs, TLC

CONSTANTS N, MaxSegs, MaxOps, Ids, TakeNs
VARIABLES last, nOps
mcvars == <<vars, last, nOps>>

Rec(o) == [off |-> o, ts |-> 10 * (o + 1), key |-> "k"]

RECURSIVE AscSeq(_)
AscSeq(S) == IF S = {} THEN <<>> ELSE LET m == MinS(S) IN <<m>> \o AscSeq(S \ {m})

\* segment base offsets possible for the retained offsets q: a base is the next
\* offset at the time the segment was rolled, so it lies between the last offset
\* of the previous segment + 1 and the first retained offset of its own segment
LayoutsM(q, m) ==
  IF q = <<>> THEN {<<0>>}
  ELSE LET n == Len(q)
           lo(i) == IF i = 1 THEN 0 ELSE q[i - 1] + 1
       IN UNION { LET st == AscSeq({1} \cup C) IN
                  { [k \in 1..Len(st) |-> IF f[k] THEN q[st[k]] ELSE lo(st[k])] : f \in [1..Len(st) -> BOOLEAN] }
                  : C \in {D \in SUBSET (2..n) : Cardinality(D) < m} }
Layouts(q) == LayoutsM(q, MaxSegs)

\* Every message gone (retention deleted every segment before the empty active one).  NOT part of Shapes yet:
\* on these logs the subscribe path as coded violates StepsOK (a forward subscription whose stop position is
\* at or below the HW keeps waiting until the next publish instead of ending) and the real code does the same
\* (design_notes/C10.md, round 5, open follow-up): including them needs a taint flag / known-finding entry first.
AllGone ==
  UNION { { [log |-> <<>>, segs |-> <<b>>, hw |-> h, ro |-> r] : h \in {-1, b - 1}, r \in BOOLEAN } : b \in 1..N }

\* ... and optionally an empty active segment behind them (a roll done by the cleaner
\* tick and no publish since): its base offset is the log end (it counts as one of the
\* MaxSegs segments)
WithEmptyActive(q) == IF q = <<>> THEN {} ELSE { ss \o <<Last(q) + 1>> : ss \in LayoutsM(q, MaxSegs - 1) }

Shapes ==
  UNION { LET q == AscSeq(S) IN
          { [log |-> [i \in 1..Len(q) |-> Rec(q[i])], segs |-> ss, hw |-> h, ro |-> r] :
              ss \in Layouts(q) \cup WithEmptyActive(q), h \in {-1} \cup S, r \in BOOLEAN }
          : S \in SUBSET (0..N - 1) }
  \* \cup AllGone

Reqs == ReqsFor(N)

\* how many messages a subscriber receives before it stops receiving (-1 = all)
TakeAll == {-1}
TakeQuick == {-1, 1}
TakeThorough == {-1, 0, 2}

Step(a) == nOps < MaxOps /\ nOps' = nOps + 1 /\ last' = a

MCInit ==
  /\ \E sh \in Shapes : log = sh.log /\ segs = sh.segs /\ hw = sh.hw /\ ro = sh.ro
  /\ subs = [s \in SubIds |-> NoSub]
  /\ obs = [a |-> "Open", err |-> "", got |-> <<>>, st |-> ""]
  /\ last = [a |-> "Open"] /\ nOps = 0

AnyOpen == \E id \in SubIds : subs[id].open

MCSub(id, req, n) == /\ subs[id].st = "" /\ ~subs[id].open /\ (n # -1 => ~req.rev)
                     /\ DoSub(id, req, n) /\ Step([a |-> "Sub", id |-> id, req |-> req, n |-> n])
MCDrain(id) == last.a # "Sub" /\ DoDrain(id, -1, TRUE) /\ Step([a |-> "Drain", id |-> id, n |-> -1])
MCPublish == AnyOpen /\ Newest + 1 <= N + 1 /\ DoPublish(<<Rec(Newest + 1)>>) /\ Step([a |-> "Publish"])
MCTail == AnyOpen /\ Newest + 1 <= N + 1 /\ DoTail(<<Rec(Newest + 1)>>) /\ Step([a |-> "Tail"])
MCCommit == AnyOpen /\ log # <<>> /\ hw < Last(log).off /\ DoCommit /\ Step([a |-> "Commit"])
MCRoll == AnyOpen /\ ~ro /\ DoRoll /\ Step([a |-> "Roll"])
MCReadonly == AnyOpen /\ ~ro /\ DoReadonly(TRUE) /\ Step([a |-> "Readonly", b |-> TRUE])
\* a clean under a subscriber that has stopped receiving in the middle of the log
MCClean(gone) == /\ \E id \in SubIds : subs[id].open /\ subs[id].st = "more"
                 /\ gone # {} /\ DoClean(gone) /\ Step([a |-> "Clean"])

MCNext ==
  \/ \E id \in Ids, req \in Reqs, n \in TakeNs : MCSub(id, req, n)
  \/ \E id \in Ids : MCDrain(id)
  \/ MCPublish \/ MCTail \/ MCCommit \/ MCReadonly \/ MCRoll
  \/ \E gone \in SUBSET Cleanable : MCClean(gone)

MCSpec == MCInit /\ [][MCNext]_mcvars

StepOK ==
  LET a == last' IN
  CASE a.a = "Sub" -> P_Sub(a.id, a.req, a.n)
    [] a.a = "Drain" -> P_Drain(a.id, a.n)
    [] OTHER -> TRUE
StepsOK == [][StepOK]_mcvars
MonotoneOK == [][Monotone]_mcvars

MCView == <<vars, nOps>>
=============================================================================
