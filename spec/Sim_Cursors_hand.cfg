SPECIFICATION MCSpecHand
CONSTANTS
  Cap = 2
  SegCaps = {1, 2, 3}
  FixStale = TRUE
  MaxSets = 10
  MaxOps = 16
  MaxFails = 3
  MaxFaults = 5
  UseKeys = {"k1", "k2", "k3"}
  MaxHand = 3
  UseClients = {"c1", "c2"}
CHECK_DEADLOCK FALSE
