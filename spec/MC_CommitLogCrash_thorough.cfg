SPECIFICATION MCSpec
CONSTANTS
  Fix = {"tail", "suffix", "epoch"}
  Taints = {}
  GenMode = FALSE
  MaxSkip = 0
  MaxOps = 4
  MaxPost = 1
  MaxRecs = 6
  MaxBatch = 2
  MaxEpoch = 2
  MaxHit = 4
  MaxRecCrash = 1
  CapSet = {2}
  RetSet = {0, 2}
  CompactSet = {FALSE, TRUE}
  AgeSet = {0, 3}
  Keys = {"a", "nil"}
INVARIANTS NoLoop MemMatchesFiles
PROPERTIES StepsOK
VIEW MCView
CHECK_DEADLOCK FALSE
