\* Demonstration only (not run by any check): before /repo 3ee1c3a TLC exhibited the loss of a leader-epoch
\* entry by a compaction that overlaps an append (EpochCacheKnowsLatest violated); now the invariant holds.
SPECIFICATION MCSpec
CONSTANTS
  MaxRecs = 4
  MaxBatch = 1
  MaxOps = 7
  MaxEpoch = 2
  CapSet = {2}
  KeySet = {"a"}
  AgeSet = {0}
  MsgsSet = {0}
  BytesSet = {0}
  CompactSet = {TRUE}
  LagSet = {0}
  BigSet = {FALSE}
  MaxCleans = 1
  MaxTicks = 0
  UseWindow = TRUE
  UseReopen = FALSE
  UseEpochs = FALSE
  OccSet = {FALSE}
  MinCleanSegs = 1
  UseRevReaders = FALSE
  UseFaults = FALSE
  UseReaders = FALSE
INVARIANTS CTypeOK EpochCacheKnowsLatest
VIEW MCView
CHECK_DEADLOCK FALSE
