------------------------ MODULE MC_CommitLogFam ------------------------
(* Scenario family for C01 "a reader lives through changes of the log":   *)
(* the actions of MC_CommitLog, scheduled in phases by the step counter.  *)
(* A free random walk of MCNext reaches "log of several segments (possibly*)
(* starting above offset 0), reader of either kind created anywhere       *)
(* (below the first offset included), it delivers, the log grows, a       *)
(* truncation above its position rewrites a segment, the log grows again, *)
(* the reader delivers" only rarely; this specification generates exactly *)
(* those behaviours, everything else (arguments, reader kind, start       *)
(* offsets, batch and segment alignment) stays free.  Used for stimulus   *)
(* generation only; the steps are judged by the same P_* predicates.      *)
EXTENDS MC_CommitLog

FamAppends ==
  \/ \E n \in 1..MaxBatch, big \in BOOLEAN, de \in 0..1 : MCAppend(n, big, de, 9)
  \/ \E n \in 1..MaxBatch, big \in BOOLEAN, de \in 0..1, g \in {0, 2} : MCAppendSet(n, big, de, g)
FamHW == \E h \in (hw + 1)..Newest : h >= Oldest /\ MCSetHW(h)
FamReaders == \E r \in Readers, s \in -1..(Newest + 2), c \in BOOLEAN : MCNewReader(r, s, c)
FamDrains == \/ \E r \in Readers : MCDrain(r) \/ MCTail(r)
             \/ \E r \in Readers, k \in 1..2 : MCRead(r, k)
FamTruncate == \E o \in 0..(Newest + 1) : o > hw /\ MCTruncate(o)

FamNext ==
  CASE nOps < 3      -> FamAppends
    [] nOps = 3      -> FamHW \/ FamAppends
    [] nOps = 4      -> FamReaders
    [] nOps = 5      -> FamDrains \/ FamReaders
    [] nOps = 6      -> FamAppends \/ FamHW \/ FamDrains
    [] nOps = 7      -> FamAppends
    [] nOps = 8      -> FamTruncate
    [] nOps = 9      -> FamAppends \/ FamDrains
    [] nOps = 10     -> FamDrains \/ FamHW
    [] OTHER         -> MCNext
FamSpec == MCInit /\ [][FamNext]_mcvars
=============================================================================
