-------------------------------- MODULE Authz --------------------------------
(* C15 - with ACLs on, an unauthorised call is refused and changes nothing.  *)
(*                                                                          *)
(* server/api.go: every API method is a short handler; with                 *)
(* `tls.client.authz` on, `ensureAuthorizationPermission(ctx, resource,     *)
(* action)` asks the casbin enforcer whether the policy contains the entry  *)
(* (client, resource, action).  The handler of each method is transcribed   *)
(* here as its sequence of steps IN CODE ORDER (`Steps`); a call runs the   *)
(* steps one after the other until one of them ends the call.  What matters *)
(* for the property is where the authorisation step stands relative to the  *)
(* steps that change state, and whether a failed check really ends the      *)
(* call.                                                                    *)
(*                                                                          *)
(* The policy is a file; the enforcer holds the loaded copy; SIGHUP reloads *)
(* it (server/signal.go).                                                   *)
EXTENDS Integers, Sequences, FiniteSets

CONSTANTS Clients,      \* client ids taken from the TLS certificate
          Streams,      \* stream names, including the reserved internal stream "__cursors"
          AuthFirst,    \* TRUE: Subscribe / PublishAsync as repaired (fix: commits); FALSE: as pinned
          GroupAuthz    \* TRUE: the consumer-group methods check the policy as repaired (fix: b5212c0, resource =
                        \* the consumer group id, action = the method name); FALSE: as pinned (no check at all)

Star == "*"              \* resource of FetchMetadata
GroupId == "g1"          \* the one consumer group of the model
NoSub == [cid |-> "", epoch |-> -1]

UnaryStreamMethods == {"CreateStream", "DeleteStream", "PauseStream", "SetStreamReadonly", "FetchPartitionMetadata",
                       "Publish", "PublishToSubject", "SetCursor", "FetchCursor"}
StreamingMethods == {"Subscribe", "PublishAsync"}
GroupMethods == {"JoinConsumerGroup", "LeaveConsumerGroup", "FetchConsumerGroupAssignments",
                 "ReportConsumerGroupCoordinator"}
Methods == UnaryStreamMethods \cup StreamingMethods \cup GroupMethods \cup {"FetchMetadata"}

\* the action string a method asks the enforcer about (PublishAsync asks for "Publish")
ActionOf(m) == IF m = "PublishAsync" THEN "Publish" ELSE m
Actions == {ActionOf(m) : m \in Methods}
CursorsStream == "__cursors"   \* reserved internal stream; SetCursor publishes to it on behalf of the caller
UserStreams == Streams \ {CursorsStream}
\* a stream's NATS subject is a name of its own: the resource of every stream method is the stream NAME, only
\* PublishToSubject is authorised on the SUBJECT (stream name and subject must not be confused)
SubjOf(s) == CASE s = "s1" -> "j1" [] s = "s2" -> "j2" [] OTHER -> "jsys"
Subjects == {SubjOf(s) : s \in UserStreams}
\* Names that travel in a request next to its resource (the consumer id of the group calls) are names an
\* operator can write into a policy file too: an entry on such a name grants nothing on the resource itself.
ConsumerOf(c) == c     \* consumer id used by client c in group calls
ConsumerIds == {ConsumerOf(c) : c \in Clients}
Resources == Streams \cup Subjects \cup {Star, GroupId} \cup ConsumerIds
Entries == Clients \X Resources \X Actions

\* a call: method, client, stream, and the request shape
\*   resume : Subscribe with Resume = true
\*   grp    : Subscribe as consumer `c` of the group with epoch `epoch`
\*   ro     : SetStreamReadonly value
\*   cred   : how the caller authenticates on the TLS connection: with a certificate signed by the
\*            configured CA ("verified"), with a self-signed certificate that merely CLAIMS the client's
\*            name ("forged"), or without any certificate ("none")
Creds == {"verified", "forged", "none"}
Calls == [m : Methods, c : Clients, s : Streams, resume : BOOLEAN, grp : BOOLEAN, epoch : 0..2, ro : BOOLEAN,
          cred : Creds]

ResourceOf(call) ==
  IF call.m = "FetchMetadata" THEN Star
  ELSE IF call.m \in GroupMethods THEN GroupId
  ELSE IF call.m = "PublishToSubject" THEN SubjOf(call.s)
  ELSE call.s

Allowed(pol, call) == <<call.c, ResourceOf(call), ActionOf(call.m)>> \in pol

\* Every entry a handler asks for on the caller's behalf: the entry of the call itself, and the entries of the
\* calls it makes in the caller's name while serving it (SetCursor PUBLISHES the cursor to the cursors stream with
\* the caller's identity: documentation "in order to use cursor, the client must also have permissions on __cursors")
Needs(call) == {<<call.c, ResourceOf(call), ActionOf(call.m)>>}
               \cup (IF call.m = "SetCursor" THEN {<<call.c, CursorsStream, "Publish">>} ELSE {})

VARIABLE clientAuth   \* tls.client.auth.enabled: client certificates are requested AND verified against the CA
(* A caller has an identity only through a VERIFIED certificate: the server   *)
(* must verify client certificates and the caller must present one that       *)
(* verifies.  Without an identity there is no policy entry it could hold.      *)
Identified(call) == clientAuth /\ call.cred = "verified"

(* The property's notion of "lacks the matching entry".  The resource of a  *)
(* consumer-group method is the consumer group id (ResourceOf).             *)
Unauthorised(pol, call) ==
  IF ~Identified(call) THEN TRUE
  ELSE ~Allowed(pol, call)

-----------------------------------------------------------------------------
VARIABLES policy,      \* entries loaded in the enforcer
          policyFile,  \* entries in the policy file
          fileOK,      \* the policy file can be loaded (FALSE: it was removed / is unreadable)
          st,          \* per stream: [exists, paused, readonly, len, plain, gsub]
          cursors,     \* per stream: stored cursor offset of the one cursor id, -1 = none
          members,     \* consumer ids that are members of the group
          sessions,    \* clients that hold an open PublishAsync session (a long-lived stream: the first message
                       \* of a client opens it, its later messages travel on the SAME session)
          enforcer,    \* the server built a policy enforcer at start-up (startAPIServer builds none when
                       \* authorisation is enabled but the model or policy path is missing)
          obs          \* result of the last call

vars == <<policy, policyFile, fileOK, st, cursors, members, sessions, enforcer, clientAuth, obs>>

(* What decides a call: the loaded policy - and nothing when no enforcer    *)
(* exists.  With authorisation enabled and no enforcer every call is        *)
(* unauthorised (fail closed): there is no entry any client could hold.     *)
EffPolicy == IF enforcer THEN policy ELSE {}

Absent == [exists |-> FALSE, paused |-> FALSE, readonly |-> FALSE, len |-> 0, plain |-> 0, gsub |-> NoSub]
Fresh  == [Absent EXCEPT !.exists = TRUE]

\* the part of the state the property speaks about
World == <<st, cursors, members>>

-----------------------------------------------------------------------------
(* Handlers: steps in code order.                                           *)
Steps(m) ==
  CASE m = "CreateStream"      -> <<"NotReserved", "Auth", "NeedAbsent", "Create">>
    [] m = "DeleteStream"      -> <<"Auth", "NotReserved", "NeedStream", "Delete">>
    [] m = "PauseStream"       -> <<"Auth", "NeedStream", "Pause">>
    [] m = "SetStreamReadonly" -> <<"Auth", "NeedStream", "SetRO">>
    [] m = "Subscribe"         -> IF AuthFirst
                                  THEN <<"Auth", "NeedStream", "ResumeIfAsked", "GroupEpoch", "TakeOver", "Register", "EndIfInactive">>
                                  ELSE <<"NeedStream", "ResumeIfAsked", "GroupEpoch", "TakeOver", "Register", "AuthOrClose", "EndIfInactive">>
    [] m = "FetchMetadata"     -> <<"Auth">>
    [] m = "FetchPartitionMetadata" -> <<"Auth", "NeedStream", "NeedActive">>
    [] m = "Publish"           -> <<"NeedStream", "Auth", "NeedWritable", "ResumeIfPaused", "Store">>
    [] m = "PublishAsync"      -> IF AuthFirst
                                  THEN <<"Auth", "NeedStream", "NeedWritable", "ResumeIfPaused", "Store">>
                                  ELSE <<"AuthReport", "NeedStream", "NeedWritable", "ResumeIfPaused", "Store">>
    [] m = "PublishToSubject"  -> <<"Auth", "StoreIfListening">>
    [] m = "SetCursor"         -> <<"Auth", "AuthCursors", "StoreCursor">>   \* the cursor is PUBLISHED to __cursors as the caller
    [] m = "FetchCursor"       -> <<"Auth">>
    [] m = "JoinConsumerGroup" -> IF GroupAuthz THEN <<"Auth", "Join">> ELSE <<"Join">>
    [] m = "LeaveConsumerGroup" -> IF GroupAuthz THEN <<"Auth", "NeedMember", "Leave">> ELSE <<"NeedMember", "Leave">>
    [] m = "FetchConsumerGroupAssignments" -> IF GroupAuthz THEN <<"Auth", "NeedMember">> ELSE <<"NeedMember">>
    [] m = "ReportConsumerGroupCoordinator" -> IF GroupAuthz THEN <<"Auth", "NeedMember">> ELSE <<"NeedMember">>

\* running state of a call: the world so far, the result so far, whether the call has ended
Sigma(w) == [st |-> w[1], cursors |-> w[2], members |-> w[3], res |-> "Ok", done |-> FALSE]
\* a denial that was already reported stays the result of the call
End(sg, r) == [sg EXCEPT !.res = IF sg.res = "Denied" THEN "Denied" ELSE r, !.done = TRUE]

\* closing every subscription of a stream (delete, pause)
NoSubs(r) == [r EXCEPT !.plain = 0, !.gsub = NoSub]

DoStep(step, sg, pol, call) ==
  LET s == call.s
      r == sg.st[s]
      ok == Identified(call) /\ Allowed(pol, call) IN
  CASE step = "Auth" -> IF ok THEN sg ELSE End(sg, "Denied")
    [] step = "AuthReport" -> IF ok THEN sg ELSE [sg EXCEPT !.res = "Denied"]     \* reports, does not end the call
    [] step = "AuthOrClose" ->
         IF ok THEN sg
         ELSE \* `defer sub.Close()`: the subscription just registered is closed again
              End([sg EXCEPT !.st[s] = IF call.grp THEN [r EXCEPT !.gsub = NoSub]
                                       ELSE [r EXCEPT !.plain = r.plain - 1]], "Denied")
    [] step = "AuthCursors" -> IF <<call.c, CursorsStream, "Publish">> \in pol THEN sg ELSE End(sg, "Denied")
    [] step = "EndIfInactive" ->
         \* partition.Subscribe does not look at the paused / readonly state: the subscription is set up and
         \* confirmed, then its loop ends at once (closed log of a paused partition, end of a readonly log)
         IF r.readonly \/ r.paused
         THEN End([sg EXCEPT !.st[s] = IF call.grp THEN [r EXCEPT !.gsub = NoSub] ELSE [r EXCEPT !.plain = r.plain - 1]], "Err")
         ELSE sg
    [] step = "NotReserved" -> IF s = CursorsStream THEN End(sg, "Err") ELSE sg
    [] step = "NeedAbsent" -> IF r.exists THEN End(sg, "Err") ELSE sg
    [] step = "NeedStream" -> IF r.exists THEN sg ELSE End(sg, "Err")
    [] step = "NeedActive" -> IF r.paused THEN End(sg, "Err") ELSE sg
    [] step = "NeedWritable" -> IF r.readonly THEN End(sg, "Err") ELSE sg
    [] step = "NeedMember" -> IF ConsumerOf(call.c) \in sg.members THEN sg ELSE End(sg, "Err")
    [] step = "Create" -> [sg EXCEPT !.st[s] = Fresh]
    [] step = "Delete" -> [sg EXCEPT !.st[s] = Absent]
    [] step = "Pause" -> [sg EXCEPT !.st[s] = NoSubs([r EXCEPT !.paused = TRUE])]
    [] step = "SetRO" -> \* subscribers waiting at the end of the log are released when it becomes readonly
                         [sg EXCEPT !.st[s] = IF call.ro THEN NoSubs([r EXCEPT !.readonly = TRUE]) ELSE [r EXCEPT !.readonly = FALSE]]
    [] step = "ResumeIfAsked" -> IF call.resume /\ r.paused THEN [sg EXCEPT !.st[s].paused = FALSE] ELSE sg
    [] step = "ResumeIfPaused" -> IF r.paused THEN [sg EXCEPT !.st[s].paused = FALSE] ELSE sg
    [] step = "GroupEpoch" -> IF call.grp /\ r.gsub # NoSub /\ r.gsub.epoch > call.epoch THEN End(sg, "Err") ELSE sg
    [] step = "TakeOver" -> IF call.grp /\ r.gsub # NoSub THEN [sg EXCEPT !.st[s].gsub = NoSub] ELSE sg
    [] step = "Register" -> IF call.grp THEN [sg EXCEPT !.st[s].gsub = [cid |-> ConsumerOf(call.c), epoch |-> call.epoch]]
                            ELSE [sg EXCEPT !.st[s].plain = r.plain + 1]
    [] step = "Store" -> [sg EXCEPT !.st[s].len = r.len + 1]
    [] step = "StoreIfListening" -> IF r.exists /\ ~r.paused /\ ~r.readonly
                                    THEN [sg EXCEPT !.st[s].len = r.len + 1] ELSE End(sg, "Err")
    [] step = "StoreCursor" -> \* one record appended to the cursors stream
                               [sg EXCEPT !.cursors[s] = 0,
                                          !.st[CursorsStream].len = IF s = CursorsStream THEN r.len + 1
                                                                    ELSE sg.st[CursorsStream].len + 1]
    [] step = "Join" -> IF ConsumerOf(call.c) \in sg.members THEN End(sg, "Err")
                        ELSE [sg EXCEPT !.members = sg.members \cup {ConsumerOf(call.c)}]
    [] step = "Leave" -> [sg EXCEPT !.members = sg.members \ {ConsumerOf(call.c)}]

RECURSIVE RunFrom(_, _, _, _, _)
RunFrom(steps, k, sg, pol, call) ==
  IF k > Len(steps) \/ sg.done THEN sg
  ELSE RunFrom(steps, k + 1, DoStep(steps[k], sg, pol, call), pol, call)

Run(w, pol, call) == RunFrom(Steps(call.m), 1, Sigma(w), pol, call)

-----------------------------------------------------------------------------
\* a client calls an API method
\* (every message of a PublishAsync session is a call of its own: it is authorised against the policy
\* loaded at that moment, whatever the session was allowed to do before)
\* a server that verifies client certificates refuses the TLS handshake of a caller without a certificate it
\* can verify: the request never reaches a handler
Turned(call) == clientAuth /\ call.cred # "verified"
DoCall(call) ==
  LET sg == IF Turned(call) THEN End(Sigma(World), "Err") ELSE Run(World, EffPolicy, call) IN
  /\ st' = sg.st /\ cursors' = sg.cursors /\ members' = sg.members
  /\ sessions' = IF call.m = "PublishAsync" THEN sessions \cup {call.c} ELSE sessions
  /\ obs' = [a |-> "Call", res |-> sg.res]
  /\ UNCHANGED <<policy, policyFile, fileOK, enforcer, clientAuth>>

\* an operator puts a new revision of the policy file in place - written in place, or prepared earlier and
\* renamed over the live file (which keeps the old modification time): the content is what counts
DoEditPolicy(p) ==
  /\ policyFile' = p /\ fileOK' = TRUE
  /\ obs' = [a |-> "EditPolicy", res |-> "Ok"]
  /\ UNCHANGED <<policy, st, cursors, members, sessions, enforcer, clientAuth>>

\* the policy file cannot be loaded any more: it disappears (removed before it is rewritten, unreadable volume;
\* p = policyFile, what it last held), or the write of a new revision p stops half-way (a valid first part, then a
\* line that cannot be parsed, then the rest)
DoBreakFile(p) ==
  /\ fileOK' = FALSE /\ policyFile' = p
  /\ obs' = [a |-> "BreakFile", res |-> "Ok"]
  /\ UNCHANGED <<policy, st, cursors, members, sessions, enforcer, clientAuth>>

\* the client ends a streaming call it made (cancels the gRPC stream): its PublishAsync session is gone, the
\* subscription the call set up (`held`: it was confirmed and is still served) ends; nothing else moves
DoCancel(call, held) ==
  /\ call.m \in StreamingMethods
  /\ sessions' = IF call.m = "PublishAsync" THEN sessions \ {call.c} ELSE sessions
  /\ st' = IF call.m = "Subscribe" /\ held
            THEN [st EXCEPT ![call.s] = IF call.grp THEN [@ EXCEPT !.gsub = NoSub] ELSE [@ EXCEPT !.plain = @ - 1]]
            ELSE st
  /\ obs' = [a |-> "Cancel", res |-> "Ok"]
  /\ UNCHANGED <<policy, policyFile, fileOK, cursors, members, enforcer, clientAuth>>

\* SIGHUP: the enforcer reloads the file; a reload that fails - at the first line or half-way through the
\* file - keeps what was loaded (all or nothing), and the NEXT reload is served like any other
DoReload ==
  /\ enforcer
  /\ policy' = IF fileOK THEN policyFile ELSE policy
  /\ obs' = [a |-> "Reload", res |-> IF fileOK THEN "Ok" ELSE "Failed"]
  /\ UNCHANGED <<policyFile, fileOK, st, cursors, members, sessions, enforcer, clientAuth>>

-----------------------------------------------------------------------------
(* What the property demands.                                               *)
(* A call by a client without the entry is refused (the caller is told so:  *)
(* any error result counts) and the world is what it was.  The LOADED       *)
(* policy decides, so a reload takes effect for the calls after it.         *)
Refused(o) == o.res \in {"Denied", "Err"}
P_Call(call) ==
  Unauthorised(EffPolicy, call) => (Refused(obs') /\ World' = World)
\* "is rejected and has no effect", whichever check rejected it: a call that is ANSWERED with an authorisation
\* denial - by its own check or by the check of a call it makes in the caller's name - has changed nothing.  (Whether
\* a handler needs such inner entries at all is left open: a call that holds its own entry and is carried out is fine.)
P_Denial == obs'.res = "Denied" => World' = World
\* a reload of a loadable file takes effect; one that cannot be loaded grants nothing new
P_Reload == /\ fileOK => policy' = policyFile
            /\ ~fileOK => policy' \subseteq policy
            /\ World' = World
P_Edit == policy' = policy /\ World' = World

TypeOK ==
  /\ policy \subseteq Entries /\ policyFile \subseteq Entries
  /\ \A s \in Streams : st[s].len \in Nat /\ st[s].plain \in Nat
  /\ \A s \in Streams : cursors[s] \in {-1, 0}
  /\ sessions \subseteq Clients /\ enforcer \in BOOLEAN /\ fileOK \in BOOLEAN /\ clientAuth \in BOOLEAN
=============================================================================
